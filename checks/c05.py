"""C05 - rep-changing conversions and their checkers are sound  (I + model).

Per (source rep S, target rep D, factor N/Dd):
  integral S, integral D   exact cell partition of S's whole range (vlib/cells.py): not lossy =>
                           every step of coerce_in<D> defined / in range and result == x*N/Dd;
                           overflow flagged => some step's exact value really leaves its range;
  floating S               exact partition of ALL finite values of S plus NaN, +inf, -inf
                           (vlib/fcells.py): not lossy => fptosi/fptoui operand castable, narrowing
                           float cast finite; NaN / infinities lossy for integral targets; the
                           result is the cast of the very value the checkers examined;
  integral S, floating D   structure only: the chain is IEEE operations with the model constant.
"""
import random
import sys
from fractions import Fraction
from math import gcd

from vlib import common, cxx, model, ir, dag, cells, fcells, irbuild
from vlib.common import AnalysisBroken

PROP = "C05"
INTS = ["int8_t", "uint8_t", "int16_t", "uint16_t", "int32_t", "uint32_t", "int64_t", "uint64_t"]
FLTS = ["float", "double"]
USING = "".join("using std::%s; " % t for t in INTS) + "\n"
FACTORS = [Fraction(1), Fraction(12), Fraction(1, 12), Fraction(1000), Fraction(1, 1000), Fraction(3, 2), Fraction(5, 9),
           Fraction(2 ** 31 - 1), Fraction(10 ** 6), Fraction(1, 3), Fraction(128), Fraction(1, 128), Fraction(65536), Fraction(7, 1000003),
           # factors beyond 2^32: a NARROW source widened into a 64-bit common type can leave it
           Fraction(10 ** 12), Fraction(2 ** 40), Fraction(1, 10 ** 12), Fraction(3, 2 ** 40), Fraction(2 ** 40, 3)]
BIG_FACTORS = [Fraction(10 ** 12), Fraction(2 ** 40), Fraction(1, 10 ** 12), Fraction(3, 2 ** 40), Fraction(2 ** 40, 3)]


def mexpr(fr):
    if fr.denominator == 1 and fr.numerator >= 1 << 64 and fr.numerator & (fr.numerator - 1) == 0:
        return "au::pow<%d>(au::mag<2>())" % (fr.numerator.bit_length() - 1)
    if fr.denominator == 1 and fr.numerator >= 1 << 64 and fr.numerator % 3 == 0 and (fr.numerator // 3) & (fr.numerator // 3 - 1) == 0:
        return "au::mag<3>() * au::pow<%d>(au::mag<2>())" % ((fr.numerator // 3).bit_length() - 1)
    s = "au::mag<%dULL>()" % fr.numerator
    return s + (" / au::mag<%dULL>()" % fr.denominator if fr.denominator != 1 else "")


def compiles_int(S, D, fr):
    C = model.common_type(S, D)
    P = model.promote(C)
    cmax, pmax = model.int_range(C)[1], model.int_range(P)[1]
    if fr.denominator == 1:
        return fr.numerator <= cmax
    if fr.numerator == 1:
        return fr.denominator <= cmax
    return fr.numerator <= pmax and fr.denominator <= pmax


def block(k, S, D, fr, irrational=False):
    mg = "au::Magnitude<au::Pi>{} / au::mag<180>()" if irrational else mexpr(fr)
    ls = ["struct VB%d : au::UnitImpl<au::Angle> {}; struct VA%d : decltype(VB%d{} * (%s)) {};" % (k, k, k, mg),
          'extern "C" %s conv_%d(%s x) { return au::make_quantity<VA%d>(x).coerce_in<%s>(VB%d{}); }' % (D, k, S, k, D, k),
          'extern "C" %s conva_%d(%s x) { return au::make_quantity<VA%d>(x).as<%s>(VB%d{}).in(VB%d{}); }' % (D, k, S, k, D, k, k),
          'extern "C" bool lossy_%d(%s x) { return au::is_conversion_lossy<%s>(au::make_quantity<VA%d>(x), VB%d{}); }' % (k, S, D, k, k),
          'extern "C" bool ovf_%d(%s x) { return au::will_conversion_overflow<%s>(au::make_quantity<VA%d>(x), VB%d{}); }' % (k, S, D, k, k),
          'extern "C" bool trunc_%d(%s x) { return au::will_conversion_truncate<%s>(au::make_quantity<VA%d>(x), VB%d{}); }' % (k, S, D, k, k)]
    if fr == 1 and not irrational:
        ls.append('extern "C" %s rc_%d(%s x) { return au::rep_cast<%s>(au::make_quantity<VB%d>(x)).in(VB%d{}); }' % (D, k, S, D, k, k))
    return "\n".join(ls)


def analyse_int_int(mod, k, S, D, fr, fs):
    N, Dd = fr.numerator, fr.denominator
    key = "%s->%s@%s" % (S, D, fr)
    dg = {nm: dag.build(mod.funcs["%s_%d" % (nm, k)], mod) for nm in ("conv", "conva", "lossy", "ovf", "trunc")}
    roots = {nm: d.ret for nm, d in dg.items()}
    bits, signed = model.INT_TYPES[model.canon(D)]
    lo, hi = model.int_range(S)
    part = cells.analyse(roots, lo, hi, ret_views={"conv": (bits, signed), "conva": (bits, signed)},
                         arith={nm: dg[nm].arith for nm in ("conv", "conva", "lossy", "ovf", "trunc")}, wrap_roots=("lossy", "ovf", "trunc"))
    C = model.common_type(S, D)
    P = model.promote(C)
    clo, chi = model.int_range(C)
    plo, phi = model.int_range(P)
    dlo, dhi = model.int_range(D)
    a5 = min(min(phi, chi * Dd, dhi * Dd) // N, chi)
    b5 = max(-((-max(plo, clo * Dd, dlo * Dd)) // N), clo)
    nob = ndis = 0
    for cell, res in part:
        # (every arithmetic instruction of a checker counts, also one whose result the optimiser no
        #  longer uses: the constant evaluator, and the abstract machine, still perform it)
        ub = [(nm, res[nm]) for nm in ("lossy", "ovf", "trunc") if isinstance(res[nm], cells.Bad)] + \
             [(nm, res["!" + nm]) for nm in ("lossy", "ovf", "trunc") if isinstance(res.get("!" + nm), cells.Bad) and res["!" + nm].kind in ("signed-overflow", "division-by-zero")]
        if ub and ub[0][1].kind == "remainder-narrowed":
            nm, v = ub[0]
            fs.append((key + "|checker-%s-narrowed-remainder" % nm, "%s<%s> answers false for x=%d although the scaled value is not an integer: %s (%s)"
                       % ({"lossy": "is_conversion_lossy", "trunc": "will_conversion_truncate", "ovf": "will_conversion_overflow"}[nm], D, v.example, v.detail, key), ""))
            nob += 1
            continue
        if ub:
            nm, v = ub[0]
            fs.append((key + "|checker-%s-undefined" % nm, "evaluating the %s<%s> checker itself is undefined for x=%d: %s at %s (%s)"
                       % (nm, D, cell.example(), v.kind, mod.where(v.node.dbg) if v.node is not None and v.node.dbg else "?", key), ""))
            nob += 1
            continue
        fl, fo, ft = (cells.as_bool(res[n]) for n in ("lossy", "ovf", "trunc"))
        if None in (fl, fo, ft):
            raise AnalysisBroken("%s: checker undecided on %r: %r" % (key, cell, {n: res[n] for n in ("lossy", "ovf", "trunc")}))
        nob += 1
        ok = True
        if fl != (fo or ft):
            fs.append((key + "|disjunction", "is_conversion_lossy<%s> is not the disjunction of overflow and truncate for x=%d (%s)" % (D, cell.example(), key), ""))
            ok = False
        for cn in ("conv", "conva"):
            cv = res[cn]
            if res.get("!" + cn) is not None and not isinstance(cv, cells.Bad):
                cv = res["!" + cn]
            if not fl:
                x = cell.example()
                if isinstance(cv, cells.Bad):
                    fs.append((key + "|%s-ub-when-cleared" % cn, "is_conversion_lossy<%s> is false for x=%d but %s: %s at %s (%s)"
                               % (D, x, cn, cv.kind, mod.where(cv.node.dbg) if cv.node is not None and cv.node.dbg else "?", key), ""))
                    ok = False
                elif isinstance(cv, cells.Form):
                    f1, l1 = cell.first(), cell.last()
                    for xx in (f1, l1, x):
                        if Fraction(cv.at(xx)) != Fraction(xx * N, Dd):
                            fs.append((key + "|%s-wrong-value" % cn, "is_conversion_lossy<%s> is false for x=%d but %s returns %s, exact value %s (%s)"
                                       % (D, xx, cn, cv.at(xx), Fraction(xx * N, Dd), key), "form %r on %r" % (cv, cell)))
                            ok = False
                            break
                    else:
                        if not (cv.kind == "aff" or f1 == l1 or (cell.cls and cell.cls[2] and cell.cls[0] % Dd == 0)):
                            # a truncating form on a cell that is not known to be divisible: look for a counterexample
                            c2 = cells.Cell(cell.lo, cell.hi, (Dd, 0, False)) if cell.cls is None else None
                            if c2 is not None and not c2.empty():
                                xx = c2.example()
                                fs.append((key + "|%s-wrong-value" % cn, "is_conversion_lossy<%s> is false for x=%d but x*%d/%d is not an integer (%s returns %s)" % (D, xx, N, Dd, cn, cv.at(xx)), ""))
                                ok = False
                else:
                    raise AnalysisBroken("%s: %s not analysable on cleared cell %r: %r" % (key, cn, cell, cv))
        if fo:
            # overflow flagged only where some step's exact value leaves its range
            inside = cells.Cell(max(cell.lo, b5), min(cell.hi, a5), cell.cls)
            if not inside.empty():
                xx = inside.example()
                fs.append((key + "|overflow-false-positive", "will_conversion_overflow<%s> is TRUE for x=%d although x fits %s, x*%d=%d fits %s and x*%d/%d=%s fits %s and %s"
                           % (D, xx, C, N, xx * N, P, N, Dd, Fraction(xx * N, Dd), C, D), key))
                ok = False
        ndis += ok
    return nob, ndis


def analyse_float_src(mod, k, S, D, fr, irrational, fs):
    key = "%s->%s@%s" % (S, D, "pi/180" if irrational else fr)
    dg = {nm: dag.build(mod.funcs["%s_%d" % (nm, k)], mod) for nm in ("conv", "conva", "lossy", "ovf", "trunc")}
    roots = {nm: d.ret for nm, d in dg.items()}
    part, class_node = fcells.analyse(roots, S)
    nob = ndis = 0
    d_int = model.is_int(D)
    for cell, rlo, rhi in part:
        nob += 1
        ok = True
        for end, r in (("lo", rlo), ("hi", rhi)):
            fl = r["lossy"]
            if fl not in (0, 1) or r["ovf"] not in (0, 1) or r["trunc"] not in (0, 1):
                raise AnalysisBroken("%s: checker not decided on %r: %r" % (key, cell, {n: r[n] for n in ("lossy", "ovf", "trunc")}))
            if fl != (r["ovf"] | r["trunc"]):
                fs.append((key + "|disjunction", "is_conversion_lossy<%s> is not the disjunction of overflow and truncate on %r (%s)" % (D, cell, key), ""))
                ok = False
            x = cell.special or float(fcells.ord_to_val(cell.lo if end == "lo" else cell.hi, S))
            if cell.special and d_int and not fl:
                fs.append((key + "|special-not-lossy", "%s is not reported lossy for the integral target %s (%s)" % (cell.special, D, key), ""))
                ok = False
            for cn in ("conv", "conva"):
                cv = r[cn]
                if not fl:
                    if isinstance(cv, fcells.Bad):
                        fs.append((key + "|%s-uncastable-when-cleared" % cn, "is_conversion_lossy<%s> is false for x=%r (%s) but %s: %s at %s"
                                   % (D, x, key, cn, cv.kind, mod.where(cv.node.dbg) if cv.node.dbg else "?"),
                                   "cell %r%s" % (cell, "" if cell.cls is None else " (values of the cell whose scaled value is %s)" % ("integral" if cell.cls == "I" else "not integral"))))
                        ok = False
                    elif cv in (fcells.INF, fcells.NINF, fcells.NAN) and not cell.special:
                        fs.append((key + "|%s-overflow-when-cleared" % cn, "is_conversion_lossy<%s> is false for x=%r (%s) but %s produces %s" % (D, x, key, cn, cv), ""))
                        ok = False
                    elif isinstance(cv, fcells.Top):
                        raise AnalysisBroken("%s: %s not analysable on %r: %r" % (key, cn, cell, cv))
        ndis += ok
    # the result is the value-preserving cast of the very value the checkers examined
    nob += 1
    c = roots["conv"]
    core = c.args[0] if c.op in ("fptosi", "fptoui", "fptrunc", "fpext") else c
    if d_int and class_node is not None and core != class_node:
        fs.append((key + "|different-value", "the converted value and the value examined by the truncation checker differ (%s)" % key, "conv: %s\nchecked: %s" % (core.pretty(), class_node.pretty())))
    else:
        a = dag.fp_affine(core)
        want = None if irrational else fr
        if a is None or set(a[0]) - {0} or a[1] != 0:
            fs.append((key + "|not-a-scaling", "floating conversion is not one scaling of x (%s)" % key, core.pretty()))
        else:
            got = a[0].get(0, Fraction(0))
            exact = Fraction(314159265358979323846, 10 ** 20) / 180 if irrational else fr
            prec = fcells.FMT[model.common_type(S, D) if model.is_fp(model.common_type(S, D)) else S][0]
            if abs(got - exact) > abs(exact) * Fraction(1, 2 ** (prec - 2)):
                fs.append((key + "|constant", "floating conversion scales by %r, the factor is %r (%s)" % (float(got), float(exact), key), core.pretty()))
            else:
                ndis += 1
    return nob, ndis, len(part)


def analyse_int_to_float(mod, k, S, D, fr, fs, irrational=False):
    key = "%s->%s@%s" % (S, D, "pi/180" if irrational else fr)
    if irrational:
        fr = Fraction(314159265358979323846, 10 ** 20) / 180
    d = dag.build(mod.funcs["conv_%d" % k], mod)
    uns = not model.INT_TYPES[model.canon(S)][1]
    a = dag.fp_affine(d.ret, uns)
    if a is None or set(a[0]) - {0} or a[1] != 0:
        fs.append((key + "|not-a-scaling", "integral -> floating conversion is not one scaling of x (%s)" % key, d.ret.pretty()))
        return 1, 0
    got = a[0].get(0, Fraction(0))
    prec = fcells.FMT[D][0]
    nfl = sum(1 for o in a[2] if o.op in ("fmul", "fdiv", "fadd", "fsub", "mul", "sdiv", "udiv"))
    if abs(got - fr) > abs(fr) * Fraction(1, 2 ** (prec - 2)) or nfl > 2:
        fs.append((key + "|constant", "integral -> floating conversion scales by %r in %d steps, the factor is %r (%s)" % (float(got), nfl, float(fr), key), d.ret.pretty()))
        return 1, 0
    if irrational:
        return 1, 1
    # the checkers for an integral source and a floating target: "overflow is reported only when some
    # step's exact value really leaves that step's range", and a cleared value converts to a finite one.
    # The overflow checker must be the two-sided threshold test on the converted value; with the
    # (monotone) integer -> floating rounding the flagged set is [t, max] (and its mirror): the
    # obligations are decided at the two values next to each threshold, for all x at once.
    nob, ndis = 1, 1
    lo, hi = model.int_range(S)
    mx = fcells.fmax(D)
    F = got  # the constant the conversion really multiplies by

    def fl(x):
        return fcells.fp_round(Fraction(x), D)

    def conv_overflows(x):
        return fcells.fp_round(fl(x) * F, D) in (fcells.INF, fcells.NINF)

    for nm in ("ovf", "lossy"):
        r = dag.build(mod.funcs["%s_%d" % (nm, k)], mod).ret
        nob += 1
        thr = None
        if r.is_const():
            flagged = (lambda x, v=bool(r.cval()): v)
        else:
            parts = list(r.args) if r.op == "or" else [r]
            cs = []
            for c in parts:
                if c.op == "fcmp" and c.attr in ("olt", "ogt", "ole", "oge") and len(c.args) == 2:
                    a0, a1 = c.args
                    cv = lambda n: n.op in ("sitofp", "uitofp") and n.args[0].op in ("param", "sext", "zext")
                    if a0.is_const() and cv(a1):
                        cs.append((c.attr, "const-left", a0.cval()))
                    elif a1.is_const() and cv(a0):
                        cs.append((c.attr, "const-right", a1.cval()))
            if len(cs) != len(parts) or not cs:
                fs.append((key + "|%s-shape" % nm, "the %s<%s> checker of an integral source is not a threshold test on the converted value (%s)" % (nm, D, key), r.pretty()))
                continue

            def flagged(x, cs=cs):
                v = fl(x)
                for pred, side, c in cs:
                    a, b = (c, v) if side == "const-left" else (v, c)
                    if {"olt": a < b, "ogt": a > b, "ole": a <= b, "oge": a >= b}[pred]:
                        return True
                return False
        # thresholds by bisection on the monotone predicate, positive and negative side
        bad = None
        for sign in (1, -1):
            end = hi if sign > 0 else lo
            if end == 0 or (sign < 0 and lo >= 0):
                continue
            a, b = 0, abs(end)  # flagged(sign*a) assumed false at 0
            if flagged(0):
                bad = ("flags x=0", 0)
                break
            if not flagged(sign * b):
                t = None
            else:
                while b - a > 1:
                    m = (a + b) // 2
                    if flagged(sign * m):
                        b = m
                    else:
                        a = m
                t = b
            first_flagged = sign * t if t is not None else None
            last_clear = sign * (t - 1) if t is not None else end
            if first_flagged is not None and abs(fl(first_flagged)) * F <= mx and abs(Fraction(first_flagged)) * F <= mx:
                bad = ("%s<%s> is TRUE for x=%d although the cast is exact or in range and the scaled value %s x %s does not exceed the largest finite %s" % (
                    "will_conversion_overflow" if nm == "ovf" else "is_conversion_lossy", D, first_flagged, first_flagged, float(F), D), first_flagged)
                break
            if conv_overflows(last_clear):
                bad = ("%s<%s> is false for x=%d but the conversion result is infinite" % ("will_conversion_overflow" if nm == "ovf" else "is_conversion_lossy", D, last_clear), last_clear)
                break
        if bad:
            fs.append((key + "|%s-threshold" % nm, bad[0] + " (%s)" % key, r.pretty()))
        else:
            ndis += 1
    return nob, ndis


def body(ctx):
    rnd = random.Random(ctx.seed)
    insts = []
    for S in INTS + FLTS:
        for D in INTS + FLTS:
            if S == D:
                continue
            for fr in FACTORS:
                if model.is_int(S) and model.is_int(D) and not compiles_int(S, D, fr):
                    continue
                insts.append((S, D, fr, False))
            if model.is_fp(model.common_type(S, D)):
                insts.append((S, D, Fraction(1), True))
            if model.is_int(S) and model.is_fp(D):
                # factors that bring an integral count to the edge of the floating range
                for e in ((100, 104, 127) if D == "float" else (1000, 971, 1023)):
                    insts.append((S, D, Fraction(2 ** e), False))
                    insts.append((S, D, Fraction(3 * 2 ** (e - 2)), False))
    if not ctx.thorough:
        keep = [i for i in insts if model.is_fp(i[0]) and i[2] in (Fraction(1), Fraction(12), Fraction(1, 1000), Fraction(5, 9))]
        rest = [i for i in insts if i not in keep]
        insts = keep[:] if len(keep) < 200 else rnd.sample(keep, 200)
        insts += rnd.sample(rest, 220)
        # always: a 32-bit (and a 16-bit) source into a 64-bit target with the factors beyond 2^32
        insts += [i for i in rest if i[2] in BIG_FACTORS and i[0] in ("int32_t", "uint32_t", "int16_t") and i[1] in ("int64_t", "uint64_t") and i not in insts]
        insts += [i for i in rest if model.is_int(i[0]) and model.is_fp(i[1]) and i[2] >= 2 ** 64 and i[0] in ("int32_t", "uint64_t", "int8_t", "uint16_t") and i not in insts]
    ctx.log("%d instances (source rep, target rep, factor)" % len(insts))
    prelude = "#include <cstdint>\n#include \"au/au.hh\"\n" + USING
    chunks = [list(enumerate(insts))[i:i + 18] for i in range(0, len(insts), 18)]
    tot = dict(ob=0, dis=0, int_int=0, float_src=0, int_float=0, fcells=0, dropped=0)
    findings = []

    def do(arg):
        ci, ch = arg
        blocks = [(k, block(k, S, D, fr, irr)) for k, (S, D, fr, irr) in ch]
        meta = {k: v for k, v in ch}
        mod, alive, dropped = irbuild.build_blocks(ctx, prelude, blocks, "c05_%d" % ci, only=lambda n: n.split("_")[0] in ("conv", "conva", "lossy", "ovf", "trunc", "rc"))
        fs = []
        st = dict(ob=0, dis=0, int_int=0, float_src=0, int_float=0, fcells=0, dropped=len(dropped))
        for k, msg in dropped.items():
            # every instance here is an explicit-rep form for a factor both reps can hold: it compiles
            S, D, fr, irr = meta[k]
            fs.append(("%s->%s@%s|refused" % (S, D, "pi/180" if irr else fr), "the explicit-rep conversion %s -> %s with factor %s, or one of its <T> checkers, is refused by clang++ -std=c++14: %s"
                       % (S, D, "pi/180" if irr else fr, msg), ""))
        for k in alive:
            S, D, fr, irr = meta[k]
            if model.is_int(S) and model.is_int(D):
                a, b = analyse_int_int(mod, k, S, D, fr, fs)
                st["int_int"] += 1
            elif model.is_fp(S):
                a, b, nc = analyse_float_src(mod, k, S, D, fr, irr, fs)
                st["float_src"] += 1
                st["fcells"] += nc
            else:
                a, b = analyse_int_to_float(mod, k, S, D, fr, fs, irr)
                st["int_float"] += 1
            st["ob"] += a
            st["dis"] += b
            if fr == 1 and not irr and ("rc_%d" % k) in mod.funcs:
                st["ob"] += 1
                if dag.build(mod.funcs["rc_%d" % k], mod).ret == dag.build(mod.funcs["conv_%d" % k], mod).ret:
                    st["dis"] += 1
                else:
                    fs.append(("%s->%s|rep_cast" % (S, D), "rep_cast<%s> differs from coerce_in<%s> in the same unit" % (D, D), ""))
        return st, fs

    for st, fs in cxx.pmap(do, list(enumerate(chunks))):
        for k2 in tot:
            tot[k2] += st[k2]
        findings += fs
    seenk = set()
    for key, what, detail in findings:
        ctx.violation(key, what, detail)
    ctx.require(tot["int_int"] + tot["float_src"] + tot["int_float"] >= 300, "only %d instances analysed" % (tot["int_int"] + tot["float_src"] + tot["int_float"]))
    ctx.coverage.update(dict(
        obligations=tot["ob"], discharged=tot["dis"], checker_cmd="bin/check C05 --tier %s" % ctx.tier,
        trusted_base=["clang 14 lowering to IR", "opt-14 sroa/inline/simplifycfg", "vlib/cells.py (integers), vlib/fcells.py (IEEE binary32/64 with exact rational rounding model)"],
        evaluations=len(insts), distinct_nontrivial=len(insts),
        rule="instance = (source rep, target rep, factor) over all ordered pairs of the 10 standard reps; integral sources are analysed for all values by integer cells, floating sources for ALL finite values plus NaN and the infinities by floating cells (interval of ordinals x integrality class of the scaled value)",
        samples=[dict(instance="%s -> %s, factor %s" % (insts[0][0], insts[0][1], insts[0][2]))], exhaustive=False,
        instances=len(insts), int_to_int=tot["int_int"], float_source=tot["float_src"], int_to_float=tot["int_float"],
        floating_cells=tot["fcells"], not_compiling=tot["dropped"],
        not_decided="bit-exactness of integral -> floating conversions beyond 2^digits (documented convention: floating destinations are value preserving); long double"))
    ctx.assumptions += ["IEEE-754 binary32/binary64 round-to-nearest-even as lowered by clang on x86-64 (SSE arithmetic)"]


def main(argv=None):
    return common.run_check(PROP, "proof", body, argv)


if __name__ == "__main__":
    sys.exit(main())
