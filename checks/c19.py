"""C19 - ZERO is the exact zero of every unit (I: DAG equality with the raw `x op 0`; W: constants
and compile-fail witnesses for quantity points)."""
import random
import sys

from vlib import common, cxx, witness, atoms, model, ir, dag
from checks.c13 import REPS11, REPS_I, USING, gen_units

PROP = "C19"
CMPS = [("eq", "=="), ("ne", "!="), ("lt", "<"), ("le", "<="), ("gt", ">"), ("ge", ">=")]
CHRONO = ["std::chrono::duration<int, std::milli>", "std::chrono::duration<double>", "std::chrono::nanoseconds",
          "std::chrono::duration<std::int64_t, std::ratio<1001, 30000>>", "std::chrono::hours",
          "std::chrono::duration<float, std::ratio<60>>"]


def ir_wrappers(uexprs):
    lines, pairs = [], []
    k = 0
    for ue in uexprs:
        for r in REPS_I:
            lines.append("using ZU{k} = decltype({ue}); using ZR{k} = {r};\n"
                         "static constexpr auto zq{k}(ZR{k} x) {{ return au::make_quantity<ZU{k}>(x); }}".format(k=k, ue=ue, r=r))

            def emit(nm, ret, au_body, ref_body):
                an, rn = "au_%s_%d" % (nm, k), "ref_%s_%d" % (nm, k)
                lines.append('extern "C" %s %s(ZR%d x) { %s }' % (ret, an, k, au_body))
                lines.append('extern "C" %s %s(ZR%d x) { %s }' % (ret, rn, k, ref_body))
                pairs.append(("%s/%s/%s" % (nm, r, ue), an, rn))

            for nm, op in CMPS:
                emit("q_%s_z" % nm, "bool", "return zq%d(x) %s au::ZERO;" % (k, op), "return x %s ZR%d{0};" % (op, k))
                emit("z_%s_q" % nm, "bool", "return au::ZERO %s zq%d(x);" % (op, k), "return ZR%d{0} %s x;" % (k, op))
            rt = "decltype(ZR%d{} + ZR%d{})" % (k, k)
            emit("q_plus_z", rt, "return (zq%d(x) + au::ZERO).in(ZU%d{});" % (k, k), "return x + ZR%d{0};" % k)
            emit("z_plus_q", rt, "return (au::ZERO + zq%d(x)).in(ZU%d{});" % (k, k), "return ZR%d{0} + x;" % k)
            emit("q_minus_z", rt, "return (zq%d(x) - au::ZERO).in(ZU%d{});" % (k, k), "return x - ZR%d{0};" % k)
            emit("z_minus_q", rt, "return (au::ZERO - zq%d(x)).in(ZU%d{});" % (k, k), "return ZR%d{0} - x;" % k)
            # the compound forms of the same additions, and assignment
            emit("q_pluseq_z", "ZR%d" % k, "auto q = zq%d(x); q += au::ZERO; return q.in(ZU%d{});" % (k, k), "ZR%d y = x; y += ZR%d{0}; return y;" % (k, k))
            emit("q_minuseq_z", "ZR%d" % k, "auto q = zq%d(x); q -= au::ZERO; return q.in(ZU%d{});" % (k, k), "ZR%d y = x; y -= ZR%d{0}; return y;" % (k, k))
            emit("q_assign_z", "ZR%d" % k, "auto q = zq%d(x); q = au::ZERO; return q.in(ZU%d{});" % (k, k), "ZR%d y = x; y = ZR%d{0}; return y;" % (k, k))
            k += 1
    return "\n".join(lines) + "\n", pairs


def w_items(uexprs, rnd, thorough):
    items = []
    for ue in uexprs:
        lines = ["using U = decltype(%s);" % ue]
        for j, r in enumerate(REPS11):
            lines.append(
                "using R{j} = {r}; using Q{j} = au::Quantity<U, R{j}>;\n"
                "static_assert(Q{j}{{au::ZERO}}.in(U{{}}) == 0, \"Quantity(ZERO).in(u) == 0\");\n"
                "constexpr Q{j} c{j} = au::ZERO; static_assert(c{j}.in(U{{}}) == 0 && c{j} == au::ZERO && !(c{j} != au::ZERO), \"copy-init from ZERO\");\n"
                "static_assert(au::make_quantity<U>(R{j}{{3}}) > au::ZERO && au::ZERO < au::make_quantity<U>(R{j}{{3}}), \"ordering against ZERO\");\n"
                "static_assert(au::make_quantity<U>(R{j}{{3}}) + au::ZERO == au::make_quantity<U>(R{j}{{3}}) && au::make_quantity<U>(R{j}{{3}}) - au::ZERO == au::make_quantity<U>(R{j}{{3}}), \"q +- ZERO == q\");\n"
                "struct CZ{j} {{ static constexpr Q{j} pe() {{ Q{j} q = au::make_quantity<U>(R{j}{{3}}); q += au::ZERO; q -= au::ZERO; return q; }} static constexpr Q{j} as() {{ Q{j} q = au::make_quantity<U>(R{j}{{3}}); q = au::ZERO; return q; }} }};\n"
                "static_assert(CZ{j}::pe() == au::make_quantity<U>(R{j}{{3}}) && CZ{j}::as() == au::ZERO, \"q += ZERO, q -= ZERO leave q alone; q = ZERO is zero\");\n"
                "static_assert(min(au::make_quantity<U>(R{j}{{3}}), au::ZERO) == au::ZERO && max(au::ZERO, au::make_quantity<U>(R{j}{{3}})) == au::make_quantity<U>(R{j}{{3}}), \"min/max with ZERO\");\n"
                "static_assert(clamp(au::make_quantity<U>(R{j}{{3}}), au::ZERO, au::make_quantity<U>(R{j}{{2}})) == au::make_quantity<U>(R{j}{{2}}), \"clamp with ZERO\");\n"
                "constexpr R{j} z{j} = au::ZERO; static_assert(z{j} == 0, \"ZERO converts to 0 of the arithmetic type\");"
                .format(j=j, r=r))
        items.append(witness.Item("zero:%s" % ue, "\n".join(lines), "accept", None, dict(desc="ZERO constants for %s x 11 reps" % ue)))
    lines = ["static_assert((au::ZERO + au::ZERO) == au::ZERO && (au::ZERO - au::ZERO) == au::ZERO && !(au::ZERO < au::ZERO) && au::ZERO <= au::ZERO && au::ZERO >= au::ZERO && !(au::ZERO > au::ZERO) && !(au::ZERO != au::ZERO), \"ZERO op ZERO\");",
             "static_assert(static_cast<bool>(au::ZERO) == false && static_cast<char>(au::ZERO) == 0 && static_cast<long double>(au::ZERO) == 0.0L, \"\");"]
    for i, d in enumerate(CHRONO):
        lines.append("constexpr %s d%d = au::ZERO; static_assert(d%d.count() == 0, \"ZERO -> chrono duration\");" % (d, i, i))
    items.append(witness.Item("zero:misc", "\n".join(lines), "accept", None, dict(desc="ZERO op ZERO, arithmetic and chrono conversions")))
    # compile-fail witnesses: never accepted where a quantity point is required
    pt_units = rnd.sample(uexprs, min(len(uexprs), 12 if thorough else 4))
    forms = [
        ("copyinit", "P p = au::ZERO; (void)p;"),
        ("directinit", "P p{au::ZERO}; (void)p;"),
        ("assign", "P p = au::make_quantity_point<U>(R{1}); p = au::ZERO;"),
        ("eq", "P p = au::make_quantity_point<U>(R{1}); (void)(p == au::ZERO);"),
        ("lt", "P p = au::make_quantity_point<U>(R{1}); (void)(p < au::ZERO);"),
        ("zero_lt", "P p = au::make_quantity_point<U>(R{1}); (void)(au::ZERO < p);"),
        ("call", "take(au::ZERO);"),
        ("min", "P p = au::make_quantity_point<U>(R{1}); (void)min(p, au::ZERO);"),
        ("max", "P p = au::make_quantity_point<U>(R{1}); (void)max(au::ZERO, p);"),
        ("sub", "P p = au::make_quantity_point<U>(R{1}); (void)(au::ZERO - p);"),
    ]
    for ue in pt_units:
        for r in ("int", "double", "uint8_t", "float"):
            for nm, code in forms:
                pre = "struct U : decltype(%s) {}; using R = %s; using P = au::QuantityPoint<U, R>;\nvoid take(P);\n" % (ue, r)
                items.append(witness.Item("ptzero:%s/%s/%s" % (nm, r, ue), pre + "void w() { %s }" % code, "reject", None,
                                          dict(desc="ZERO where a quantity point is required: %s (U=%s, R=%s)" % (code, ue, r))))
            # the same question asked of the type system (traits, SFINAE, unevaluated operands): "not
            # accepted" must be visible to overload resolution, not only to a body's static_assert
            tr = ("struct U : decltype(%s) {}; using R = %s; using P = au::QuantityPoint<U, R>; using Z = au::Zero;\nvoid take(P);\n" % (ue, r) +
                  "template <class A, class B, class = void> struct CanEq : std::false_type {}; template <class A, class B> struct CanEq<A, B, decltype(void(std::declval<A>() == std::declval<B>()))> : std::true_type {};\n"
                  "template <class A, class B, class = void> struct CanLt : std::false_type {}; template <class A, class B> struct CanLt<A, B, decltype(void(std::declval<A>() < std::declval<B>()))> : std::true_type {};\n"
                  "template <class A, class B, class = void> struct CanSub : std::false_type {}; template <class A, class B> struct CanSub<A, B, decltype(void(std::declval<A>() - std::declval<B>()))> : std::true_type {};\n"
                  "template <class A, class = void> struct CanTake : std::false_type {}; template <class A> struct CanTake<A, decltype(void(take(std::declval<A>())))> : std::true_type {};\n"
                  "static_assert(!std::is_constructible<P, Z>::value && !std::is_constructible<P, const Z &>::value && !std::is_convertible<Z, P>::value && !std::is_assignable<P &, Z>::value, \"traits: a point is not made from ZERO\");\n"
                  "static_assert(!CanEq<P, Z>::value && !CanEq<Z, P>::value && !CanLt<P, Z>::value && !CanLt<Z, P>::value && !CanSub<Z, P>::value && !CanTake<Z>::value, \"SFINAE: comparisons, ZERO - p, a call with ZERO\");\n"
                  "static_assert(CanEq<P, P>::value && CanLt<P, P>::value && CanSub<P, P>::value && CanTake<P>::value && std::is_constructible<P, P>::value && std::is_constructible<au::Quantity<U, R>, Z>::value, \"controls\");")
            items.append(witness.Item("ptzero:traits/%s/%s" % (r, ue), tr, "accept", None, dict(desc="ZERO where a quantity point is required, asked through traits / SFINAE (U=%s, R=%s)" % (ue, r))))
            pre = "struct U : decltype(%s) {}; using R = %s; using P = au::QuantityPoint<U, R>;\nvoid take(P);\n" % (ue, r)
            items.append(witness.Item("ptzero:control/%s/%s" % (r, ue), pre + "void w() { P p = au::make_quantity_point<U>(R{1}); take(p); (void)(p + au::ZERO); (void)(p == p); }", "accept", None,
                                      dict(desc="control: the same programs with a point instead of ZERO compile")))
    return items


def body(ctx):
    rnd = random.Random(ctx.seed)
    units = atoms.discover_units(ctx)
    hdrs = atoms.unit_includes(units)
    prelude = witness.DEFAULT_PRELUDE + USING + hdrs
    configs = cxx.configs_for(ctx.tier)
    allu = gen_units(units, rnd, 60 if ctx.thorough else 10)
    lib = allu[:len(units)]
    gen = allu[len(units):]
    w_units = lib + gen
    items = w_items(w_units, rnd, ctx.thorough)
    results, stats = witness.judge(ctx, items, configs, prelude=prelude, batch=40, tag="c19")
    nbad = witness.report_mismatches(ctx, items, results, prelude=prelude)
    ctx.log("W: %d items, %d mismatching" % (len(items), nbad))

    i_units = rnd.sample(lib, 30 if ctx.thorough else 5) + rnd.sample(gen, 10 if ctx.thorough else 2)
    text, pairs = ir_wrappers(i_units)
    src = "#include <cstdint>\n#include \"au/au.hh\"\n" + USING + hdrs + text
    path, se = ir.build_ir(ctx, src, "c19")
    ctx.require(path is not None, "ZERO wrapper TU does not compile: %s" % (se or "")[-800:])
    mod = ir.parse_module(path, only=lambda n: n.startswith(("au_", "ref_")))
    nob = ndis = 0
    sample = None
    for key, an, rn in pairs:
        nob += 1
        da, dr = dag.build(mod.funcs[an], mod), dag.build(mod.funcs[rn], mod)
        if da.ret == dr.ret:
            ndis += 1
            if sample is None and "lt" in key:
                sample = dict(wrapper=key, dag=da.ret.pretty())
        else:
            ctx.violation("zerodag:" + key, "expression with ZERO does not compute what the raw `x op 0` computes: %s" % key,
                          "Au:  %s\nraw: %s" % (da.ret.pretty(), dr.ret.pretty()))
    ctx.require(nob >= 1000, "only %d ZERO wrappers analysed (floor 1000)" % nob)
    ctx.coverage.update(dict(
        obligations=nob + len(items), discharged=ndis + len(items) - nbad,
        checker_cmd="bin/check C19 --tier %s" % ctx.tier,
        trusted_base=["clang 14 / g++ 12 front ends", "clang lowering to IR; opt-14 sroa/inline/simplifycfg", "vlib/dag.py normalisation"],
        evaluations=nob + len(items), distinct_nontrivial=nob + len(items),
        rule="IR wrapper pair per (operator form with ZERO, rep, unit) compared by DAG equality with the raw `x op R{0}`; W item per unit (11 reps) for constants; compile-fail witnesses per (form, rep, unit) for points, and the same question asked through traits / SFINAE (is_constructible, is_convertible, is_assignable, detection of ==, <, ZERO - p, a call): overload resolution itself must refuse, not a body",
        samples=[sample or {}, dict(w_item=items[0].key), dict(witness=items[-2].key, code=items[-2].code)],
        exhaustive=False, ir_pairs=nob, w_items=len(items), w_mismatches=nbad, units_w=len(w_units), units_ir=len(i_units),
        configs=[c.name for c in configs], engine_stats=stats))
    ctx.assumptions += ["DAG equality implies equal results for every input incl. NaN, infinities and -0.0"]


def main(argv=None):
    return common.run_check(PROP, "proof", body, argv)


if __name__ == "__main__":
    sys.exit(main())
