"""C07 - the common unit is the gcd unit, symmetric in its inputs  (W + model)."""
import itertools
import random
import sys
from fractions import Fraction

from vlib import common, cxx, witness, atoms, model
from checks.c14 import flat

PROP = "C07"
SMALL = [2, 3, 5, 7, 11, 13]
LARGE = [127, 463, 6073, 28019, 1000003, 2 ** 31 - 1]


def rnd_mag(rnd, big=False):
    m = {}
    for _ in range(rnd.randrange(1, 4)):
        p = rnd.choice(SMALL if not big or rnd.random() < 0.6 else LARGE)
        e = rnd.choice([1, 1, 2, 3, -1, -1, -2, 5, 10])
        m[p] = m.get(p, 0) + e
    return model.norm({k: Fraction(v) for k, v in m.items()})


def mag_cpp(m):
    parts = []
    for b, e in sorted(m.items()):
        base = "au::Magnitude<au::Pi>{}" if b == model.PI_ID else "au::mag<%dULL>()" % b
        if e.denominator == 1:
            parts.append("au::pow<%d>(%s)" % (e.numerator, base) if e != 1 else base)
        else:
            parts.append("au::root<%d>(au::pow<%d>(%s))" % (e.denominator, e.numerator, base))
    return " * ".join(parts) if parts else "au::mag<1>()"


def fits40(m):
    n = d = 1
    for b, e in m.items():
        if b == model.PI_ID or e.denominator != 1:
            continue
        if e > 0:
            n *= b ** int(e)
        else:
            d *= b ** int(-e)
    return n < 2 ** 40 and d < 2 ** 40


class LU:
    def __init__(self, typ, defs, dim, mag, named, base=None, factors=(), org=False, tb=0):
        self.typ, self.defs, self.dim, self.mag, self.named = typ, defs, dim, mag, named
        self.tb = tb  # the library's ordering tiebreaker of the (base) unit
        self.org = org  # carries an origin of its own (library units only)
        self.factors = factors  # library units a compound member is built from
        # the named unit that remains when an anonymous scaling is stripped: (type, magnitude)
        self.base = base if base is not None else (typ, mag)


def compound_groups(units):
    """Anonymous compound units (products and quotients of two library units) grouped by dimension.
    Two different compounds of equal dimension AND magnitude (N*m and W*s) are not covered by the
    documented limitation - that is about NAMED units - so their order must still be strict."""
    us = [u for u in units if not u.has_origin]
    g = {}
    for x, y in itertools.combinations_with_replacement(us, 2):
        g.setdefault(model.key(model.mul(x.dim, y.dim)), []).append(
            LU("decltype(au::%s{} * au::%s{})" % (x.name, y.name), "", model.mul(x.dim, y.dim), model.mul(x.mag, y.mag), False,
               factors=(x.name, y.name)))
    for x, y in itertools.permutations(us, 2):
        g.setdefault(model.key(model.div(x.dim, y.dim)), []).append(
            LU("decltype(au::%s{} / au::%s{})" % (x.name, y.name), "", model.div(x.dim, y.dim), model.div(x.mag, y.mag), False,
               factors=(x.name, y.name)))
    return {k: v for k, v in g.items() if len(v) >= 2}


def collision_families(units):
    fam = {}
    for u in units:
        if not u.has_origin:
            fam.setdefault((model.key(u.dim), model.key(u.mag), u.tiebreak), []).append(u.name)
    return [set(v) for v in fam.values() if len(v) > 1]


def compound_list(rnd, groups, by_dim, families):
    dk = rnd.choice(sorted(groups, key=repr))
    grp = groups[dk]
    n = rnd.choice([2, 2, 3, 3, 4])
    # prefer members of EQUAL magnitude half of the time: that is where only the last tie-breakers decide
    first = rnd.choice(grp)
    same = [m for m in grp if model.key(m.mag) == model.key(first.mag) and m.typ != first.typ]
    members = [first]
    while len(members) < n:
        r = rnd.random()
        if same and r < 0.5:
            c = rnd.choice(same)
        elif r < 0.65 and by_dim.get(dk):
            u = rnd.choice(by_dim[dk])
            c = LU("au::%s" % u.name, "", u.dim, u.mag, True, factors=(u.name,))
        elif r < 0.8:
            b = rnd.choice(grp)
            sm = rnd_mag(rnd)
            c = LU("decltype(%s{} * (%s))" % (b.typ, mag_cpp(sm)), "", b.dim, model.mul(b.mag, sm), False, factors=b.factors)
        else:
            c = rnd.choice(grp)
        if all(c.typ != m.typ for m in members):
            members.append(c)
    named = set(f for m in members for f in m.factors)
    if any(len(named & fam) > 1 for fam in families):
        return None  # two distinct named units of identical dimension and magnitude meet: documented limitation
    # two NAMED members of identical magnitude are the documented limitation as well
    for a, b in itertools.combinations(members, 2):
        if a.named and b.named and model.key(a.mag) == model.key(b.mag):
            return None
    return members


def build_lists(units, rnd, n_lists):
    by_dim = {}
    for u in units:
        # (units that carry an origin - Celsius, Fahrenheit - are quantity units like any other;
        #  the origin only takes part in the ordering of otherwise indistinguishable units)
        by_dim.setdefault(model.key(u.dim), []).append(u)
    dims = [k for k, v in by_dim.items() if len(v) >= 2]
    groups = compound_groups(units)
    families = collision_families(units)
    lists = []
    skipped = 0
    tries = 0
    while len(lists) < n_lists and tries < n_lists * 20:
        tries += 1
        if rnd.random() < 0.2:
            cl = compound_list(rnd, groups, by_dim, families)
            if cl is None:
                skipped += 1
            else:
                lists.append(cl)
            continue
        irr = rnd.random() < 0.12
        n = rnd.choice([2, 2, 3, 3, 4])
        # dimensions whose units carry origins get a fixed share: there are few of them
        odims = [k for k in dims if any(u.has_origin for u in by_dim[k])]
        dk = rnd.choice(odims) if odims and rnd.random() < 0.12 else rnd.choice(dims)
        lib = by_dim[dk]
        base = rnd.choice(lib)
        members = []
        for i in range(n):
            r = rnd.random()
            if r < 0.45:
                u = rnd.choice(lib)
                members.append(LU("au::%s" % u.name, "", u.dim, u.mag, True, org=u.has_origin, tb=u.tiebreak))
            else:
                for _ in range(20):
                    sm = rnd_mag(rnd, big=rnd.random() < 0.4)
                    if fits40(sm):
                        break
                if irr and i == 0:
                    sm = model.mul(sm, {model.PI_ID: Fraction(rnd.choice([1, 2, -1]))}) if rnd.random() < 0.6 else model.mul(sm, {2: Fraction(1, 2)})
                mag = model.mul(base.mag, sm)
                ex = "decltype(au::%s{} * (%s))" % (base.name, mag_cpp(sm))
                if r < 0.75:
                    members.append(LU("N%d" % i, "struct N%d : %s {};" % (i, ex), base.dim, mag, True))
                elif r < 0.9 or not members:
                    members.append(LU(ex, "", base.dim, mag, False, base=("au::%s" % base.name, base.mag), tb=base.tiebreak))
                else:
                    # the SAME unit as an earlier member, spelled as a scaling of a different library unit:
                    # dimension and magnitude tie, so only the scale-factor tie-breaker orders the two
                    other = rnd.choice(lib)
                    tgt = rnd.choice(members)
                    sm2 = model.div(tgt.mag, other.mag)
                    if not sm2 or not fits40(sm2) or not model.mag_is_rational(sm2):
                        continue
                    members.append(LU("decltype(au::%s{} * (%s))" % (other.name, mag_cpp(sm2)), "", base.dim, tgt.mag, False,
                                      base=("au::%s" % other.name, other.mag), tb=other.tiebreak))
        # exclusion: two DISTINCT unit types of identical magnitude (documented ordering limitation);
        # anonymous scaled units of equal magnitude are the same type when built from the same base
        bad = len(members) < 2
        for a, b in itertools.combinations(members, 2):
            # two distinct NAMED units of identical magnitude: the documented limitation
            if a.named and b.named and model.key(a.mag) == model.key(b.mag) and a.typ != b.typ and a.org == b.org and a.tb == b.tb:
                bad = True  # (Kelvins and Celsius tie on magnitude but differ in origin: orderable)
            # ... and so are the named units left after stripping anonymous scalings (Hertz vs Becquerel)
            if model.key(a.base[1]) == model.key(b.base[1]) and a.base[0] != b.base[0] and a.tb == b.tb:
                bad = True
            # (a named and an anonymous unit, or two anonymous scalings of different-magnitude bases,
            # are ordered by the avoidance / scale-factor tie-breakers even when their magnitudes tie)
        # anonymous scaled unit equal to a named library unit is also a distinct type
        if bad:
            skipped += 1
            continue
        lists.append(members)
    return lists, skipped


def item_for(idx, members):
    mags = [m.mag for m in members]
    ratios_rational = all(model.mag_is_rational(model.div(a, b)) for a in mags for b in mags)
    defs = "\n".join(m.defs for m in members if m.defs)
    ts = [m.typ for m in members]
    lines = [defs] if defs else []
    lines.append("using C = au::CommonUnitT<%s>;" % ", ".join(ts))
    if ratios_rational:
        g = model.common_mag(*mags)
        for i, t in enumerate(ts):
            lines.append("static_assert(au::is_integer(au::unit_ratio(%s{}, C{})), \"input %d is an integer multiple of the common unit\");" % (t, i))
        lines.append("constexpr std::int64_t em[] = %s;" % flat(g, False))
        lines.append("static_assert(auv::same(auv::mag_of<C>(), em), \"common unit is the LARGEST common divisor (base-wise minimum exponents)\");")
        winners = [m.typ for m in members if model.key(m.mag) == model.key(g)]
        if winners:
            lines.append("static_assert(%s, \"an input that already is the gcd unit is the result\");" % " || ".join("std::is_same<C, %s>::value" % w for w in sorted(set(winners))))
    else:
        lines.append("static_assert(au::IsUnit<C>::value, \"a common unit exists for irrational ratios\");")
    perms = list(itertools.permutations(ts))
    for p in perms[1:]:
        lines.append("static_assert(std::is_same<C, au::CommonUnitT<%s>>::value, \"permutation\");" % ", ".join(p))
    lines.append("static_assert(std::is_same<C, au::CommonUnitT<%s>>::value, \"repetition\");" % ", ".join(ts + [ts[0]]))
    lines.append("static_assert(std::is_same<C, au::CommonUnitT<%s>>::value, \"repetition\");" % ", ".join([ts[-1]] + ts + [ts[-1]]))
    if len(ts) >= 3:
        lines.append("static_assert(au::AreUnitsQuantityEquivalent<C, au::CommonUnitT<au::CommonUnitT<%s, %s>, %s>>::value, \"nesting (left)\");" % (ts[0], ts[1], ", ".join(ts[2:])))
        lines.append("static_assert(au::AreUnitsQuantityEquivalent<C, au::CommonUnitT<%s, au::CommonUnitT<%s>>>::value, \"nesting (right)\");" % (ts[0], ", ".join(ts[1:])))
    else:
        lines.append("static_assert(au::AreUnitsQuantityEquivalent<C, au::CommonUnitT<au::CommonUnitT<%s, %s>, %s>>::value, \"nesting\");" % (ts[0], ts[1], ts[0]))
    # two common units side by side (each may be a genuine multi-element CommonUnit<...>): the lists
    # are merged, not re-inserted element by element
    if len(ts) >= 3:
        if len(ts) == 3:
            splits = [((ts[0], ts[1]), (ts[2], ts[0])), ((ts[0], ts[2]), (ts[1], ts[2])), ((ts[1], ts[2]), (ts[0], ts[1]))]
        else:
            splits = [((ts[0], ts[1]), (ts[2], ts[3])), ((ts[0], ts[3]), (ts[1], ts[2])), ((ts[2], ts[0], ts[1]), (ts[3], ts[1]))]
        for (a, b) in splits:
            assert set(a) | set(b) == set(ts)
            A, B = "au::CommonUnitT<%s>" % ", ".join(a), "au::CommonUnitT<%s>" % ", ".join(b)
            lines.append("static_assert(au::AreUnitsQuantityEquivalent<C, au::CommonUnitT<%s, %s>>::value, \"nesting (two common units)\");" % (A, B))
            lines.append("static_assert(std::is_same<au::CommonUnitT<%s, %s>, au::CommonUnitT<%s, %s>>::value, \"nested common units commute\");" % (A, B, B, A))
    # the function forms and the maker / symbol / singular-name / constant forms name the same unit
    objs = ", ".join("%s{}" % t for t in ts)
    lines.append("static_assert(std::is_same<decltype(au::common_unit(%s)), C>::value, \"common_unit(u...)\");" % objs)
    for wrap in ("au::QuantityMaker", "au::SymbolFor", "au::SingularNameFor", "au::Constant"):
        args = ", ".join("%s<%s>{}" % (wrap, t) for t in ts)
        lines.append("static_assert(std::is_same<decltype(au::make_common(%s)), %s<C>>::value, \"make_common(%s...)\");" % (args, wrap, wrap))
        lines.append("static_assert(std::is_same<decltype(au::common_unit(%s)), C>::value, \"common_unit(%s...)\");" % (args, wrap))
    # std::common_type of quantities
    lines.append("static_assert(std::is_same<std::common_type_t<au::Quantity<%s, int>, au::Quantity<%s, double>>, au::Quantity<au::CommonUnitT<%s, %s>, double>>::value, \"common_type\");" % (ts[0], ts[1], ts[0], ts[1]))
    lines.append("static_assert(std::is_same<std::common_type_t<au::Quantity<%s, std::int16_t>, au::Quantity<%s, std::int64_t>>, au::Quantity<au::CommonUnitT<%s, %s>, std::int64_t>>::value, \"common_type (other order)\");" % (ts[1], ts[0], ts[0], ts[1]))
    desc = "common unit of [%s]" % ", ".join("%s" % m.typ for m in members)
    return witness.Item("list%d:%s" % (idx, "|".join(ts)), "\n".join(lines), "accept", None, dict(desc=desc, rational=ratios_rational))


def body(ctx):
    rnd = random.Random(ctx.seed)
    configs = cxx.configs_for(ctx.tier)
    units = atoms.discover_units(ctx)
    hdrs = atoms.unit_includes(units)
    prelude = witness.DEFAULT_PRELUDE + hdrs
    atoms.readout_units(ctx, units, prelude)
    lists, skipped = build_lists(units, rnd, 3000 if ctx.thorough else 400)
    items = [item_for(i, l) for i, l in enumerate(lists)]
    ctx.require(len(items) >= 100, "only %d lists generated" % len(items))
    results, stats = witness.judge(ctx, items, configs, prelude=prelude, batch=25, tag="c07")
    nbad = witness.report_mismatches(ctx, items, results, prelude=prelude)
    nirr = sum(1 for it in items if not it.meta["rational"])
    ncomp = sum(1 for l in lists if any(m.factors for m in l))
    ntie = sum(1 for l in lists if any(model.key(a.mag) == model.key(b.mag) for a, b in itertools.combinations(l, 2)))
    norg = sum(1 for l in lists if any(m.org for m in l))
    ctx.require(norg >= len(lists) // 40, "only %d lists with an origin-carrying unit" % norg)
    ctx.require(ncomp >= len(lists) // 10, "only %d lists with compound units" % ncomp)
    ctx.require(ntie >= len(lists) // 25, "only %d lists with two members of equal magnitude" % ntie)
    ctx.coverage.update(dict(
        evaluations=len(items) * len(configs), distinct_nontrivial=len(items),
        rule="one program per seeded list of 2-4 same-dimension units (library units, named and anonymous scaled units with numerators/denominators below 2^40, pi and root factors); plus, in every fifth list, anonymous products/quotients of library units of one dimension (N*m, W*s, J, scaled forms; equal magnitudes preferred) and respelled scalings of equal magnitude; asserts integer ratios, exact gcd magnitude read out of the type, identity under every permutation and repetition, winner-is-an-input, nesting equivalence, std::common_type, and that every access path (common_unit(u...), make_common over quantity makers / symbols / singular names / constants, common_unit over makers) names the same type; lists in which two distinct NAMED units of identical magnitude meet are excluded",
        samples=[dict(key=items[0].key, code=items[0].code)], exhaustive=False,
        lists=len(items), lists_irrational=nirr, lists_skipped_collision=skipped, lists_compound=ncomp, lists_with_origin_unit=norg, lists_equal_magnitude_tie=ntie, mismatches=nbad, configs=[c.name for c in configs], engine_stats=stats))
    ctx.assumptions += ["'largest' is decided as: the common unit's magnitude equals the base-wise minimum of the inputs' exponents (missing base = 0)"]


def main(argv=None):
    return common.run_check(PROP, "exploration", body, argv)


if __name__ == "__main__":
    sys.exit(main())
