"""C17 - std::chrono durations round-trip through quantities unchanged  (W + I)."""
import random
import sys
from fractions import Fraction

from vlib import common, cxx, witness, model, ir, dag, irbuild, ordering
from vlib.common import AnalysisBroken
from checks.c14 import unit_assert
from checks.c06 import ratio_grid, mag_cpp

PROP = "C17"
REPS = ["int32_t", "int64_t", "float", "double"]
USING = "using std::int32_t; using std::int64_t; using std::int16_t; using std::uint32_t; using std::uint8_t; using std::int8_t; using std::uint16_t; using std::uint64_t;\n"
PERIODS = [(1, 10 ** 9), (1, 10 ** 6), (1, 1000), (1, 1), (60, 1), (3600, 1), (1, 60), (1001, 30000), (86400, 1), (1, 3), (2 ** 31 - 1, 1000003)]
TIME_DIM = {-97: Fraction(1)}
CMPS = [("eq", "=="), ("ne", "!="), ("lt", "<"), ("le", "<="), ("gt", ">"), ("ge", ">=")]


def dur(rep, p):
    return "std::chrono::duration<%s, std::ratio<%d, %d>>" % (rep, p[0], p[1])


def w_items(ctx, rnd):
    items = []
    for rep in REPS:
        for p in PERIODS:
            fr = Fraction(p[0], p[1])
            D = dur(rep, p)
            mag = model.mag_from_fraction(fr)
            lines = ["using D = %s; using Q = decltype(au::as_quantity(D{}));" % D,
                     "static_assert(std::is_same<typename Q::Rep, %s>::value, \"as_quantity keeps the rep\");" % rep,
                     unit_assert("typename Q::Unit", TIME_DIM, mag, "asq"),
                     "static_assert(au::as_quantity(D{7}).in(typename Q::Unit{}) == 7, \"as_quantity keeps the count\");",
                     "using Back = decltype(au::as_chrono_duration(au::as_quantity(D{})));",
                     "static_assert(std::is_same<Back, std::chrono::duration<%s, std::ratio<%d, %d>>>::value, \"as_chrono_duration gives the same rep and (reduced) period\");" % (rep, fr.numerator, fr.denominator),
                     "static_assert(au::as_chrono_duration(au::as_quantity(D{7})).count() == 7, \"round trip count\");",
                     "constexpr D implicit_back = au::as_quantity(D{7}); static_assert(implicit_back.count() == 7 && implicit_back == D{7}, \"implicit conversion back\");",
                     "constexpr Q implicit_in = D{7}; static_assert(implicit_in == au::as_quantity(D{7}), \"implicit conversion in\");",
                     # every value category a duration can arrive in (prvalue above): const lvalue, const
                     # rvalue (a function returning `const D`, std::move of a const object), lvalue, xvalue
                     "constexpr const D cd{7};",
                     "static_assert(au::as_quantity(cd).in(typename Q::Unit{}) == 7 && au::as_quantity(static_cast<const D &&>(cd)).in(typename Q::Unit{}) == 7, \"as_quantity of a const lvalue / const rvalue\");",
                     "static_assert(std::is_same<decltype(au::as_quantity(cd)), Q>::value && std::is_same<decltype(au::as_quantity(static_cast<const D &&>(cd))), Q>::value && std::is_same<decltype(au::as_quantity(std::declval<D &>())), Q>::value && std::is_same<decltype(au::as_quantity(std::declval<D &&>())), Q>::value, \"as_quantity type for every value category\");",
                     "constexpr Q in_from_const_lvalue = cd; constexpr Q in_from_const_rvalue = static_cast<const D &&>(cd); static_assert(in_from_const_lvalue == implicit_in && in_from_const_rvalue == implicit_in, \"implicit conversion in, const lvalue / const rvalue\");",
                     "static_assert(std::is_convertible<D, Q>::value && std::is_convertible<const D, Q>::value && std::is_convertible<D &, Q>::value && std::is_convertible<const D &, Q>::value && std::is_convertible<D &&, Q>::value && std::is_convertible<const D &&, Q>::value, \"accepted in every value category\");"]
            items.append(witness.Item("types:%s,%d/%d" % (rep, p[0], p[1]), "\n".join(lines), "accept", None,
                                      dict(desc="as_quantity / as_chrono_duration types and counts for %s" % D)))
    # convertibility of a duration == convertibility of its corresponding quantity, on the C06 grid
    trs = []
    for rep in REPS:
        for p in ([(1, 1000), (1, 1), (60, 1)] if not ctx.thorough else PERIODS[:8]):
            for r2 in ["int32_t", "int64_t", "double", "int16_t", "uint32_t", "float"]:
                grid = ratio_grid(r2, ctx.thorough, rnd)
                if not ctx.thorough:
                    grid = [g for g in grid if rnd.random() < 0.3]
                for ra in grid:
                    trs.append((rep, p, r2, ra))
    for (rep, p, r2, ra) in trs:
        D = dur(rep, p)
        # target unit T with Seconds*period / T == ratio  =>  T = Seconds * period / ratio
        pm = model.mag_from_fraction(Fraction(p[0], p[1]))
        exp = model.implicit_ok(ra.mag, rep, r2)
        b = "true" if exp else "false"
        code = ("using D = %s; using CQ = au::CorrespondingQuantityT<D>;\n"
                "struct T : decltype(typename CQ::Unit{} / (%s)) {}; using QT = au::Quantity<T, %s>;\n"
                "static_assert(std::is_convertible<D, QT>::value == std::is_convertible<CQ, QT>::value, \"duration accepted exactly when its corresponding quantity is\");\n"
                "static_assert(std::is_convertible<CQ, QT>::value == %s, \"documented predicate\");\n"
                "static_assert(std::is_constructible<QT, D>::value == std::is_constructible<QT, CQ>::value, \"explicit construction alike\");\n"
                "static_assert(std::is_convertible<const D, QT>::value == std::is_convertible<CQ, QT>::value && std::is_convertible<const D &, QT>::value == std::is_convertible<CQ, QT>::value && std::is_convertible<D &, QT>::value == std::is_convertible<CQ, QT>::value, \"the same answer in every value category\");"
                % (D, ra.expr, r2, b))
        items.append(witness.Item("conv:%s,%d/%d->%s@%s" % (rep, p[0], p[1], r2, ra.name), code, "accept", None,
                                  dict(desc="duration %s -> Quantity<T,%s> with factor %s: same answer as the corresponding quantity (%s)" % (D, r2, ra.name, b))))
    # reverse direction: quantity -> duration
    for rep in REPS:
        for p in PERIODS[:6]:
            for r1 in ["int32_t", "int64_t", "double"]:
                for k in (1, 1000, Fraction(1, 1000), Fraction(3, 2)):
                    D = dur(rep, p)
                    ra_mag = model.mag_from_fraction(k)
                    exp = model.implicit_ok(ra_mag, r1, rep)
                    code = ("using D = %s; using CQ = au::CorrespondingQuantityT<D>;\n"
                            "struct S : decltype(typename CQ::Unit{} * (%s)) {}; using QS = au::Quantity<S, %s>;\n"
                            "static_assert(std::is_convertible<QS, D>::value == std::is_convertible<QS, CQ>::value, \"quantity converts to a duration exactly when it converts to the corresponding quantity\");\n"
                            "static_assert(std::is_convertible<QS, CQ>::value == %s, \"documented predicate\");"
                            % (D, mag_cpp(k), r1, "true" if exp else "false"))
                    items.append(witness.Item("rconv:%s@%s->%s,%d/%d" % (r1, k, rep, p[0], p[1]), code, "accept", None,
                                              dict(desc="Quantity<S,%s> (factor %s) -> %s" % (r1, k, D))))
    return items


def ir_blocks(ctx, rnd):
    blocks, meta = [], {}
    k = 0
    pairs = [(p, q) for p in PERIODS for q in PERIODS]
    rnd.shuffle(pairs)
    pairs = pairs[:(121 if ctx.thorough else 16)]
    for rep in REPS:
        for p in PERIODS:
            D = dur(rep, p)
            ls = ["using D%d = %s;" % (k, D),
                  'extern "C" %s rt_%d(%s x) { D%d d{x}; auto q = au::as_quantity(d); D%d back = q; return back.count(); }' % (rep, k, rep, k, k),
                  'extern "C" %s rt2_%d(%s x) { D%d d{x}; return au::as_chrono_duration(au::as_quantity(d)).count(); }' % (rep, k, rep, k),
                  'extern "C" %s rt3_%d(%s x) { D%d d{x}; auto q = au::as_quantity(d); return q.in(decltype(q)::unit); }' % (rep, k, rep, k)]
            blocks.append((k, "\n".join(ls)))
            meta[k] = ("rt", rep, p, None, None)
            k += 1
    # coarse period against nano: factors (6e10, 3.6e12, 8.64e13) that a float cannot hold exactly -
    # chrono multiplies by the rounded factor in the common rep, and so must the quantity side
    forced = [((60, 1), (1, 10 ** 9)), ((1, 10 ** 9), (3600, 1)), ((86400, 1), (1, 10 ** 9))]
    pairs = forced + [pq for pq in pairs if pq not in forced]
    for (p, q) in pairs:
        wide = ctx.thorough or (p, q) in forced
        for (r1, r2) in ([("int64_t", "int64_t"), ("int32_t", "int64_t"), ("double", "double"), ("int32_t", "int32_t"), ("float", "float"), ("float", "int32_t"), ("int64_t", "float")] if wide else [("int64_t", "int64_t"), ("double", "double")]):
            D1, D2 = dur(r1, p), dur(r2, q)
            ls = ["using E%d = %s; using F%d = %s;" % (k, D1, k, D2)]
            names = []
            for nm, op in CMPS + [("add", "+"), ("sub", "-")]:
                isb = nm not in ("add", "sub")
                ret = "bool" if isb else "auto"
                cnt = "" if isb else ".count()"
                qcnt_l = "" if isb else ""
                ls.append('extern "C" %s m_dq_%s_%d(%s x, %s y) { E%d d{x}; F%d e{y}; auto r = d %s au::as_quantity(e); return %s; }'
                          % (ret, nm, k, r1, r2, k, k, op, "r" if isb else "r.in(decltype(r)::unit)"))
                ls.append('extern "C" %s m_qd_%s_%d(%s x, %s y) { E%d d{x}; F%d e{y}; auto r = au::as_quantity(d) %s e; return %s; }'
                          % (ret, nm, k, r1, r2, k, k, op, "r" if isb else "r.in(decltype(r)::unit)"))
                ls.append('extern "C" %s m_ref_%s_%d(%s x, %s y) { E%d d{x}; F%d e{y}; auto r = d %s e; return %s; }'
                          % (ret, nm, k, r1, r2, k, k, op, "r" if isb else "r.count()"))
                names.append(nm)
            blocks.append((k, "\n".join(ls)))
            meta[k] = ("mixed", r1, p, r2, q)
            k += 1
    # a quantity handed back to chrono as a duration of ANOTHER rep and period (implicitly), and
    # `duration += quantity`: the same count as chrono's own implicit conversion of the duration
    xpairs = [(p, q) for p in PERIODS[:7] for q in PERIODS[:7] if p != q]
    rnd.shuffle(xpairs)
    for (p, q) in xpairs[:(42 if ctx.thorough else 12)]:
        ratio = Fraction(p[0], p[1]) / Fraction(q[0], q[1])
        for (r1, r2) in [("int32_t", "int64_t"), ("int32_t", "double"), ("float", "double"), ("int64_t", "int64_t"), ("int64_t", "double"), ("int16_t", "int32_t")]:
            if ratio.denominator != 1 and ratio.numerator != 1:
                continue
            if model.is_int(r2) and ratio.denominator != 1:
                continue  # chrono refuses a truncating implicit conversion
            D1, D2 = dur(r1, p), dur(r2, q)
            ls = ["using E%d = %s; using F%d = %s;" % (k, D1, k, D2),
                  'extern "C" %s xt_au_%d(%s x) { E%d d{x}; F%d back = au::as_quantity(d); return back.count(); }' % (r2, k, r1, k, k),
                  'extern "C" %s xt_ref_%d(%s x) { E%d d{x}; F%d back = d; return back.count(); }' % (r2, k, r1, k, k),
                  'extern "C" %s xt_peq_%d(%s y, %s x) { F%d acc{y}; acc += au::as_quantity(E%d{x}); return acc.count(); }' % (r2, k, r2, r1, k, k),
                  'extern "C" %s xt_pref_%d(%s y, %s x) { F%d acc{y}; acc += E%d{x}; return acc.count(); }' % (r2, k, r2, r1, k, k)]
            blocks.append((k, "\n".join(ls)))
            meta[k] = ("cross", r1, p, r2, q)
            k += 1
    return blocks, meta


def body(ctx):
    rnd = random.Random(ctx.seed)
    configs = cxx.configs_for(ctx.tier)
    prelude = witness.DEFAULT_PRELUDE + USING + '#include <ratio>\n#include "au/chrono_interop.hh"\n'
    items = w_items(ctx, rnd)
    results, stats = witness.judge(ctx, items, configs, prelude=prelude, batch=60, tag="c17")
    nbad = witness.report_mismatches(ctx, items, results, prelude=prelude)
    ctx.log("W: %d items, %d mismatching" % (len(items), nbad))

    blocks, meta = ir_blocks(ctx, rnd)
    ipre = "#include <cstdint>\n#include <chrono>\n#include <ratio>\n#include \"au/au.hh\"\n#include \"au/chrono_interop.hh\"\n" + USING
    chunks = [blocks[i:i + 12] for i in range(0, len(blocks), 12)]
    nob = [0, 0]
    notperm = [0]

    def do(arg):
        ci, ch = arg
        mod, alive, dropped = irbuild.build_blocks(ctx, ipre, ch, "c17i%d" % ci, only=lambda n: n.startswith(("rt", "m_", "xt_")))
        fs = []
        n = nd = 0
        for k in alive:
            kind, r1, p, r2, q = meta[k]
            if kind == "rt":
                for fn in ("rt_%d" % k, "rt2_%d" % k, "rt3_%d" % k):
                    n += 1
                    d = dag.build(mod.funcs[fn], mod)
                    if d.ret.op == "param" and d.ret.attr == 0:
                        nd += 1
                    else:
                        fs.append(("roundtrip:%s,%d/%d|%s" % (r1, p[0], p[1], fn.split("_")[0]),
                                   "duration -> quantity -> duration does not return the count unchanged for %s" % dur(r1, p), d.ret.pretty()))
            elif kind == "cross":
                for au_fn, ref_fn, what in (("xt_au_%d" % k, "xt_ref_%d" % k, "implicit conversion back"), ("xt_peq_%d" % k, "xt_pref_%d" % k, "`duration += quantity`")):
                    n += 1
                    got, ref = dag.build(mod.funcs[au_fn], mod), dag.build(mod.funcs[ref_fn], mod)
                    ok = got.ret == ref.ret
                    if not ok and model.is_int(r1) and model.is_int(r2):
                        # chrono multiplies in intmax_t and narrows, Au in the receiving rep: the same
                        # count whenever it fits - provided Au's arithmetic is at least as wide as the
                        # receiving rep (scale-then-widen would wrap where chrono does not)
                        a, b = dag.affine(got.ret), dag.affine(ref.ret)
                        bits = model.INT_TYPES[model.canon(r2)][0]
                        ok = (a is not None and b is not None and a.div is None and b.div is None and a.coef == b.coef and a.c == b.c
                              and all(dag.INT_BITS.get(pn.ty, 0) >= bits for pn in a.premises if pn.op in ("mul", "add", "sub")))
                    if ok:
                        nd += 1
                    else:
                        fs.append(("cross:%s,%d/%d->%s,%d/%d|%s" % (r1, p[0], p[1], r2, q[0], q[1], au_fn.split("_")[1]),
                                   "%s of the quantity of a %s into a %s differs from chrono's own conversion of the duration" % (what, dur(r1, p), dur(r2, q)),
                                   "Au:     %s\nchrono: %s" % (got.ret.pretty(), ref.ret.pretty())))
            else:
                for nm, op in CMPS + [("add", "+"), ("sub", "-")]:
                    ref = dag.build(mod.funcs["m_ref_%s_%d" % (nm, k)], mod)
                    for side in ("dq", "qd"):
                        n += 1
                        key = "mixed:%s,%d/%d|%s,%d/%d|%s_%s" % (r1, p[0], p[1], r2, q[0], q[1], side, nm)
                        try:
                            got = dag.build(mod.funcs["m_%s_%s_%d" % (side, nm, k)], mod)
                        except AnalysisBroken as e:
                            fn_ = mod.funcs["m_%s_%s_%d" % (side, nm, k)]
                            text_ = " ".join(i.raw for l in fn_.order for i in fn_.blocks[l])
                            rtext_ = " ".join(i.raw for fr_ in [mod.funcs["m_ref_%s_%d" % (nm, k)]] for l in fr_.order for i in fr_.blocks[l])
                            if "x86_fp80" in text_ and "x86_fp80" not in rtext_:
                                # chrono's side stays in the common rep; the quantity side goes through long
                                # double: rounding once where chrono rounds twice (or the reverse)
                                fs.append((key, "mixed duration/quantity `%s` computes in long double where the same operation inside chrono stays in %s (%s vs %s): the results differ in the last place" % (op, model.common_type(r1, r2), dur(r1, p), dur(r2, q)), str(e)[:300]))
                                continue
                            raise
                        if got.ret == ref.ret:
                            nd += 1
                            continue
                        # not structurally identical: compare meanings
                        ok = False
                        if model.is_int(r1) and model.is_int(r2):
                            if nm in ("add", "sub"):
                                a, b = dag.affine(got.ret), dag.affine(ref.ret)
                                # chrono returns the count in ITS common period; Au in the common unit: equal scales
                                ok = a is not None and b is not None and a.div is None and b.div is None and a.coef == b.coef and a.c == b.c
                            else:
                                fa = find_cmp(got.ret)
                                fb = find_cmp(ref.ret)
                                if fa and fb:
                                    (A1, B1, a1, b1), (A2, B2, a2, b2) = fa, fb
                                    same_scale = a1.coef[0] * b2.coef[1] == a2.coef[0] * b1.coef[1] and a1.c == 0 and b1.c == 0 and a2.c == 0 and b2.c == 0 and a1.coef[0] > 0 and a2.coef[0] > 0
                                    if same_scale:
                                        t1 = ordering.table(got.ret, lambda nn: "A" if nn == A1 else "B" if nn == B1 else None)
                                        t2 = ordering.table(ref.ret, lambda nn: "A" if nn == A2 else "B" if nn == B2 else None)
                                        # chrono must not overflow where Au does not: Au's multipliers divide chrono's
                                        ok = t1 == t2 and a2.coef[0] % a1.coef[0] == 0
                        nan_only = False
                        if not ok and not (model.is_int(r1) and model.is_int(r2)) and nm not in ("add", "sub"):
                            fa, fb = first_fcmp(got.ret), first_fcmp(ref.ret)
                            if fa is not None and fb is not None and {fa.args[0], fa.args[1]} == {fb.args[0], fb.args[1]}:
                                A, B = fb.args
                                cl = lambda nn: "A" if nn == A else "B" if nn == B else None
                                try:
                                    t1, t2 = ordering.table(got.ret, cl, fp=True), ordering.table(ref.ret, cl, fp=True)
                                    if t1 == t2:
                                        ok = True
                                    elif t1[:3] == t2[:3]:
                                        nan_only = True
                                except ordering.NotDecidable:
                                    pass
                        if ok:
                            nd += 1
                        elif nan_only:
                            rc = model.common_type(r1, r2)
                            fs.append(("nan-count:%s:%s" % (nm, rc),
                                       "for a NaN count, mixed duration/quantity `%s` (common rep %s) answers %s while the same comparison inside chrono answers %s"
                                       % (op, rc, bool(t1[3]), bool(t2[3])),
                                       "first instance: %s vs %s\nAu:     %s\nchrono: %s" % (dur(r1, p), dur(r2, q), got.ret.pretty(), ref.ret.pretty())))
                        else:
                            fs.append((key, "mixed duration/quantity `%s` differs from the same operation inside chrono (%s vs %s)" % (op, dur(r1, p), dur(r2, q)),
                                       "Au:     %s\nchrono: %s" % (got.ret.pretty(), ref.ret.pretty())))
        return n, nd, fs, len(dropped)

    for n, nd, fs, ndrop in cxx.pmap(do, list(enumerate(chunks))):
        nob[0] += n
        nob[1] += nd
        notperm[0] += ndrop
        for key, what, detail in fs:
            ctx.violation(key, what, detail)
    ctx.require(nob[0] >= 150, "only %d IR wrappers analysed" % nob[0])
    nblocks = sum(len(ch) for ch in chunks)
    ctx.require(notperm[0] * 2 <= max(2, nblocks), "%d of %d mixed duration / quantity blocks do not compile (the implicit policy refuses some period / rep pairs, not half of them)" % (notperm[0], nblocks))
    ctx.log("I: %d wrappers, %d equal, %d blocks not permitted by the implicit policy" % (nob[0], nob[1], notperm[0]))
    ctx.coverage.update(dict(
        evaluations=len(items) * len(configs) + nob[0], distinct_nontrivial=len(items) + nob[0],
        rule="W item per (rep, period) for types/counts, in every value category a duration can arrive in (prvalue, lvalue, const lvalue, xvalue, const rvalue); per (duration, target rep, C06 ratio) for convertibility equality with the corresponding quantity and the documented predicate, both directions; IR: identity-dataflow wrappers per (rep, period) and mixed operator wrappers per (period pair, rep pair) compared with chrono's own operator compiled in the same TU",
        samples=[dict(key=items[0].key, code=items[0].code)],
        exhaustive=False, w_items=len(items), w_mismatches=nbad, ir_wrappers=nob[0], ir_discharged=nob[1],
        mixed_blocks_not_permitted=notperm[0], configs=[c.name for c in configs], engine_stats=stats))
    ctx.assumptions += ["libstdc++ 12 <chrono> is the reference for 'performing the operation inside chrono'"]


def first_fcmp(node):
    seen = set()
    stack = [node]
    while stack:
        n = stack.pop()
        if id(n) in seen:
            continue
        seen.add(id(n))
        if n.op == "fcmp":
            return n
        stack.extend(n.args)
    return None


def find_cmp(node):
    from checks.c09 import find_atoms
    at = find_atoms(node)
    return at[0] if at else None


def main(argv=None):
    return common.run_check(PROP, "exploration", body, argv)


if __name__ == "__main__":
    sys.exit(main())
