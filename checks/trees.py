"""Unit expression trees over library atoms (units, prefixes, magnitudes) for C02 / C18.

A tree knows its exact model (dimension and magnitude exponent maps) and can be spelled as C++ in
several ways: unit instances, quantity makers, singular names, symbols, constants, type traits."""
import os
import re
from fractions import Fraction

from vlib import model, atoms, extract
from vlib.common import AU_DIR, AnalysisBroken


def discover_prefixes(ctx, floor=32):
    txt = atoms.strip_comments(open(os.path.join(AU_DIR, "prefix.hh")).read())
    out = []
    for m in re.finditer(r"struct\s+(\w+)\s*:\s*decltype\(U\{\}\s*\*", txt):
        name = m.group(1)
        am = re.search(r"constexpr\s+auto\s+(\w+)\s*=\s*PrefixApplier<%s>\{\}" % name, txt)
        out.append((name, am.group(1) if am else None))
    if len(out) < floor:
        raise AnalysisBroken("only %d prefixes discovered in prefix.hh (floor %d)" % (len(out), floor))
    return out


def readout_prefixes(ctx, prefixes, prelude):
    ex = extract.Extractor(ctx, prelude=prelude, tag="prefixes")
    for name, applier in prefixes:
        ex.add("pm_%s" % name, "auv::Flat", "auv::flat(auv::mag_of<au::%s<au::Unos>>())" % name)
        ex.add("pl_%s" % name, "auv::Text", "auv::text(au::unit_label(au::%s<au::Meters>{}))" % name)
    vals = ex.run()
    out = {}
    for name, applier in prefixes:
        if vals["pm_" + name][0] == "error" or vals["pl_" + name][0] == "error":
            raise AnalysisBroken("read-out of prefix %s failed" % name)
        mag = dict(extract.flat_to_pack(vals["pm_" + name]))
        size, raw = extract.text_of(vals["pl_" + name])
        lab = raw[:-1].decode("latin-1")
        out[name] = dict(mag=mag, applier=applier, symbol=lab[:-1] if lab.endswith("m") else None)
    return out


class Tree:
    """kind: atom | mul | div | pow | root | scale | prefix"""

    def __init__(self, kind, kids=(), atom=None, n=None, mag=None, mag_cpp=None, prefix=None):
        self.kind, self.kids, self.atom, self.n = kind, list(kids), atom, n
        self.mag, self.mag_cpp, self.prefix = mag, mag_cpp, prefix

    # ---- model
    def dim(self):
        k = self.kind
        if k == "atom":
            return self.atom.dim
        if k == "mul":
            return model.mul(self.kids[0].dim(), self.kids[1].dim())
        if k == "div":
            return model.div(self.kids[0].dim(), self.kids[1].dim())
        if k == "pow":
            return model.power(self.kids[0].dim(), self.n)
        if k == "root":
            return model.power(self.kids[0].dim(), Fraction(1, self.n))
        return self.kids[0].dim()

    def magm(self, prefixes=None):
        k = self.kind
        if k == "atom":
            return self.atom.mag
        if k == "mul":
            return model.mul(self.kids[0].magm(prefixes), self.kids[1].magm(prefixes))
        if k == "div":
            return model.div(self.kids[0].magm(prefixes), self.kids[1].magm(prefixes))
        if k == "pow":
            return model.power(self.kids[0].magm(prefixes), self.n)
        if k == "root":
            return model.power(self.kids[0].magm(prefixes), Fraction(1, self.n))
        if k == "scale":
            return model.mul(self.kids[0].magm(prefixes), self.mag)
        if k == "prefix":
            return model.mul(self.kids[0].magm(prefixes), self.prefix[1]["mag"])
        raise AssertionError(k)

    def atoms(self):
        if self.kind == "atom":
            return [self.atom]
        out = []
        for c in self.kids:
            out += c.atoms()
        return out

    def pure(self):
        """Built from named atoms by product / quotient / power / root only."""
        if self.kind == "atom":
            return True
        if self.kind in ("scale", "prefix"):
            return False
        return all(c.pure() for c in self.kids)

    def exponents(self):
        """{atom name: Fraction} for pure trees."""
        if self.kind == "atom":
            return {self.atom.name: Fraction(1)}
        if self.kind == "mul":
            return model.mul(self.kids[0].exponents(), self.kids[1].exponents())
        if self.kind == "div":
            return model.div(self.kids[0].exponents(), self.kids[1].exponents())
        if self.kind == "pow":
            return model.power(self.kids[0].exponents(), self.n)
        if self.kind == "root":
            return model.power(self.kids[0].exponents(), Fraction(1, self.n))
        raise AssertionError

    # ---- spellings (each returns a C++ expression whose associated unit is the tree's unit)
    def cpp(self, style="unit"):
        k = self.kind
        if k == "atom":
            u = self.atom
            if style == "unit":
                return "au::%s{}" % u.name
            if style == "maker":
                return "au::%s" % u.maker
            if style == "singular":
                return "au::%s" % u.singular
            if style == "symbol":
                return "au::symbols::%s" % u.symbols[0]
            if style == "constant":
                return "au::make_constant(au::%s{})" % u.name
            raise AssertionError(style)
        if k == "prefix" and style == "constant":
            # prefix appliers are defined for units, makers, singular names and symbols only: a
            # prefixed constant is spelled by wrapping the prefixed unit
            return "au::make_constant(%s)" % self.cpp("unit")
        a = self.kids[0].cpp(style)
        if k == "mul":
            return "(%s * %s)" % (a, self.kids[1].cpp(style))
        if k == "div":
            return "(%s / %s)" % (a, self.kids[1].cpp(style))
        if k == "pow":
            alias = {2: "squared", 3: "cubed", -1: "inverse"}.get(self.n)
            if alias and (len(a) % 2 == 0):
                return "%s(%s)" % (alias, a)
            return "pow<%d>(%s)" % (self.n, a)
        if k == "root":
            return "root<%d>(%s)" % (self.n, a)
        if k == "scale":
            return "(%s %s)" % (a, self.mag_cpp)
        if k == "prefix":
            return "au::%s(%s)" % (self.prefix[1]["applier"], a) if style != "unit" else "au::%s<decltype(%s)>{}" % (self.prefix[0], a)
        raise AssertionError(k)

    def styles(self):
        """Spellings available for this tree."""
        ats = self.atoms()
        out = ["unit"]
        has_scale = self._has("scale")
        has_root = self._has("root")
        if all(a.maker for a in ats):
            out.append("maker")
        if all(a.symbols for a in ats):
            out.append("symbol")
        if True:
            out.append("constant")
        # singular names support only products, powers and prefixes
        if all(a.singular for a in ats) and not self._has("div") and not has_scale and not has_root:
            out.append("singular")
        return out

    def _has(self, kind):
        return self.kind == kind or any(c._has(kind) for c in self.kids)

    def trait(self):
        """Type-trait spelling (a type, not an expression); pure trees and scalings."""
        k = self.kind
        if k == "atom":
            return "au::%s" % self.atom.name
        a = self.kids[0].trait()
        if k == "mul":
            return "au::UnitProductT<%s, %s>" % (a, self.kids[1].trait())
        if k == "div":
            return "au::UnitQuotientT<%s, %s>" % (a, self.kids[1].trait())
        if k == "pow":
            return "au::UnitInverseT<%s>" % a if self.n == -1 else "au::UnitPowerT<%s, %d>" % (a, self.n)
        if k == "root":
            return "au::UnitPowerT<%s, 1, %d>" % (a, self.n)
        if k == "prefix":
            return "au::%s<%s>" % (self.prefix[0], a)
        if k == "scale":
            return "decltype(%s{} %s)" % (a, self.mag_cpp)
        raise AssertionError(k)

    def depth(self):
        return 1 + max([c.depth() for c in self.kids] or [0])


def collision_groups(units):
    """Named units with identical dimension, magnitude, origin-ness and ordering tiebreaker (the
    documented limitation: nothing orders two such units)."""
    groups = {}
    for u in units:
        groups.setdefault((model.key(u.dim), model.key(u.mag), u.has_origin, u.tiebreak), []).append(u.name)
    gid = {}
    for i, (k, names) in enumerate(groups.items()):
        for n in names:
            gid[n] = (i, len(names))
    return gid


def has_collision(tree, gid):
    seen = {}
    for a in tree.atoms():
        g, n = gid[a.name]
        if n > 1:
            if g in seen and seen[g] != a.name:
                return True
            seen[g] = a.name
    return False


# (the last three are products of two or three primes beyond the 100-prime trial-division table,
#  so mag<N> has to factor them with Pollard's rho and still deliver the canonical base order)
SCALES = [(Fraction(3), "* au::mag<3>()"), (Fraction(1, 7), "/ au::mag<7>()"), (Fraction(1000), "* au::mag<1000>()"),
          (Fraction(5, 9), "* au::mag<5>() / au::mag<9>()"), (Fraction(2 ** 31 - 1), "* au::mag<2147483647>()"),
          (Fraction(547 * 557), "* au::mag<304679>()"), (Fraction(1, 1009 * 1013), "/ au::mag<1022117>()"),
          (Fraction(1000003 * 1000033, 7), "* au::mag<1000036000099ULL>() / au::mag<7>()"),
          # rational factors one of whose parts does not fit 64 bits (that part is unlabeled, the other is not)
          (Fraction(1, 10 ** 24), "/ au::pow<24>(au::mag<10>())"), (Fraction(10 ** 24, 7), "* au::pow<24>(au::mag<10>()) / au::mag<7>()"),
          (Fraction(5, 7 ** 23), "* au::mag<5>() / au::pow<23>(au::mag<7>())")]


ONES = ["* au::mag<1>()", "/ au::mag<1>()", "* (au::mag<6>() / au::mag<6>())", "* au::pow<0>(au::mag<10>())",
        "* (au::mag<5>() * au::pow<-1>(au::mag<5>()))"]
RECIP = {Fraction(3): "/ au::mag<3>()", Fraction(1, 7): "* au::mag<7>()", Fraction(1000): "/ au::mag<1000>()",
         Fraction(5, 9): "* au::mag<9>() / au::mag<5>()", Fraction(2 ** 31 - 1): "/ au::mag<2147483647>()",
         Fraction(547 * 557): "/ au::mag<304679>()", Fraction(1, 1009 * 1013): "* au::mag<1022117>()",
         Fraction(1000003 * 1000033, 7): "* au::mag<7>() / au::mag<1000036000099ULL>()",
         Fraction(1, 10 ** 24): "* au::pow<24>(au::mag<10>())", Fraction(10 ** 24, 7): "* au::mag<7>() / au::pow<24>(au::mag<10>())",
         Fraction(5, 7 ** 23): "* au::pow<23>(au::mag<7>()) / au::mag<5>()"}


def random_tree(rnd, units, prefixes, depth, allow=("mul", "div", "pow", "root", "scale", "prefix")):
    if depth <= 1 or rnd.random() < 0.25:
        return Tree("atom", atom=rnd.choice(units))
    k = rnd.choice(allow)
    if k in ("mul", "div"):
        return Tree(k, [random_tree(rnd, units, prefixes, depth - 1, allow), random_tree(rnd, units, prefixes, depth - 1, allow)])
    if k == "pow":
        return Tree("pow", [random_tree(rnd, units, prefixes, depth - 1, allow)], n=rnd.choice([-4, -3, -2, -1, 2, 3, 4]))
    if k == "root":
        return Tree("root", [random_tree(rnd, units, prefixes, depth - 1, allow)], n=rnd.choice([2, 3]))
    if k == "scale":
        fr, cpp = rnd.choice(SCALES)
        inner = Tree("scale", [random_tree(rnd, units, prefixes, depth - 1, allow)], mag=model.mag_from_fraction(fr), mag_cpp=cpp)
        r = rnd.random()
        if r < 0.2:
            # scaling an (already scaled, anonymous) unit by a magnitude that reduces to ONE must leave it alone
            one = rnd.choice(ONES)
            return Tree("scale", [inner], mag={}, mag_cpp=one)
        if r < 0.3:
            # ... and scaling it back by the reciprocal must give the unscaled unit again
            return Tree("scale", [inner], mag=model.mag_from_fraction(1 / fr), mag_cpp=RECIP[fr])
        return inner
    name = rnd.choice(sorted(prefixes))
    return Tree("prefix", [random_tree(rnd, units, prefixes, depth - 1, ("mul", "div", "pow", "prefix"))], prefix=(name, prefixes[name]))


def from_exponents(rnd, byname, exps):
    """A random pure tree with the given {atom: exponent} (re-ordered / re-grouped / split powers)."""
    parts = []
    for name, e in exps.items():
        # split e into a sum of terms
        pieces = []
        rest = e
        while rest != 0 and rnd.random() < 0.4 and len(pieces) < 2:
            p = Fraction(rnd.choice([1, -1, 2]))
            pieces.append(p)
            rest -= p
        if rest != 0:
            pieces.append(rest)
        for p in pieces:
            t = Tree("atom", atom=byname[name])
            if p.denominator != 1:
                t = Tree("root", [t], n=p.denominator)
                p = Fraction(p.numerator)
            if p != 1:
                t = Tree("pow", [t], n=int(p))
            parts.append(t)
    if not parts:
        return None
    rnd.shuffle(parts)
    # random grouping
    while len(parts) > 1:
        i = rnd.randrange(len(parts) - 1)
        parts[i:i + 2] = [Tree("mul", [parts[i], parts[i + 1]])]
    return parts[0]


# -------------------------------------------------------------------------------------------------
# label grammar model (docs/reference/unit.md + unit label section): structural, order-agnostic

UNLABELED_SCALE = "(UNLABELED SCALE FACTOR)"


def mag_label(m):
    """Label of a scale factor: integer digits, `n / d` for rationals, marker otherwise.
    Returns (text, has_exposed_slash)."""
    if model.mag_is_integer(m) or not m:
        v = model.mag_to_fraction(m)
        if v < 1 << 64:
            return str(int(v)), False
        return UNLABELED_SCALE, False
    if model.mag_is_rational(m):
        num = model.norm({b: e for b, e in m.items() if e > 0})
        den = model.norm({b: -e for b, e in m.items() if e < 0})
        return "%s / %s" % (mag_label(num)[0], mag_label(den)[0]), True
    return UNLABELED_SCALE, False


def exp_suffix(e, solo):
    """Suffix for exponent e (already positive inside quotient sides unless solo)."""
    if e == 1:
        return ""
    if e.denominator == 1:
        n = int(e)
        return "^%d" % n if n >= 0 else "^(%d)" % n
    return "^(%d/%d)" % (e.numerator, e.denominator)


def product_label(struct):
    """struct: {base text: Fraction exponent} -> label text (one admissible factor order)."""
    items = sorted(struct.items())
    if len(items) == 1:
        b, e = items[0]
        return b + exp_suffix(e, True)  # a solo power keeps its sign: x^(-1)
    num = [(b, e) for b, e in items if e > 0]
    den = [(b, -e) for b, e in items if e < 0]

    def side(fs, parens):
        s = " * ".join(b + exp_suffix(e, False) for b, e in fs)
        return "(%s)" % s if parens and len(fs) > 1 else s

    if not num and not den:
        return ""
    if not den:
        return side(num, False)
    if not num:
        return "1 / " + side(den, True)
    return side(num, True) + " / " + side(den, True)


def structure(t, marker):
    """{base text: exponent} of the unit type the tree denotes (powers distribute over products,
    nested anonymous scalings merge, a total scale factor of 1 disappears)."""
    k = t.kind
    if k == "atom":
        # an unlabeled unit prints as the generic marker, but two DIFFERENT unlabeled units are
        # different bases: keep them apart with an invisible tag (removed again by label_text)
        return {(t.atom.label if t.atom.label is not None else marker + "\x01" + t.atom.name + "\x02"): Fraction(1)}
    if k == "mul":
        return model.mul(structure(t.kids[0], marker), structure(t.kids[1], marker))
    if k == "div":
        return model.div(structure(t.kids[0], marker), structure(t.kids[1], marker))
    if k == "pow":
        return model.power(structure(t.kids[0], marker), t.n)
    if k == "root":
        return model.power(structure(t.kids[0], marker), Fraction(1, t.n))
    if k == "prefix":
        return {t.prefix[1]["symbol"] + product_label(structure(t.kids[0], marker)): Fraction(1)}
    if k == "scale":
        m = t.mag
        inner = t.kids[0]
        while inner.kind == "scale":  # ScaledUnit<ScaledUnit<U, M1>, M2> collapses to ScaledUnit<U, M1*M2>
            m = model.mul(m, inner.mag)
            inner = inner.kids[0]
        if not m:
            return structure(inner, marker)
        ml, slash = mag_label(m)
        return {"[%s %s]" % ("(%s)" % ml if slash else ml, product_label(structure(inner, marker))): Fraction(1)}
    raise AssertionError(k)


def label_text(t, marker):
    """The label the documented grammar gives for the unit the tree denotes."""
    import re
    return re.sub("\x01[^\x02]*\x02", "", product_label(structure(t, marker)))


def _split_top(s, sep):
    out, depth, cur, i = [], 0, "", 0
    while i < len(s):
        ch = s[i]
        if ch in "([{":
            depth += 1
        elif ch in ")]}":
            depth -= 1
        if depth == 0 and s.startswith(sep, i):
            out.append(cur)
            cur = ""
            i += len(sep)
            continue
        cur += ch
        i += 1
    out.append(cur)
    return out


def _match(x, i):
    """Index of the bracket matching x[i]."""
    depth = 0
    for j in range(i, len(x)):
        depth += x[j] in "([{"
        depth -= x[j] in ")]}"
        if depth == 0:
            return j
    return -1


def _canon_factor(f):
    if f.startswith("EQUIV{"):
        j = _match(f, 5)
        inner = sorted(canon_label(e) for e in _split_top(f[6:j], ", "))
        return "EQUIV{%s}%s" % (", ".join(inner), f[j + 1:])
    k = f.find("[")
    if k >= 0 and (k == 0 or f[:k].isalpha()):
        j = _match(f, k)
        body = f[k + 1:j]
        if body.startswith("("):
            e = _match(body, 0)
            mtxt, rest = body[:e + 1], body[e + 2:]
        else:
            mtxt, _, rest = body.partition(" ")
        return "%s[%s %s]%s" % (f[:k], mtxt, canon_label(rest), f[j + 1:])
    return f


def canon_label(s):
    """Order-agnostic canonical form of a label: the factors of every product side are sorted,
    recursively inside `[M u]` and `EQUIV{...}`."""
    def strip_parens(x):
        if x.startswith("(") and _match(x, 0) == len(x) - 1:
            return x[1:-1]
        return x

    sides = _split_top(s, " / ")
    if len(sides) > 2:
        return s
    out = []
    for sd in sides:
        had = sd.startswith("(") and _match(sd, 0) == len(sd) - 1
        fs = sorted(_canon_factor(f) for f in _split_top(strip_parens(sd), " * "))
        j = " * ".join(fs)
        out.append("(%s)" % j if had and len(fs) > 1 else j)
    return " / ".join(out)
