"""C02 - unit algebra is exact and canonical  (W + model)."""
import itertools
import random
import sys
from fractions import Fraction

from vlib import common, cxx, witness, atoms, model, extract
from vlib.common import AnalysisBroken
from checks import trees
from checks.c14 import flat

PROP = "C02"


def unit_asserts(tname, dim, mag, tag):
    return ("constexpr std::int64_t ed_%s[] = %s; constexpr std::int64_t em_%s[] = %s;\n"
            "static_assert(auv::same(auv::dim_of<%s>(), ed_%s), \"dimension exponents equal the exact algebraic result\");\n"
            "static_assert(auv::same(auv::mag_of<%s>(), em_%s), \"magnitude exponents equal the exact algebraic result\");"
            % (tag, flat(dim, True), tag, flat(mag, False), tname, tag, tname, tag))


def tree_item(idx, t, rnd, byname, prefixes):
    dim, mag = t.dim(), t.magm()
    lines = ["using E = au::AssociatedUnitT<std::decay_t<decltype(%s)>>;" % t.cpp("unit"), unit_asserts("E", dim, mag, "e")]
    nsp = 0
    for st in t.styles():
        if st == "unit":
            continue
        lines.append("static_assert(std::is_same<au::AssociatedUnitT<std::decay_t<decltype(%s)>>, E>::value, \"spelling with %ss denotes the same unit\");" % (t.cpp(st), st))
        nsp += 1
    lines.append("static_assert(std::is_same<%s, E>::value, \"type-trait spelling denotes the same unit\");" % t.trait())
    nsp += 1
    nrw = 0
    if t.pure():
        ex = t.exponents()
        for k in range(3):
            t2 = trees.from_exponents(rnd, byname, ex)
            if t2 is None:
                break
            lines.append("static_assert(std::is_same<std::decay_t<decltype(%s)>, E>::value, \"algebraically equal product/power of the same named units is the identical type\");" % t2.cpp("unit"))
            nrw += 1
    # equivalence: E against E*k for k == 1 (identical magnitude) and k != 1
    lines.append("static_assert(au::are_units_quantity_equivalent(E{}, E{} * au::mag<3>() / au::mag<3>()), \"conversion factor 1 => equivalent\");")
    lines.append("static_assert(!au::are_units_quantity_equivalent(E{}, E{} * au::mag<7>() / au::mag<6>()), \"factor 7/6 => not equivalent\");")
    lines.append("static_assert(!au::are_units_quantity_equivalent(E{}, E{} * au::root<6>(au::mag<2>())), \"one exponent differs by 1/6 => not equivalent\");")
    lines.append("static_assert(au::unit_ratio(E{} * au::mag<7>() / au::mag<6>(), E{}) == au::mag<7>() / au::mag<6>(), \"unit_ratio is the exact quotient\");")
    return witness.Item("tree%d:%s" % (idx, t.cpp("unit")), "\n".join(lines), "accept", None,
                        dict(desc="unit expression %s (depth %d): exact exponents, %d spellings, %d rewrites" % (t.cpp("unit"), t.depth(), nsp, nrw), spellings=nsp, rewrites=nrw))


def pair_item(idx, a, b):
    da, db = a.dim(), b.dim()
    ma, mb = a.magm(), b.magm()
    same_dim = model.key(da) == model.key(db)
    equiv = same_dim and model.key(ma) == model.key(mb)
    lines = ["using A = std::decay_t<decltype(%s)>; using B = std::decay_t<decltype(%s)>;" % (a.cpp("unit"), b.cpp("unit")),
             "static_assert(au::are_units_quantity_equivalent(A{}, B{}) == %s, \"equivalent iff exact dimension and magnitude coincide\");" % ("true" if equiv else "false"),
             "static_assert(au::has_same_dimension(A{}, B{}) == %s, \"same dimension\");" % ("true" if same_dim else "false")]
    if same_dim:
        q = model.div(ma, mb)
        lines.append("constexpr std::int64_t eq[] = %s;" % flat(q, False))
        lines.append("static_assert(auv::same(auv::dump(au::unit_ratio(A{}, B{})), eq), \"unit_ratio equals the exact quotient\");")
        lines.append("static_assert((au::unit_ratio(A{}, B{}) == au::mag<1>()) == %s, \"ratio is 1 iff equivalent\");" % ("true" if equiv else "false"))
    return witness.Item("pair%d:%s|%s" % (idx, a.cpp("unit"), b.cpp("unit")), "\n".join(lines), "accept", None,
                        dict(desc="equivalence / ratio of %s and %s" % (a.cpp("unit"), b.cpp("unit"))))


ACCESS_PATHS = [
    ("data_in:const:unit", "const auto q = au::make_quantity<A>(1.5); (void)q.data_in(B{});"),
    ("data_in:mutable:unit", "auto q = au::make_quantity<A>(1.5); (void)q.data_in(B{});"),
    ("data_in:const:maker", "const auto q = au::make_quantity<A>(1.5); (void)q.data_in(au::QuantityMaker<B>{});"),
    ("data_in:mutable:maker", "auto q = au::make_quantity<A>(1.5); (void)q.data_in(au::QuantityMaker<B>{});"),
    ("data_in:write", "auto q = au::make_quantity<A>(1.5); q.data_in(B{}) = 2.5;"),
]


def access_items(idx, a, b):
    """"Treated as quantity-equivalent (freely interconvertible, factor exactly 1) if and only if
    ...": direct access to the stored number trusts the unit NAME instead of converting, so every
    access path (const / mutable object, unit type / maker spelling, read / write) must accept a
    unit exactly when it is equivalent to the quantity's own."""
    equiv = model.key(a.dim()) == model.key(b.dim()) and model.key(a.magm()) == model.key(b.magm())
    head = "using A = std::decay_t<decltype(%s)>; using B = std::decay_t<decltype(%s)>;\n" % (a.cpp("unit"), b.cpp("unit"))
    out = []
    for nm, code in ACCESS_PATHS:
        out.append(witness.Item("access%d:%s:%s|%s" % (idx, nm, a.cpp("unit"), b.cpp("unit")), head + "void w() { %s }" % code, "accept" if equiv else "reject", None,
                                dict(desc="%s of a quantity of %s through %s (%s)" % (nm, a.cpp("unit"), b.cpp("unit"), "equivalent" if equiv else "not equivalent"))))
    return out


def order_tables(ctx, units, prefixes, prelude, rnd):
    """Pairwise tables of the three orderings, extracted from the constant evaluator; Python checks
    that each is a strict total order.  Returns stats."""
    stats = {}
    # ---- dimensions: the 9 base dimensions
    dims = ["Length", "Mass", "Time", "Current", "Temperature", "Angle", "Information", "AmountOfSubstance", "LuminousIntensity"]
    ex = extract.Extractor(ctx, prelude=prelude, tag="ord")
    for i, a in enumerate(dims):
        ex.add("od_%d" % i, "auv::Row<%d>" % len(dims), "auv::Row<%d>{{%s}}" % (len(dims), ", ".join(
            "au::InOrderFor<au::Dimension, au::base_dim::%s, au::base_dim::%s>::value" % (a, b) if a != b else "false" for b in dims)))
    mags = ["au::Prime<2>", "au::Prime<3>", "au::Pi", "au::Prime<5>", "au::Prime<7>", "au::Prime<11>", "au::Prime<2147483647>",
            "au::Prime<2305843009213693951ULL>", "au::Prime<18446744073709551557ULL>",
            # neighbours that coincide after rounding to double / float: the order must be exact
            "au::Prime<18446744073709551533ULL>", "au::Prime<1152921504606847009ULL>", "au::Prime<1152921504606847067ULL>", "au::Prime<16777259>", "au::Prime<16777289>"]
    for i, a in enumerate(mags):
        ex.add("om_%d" % i, "auv::Row<%d>" % len(mags), "auv::Row<%d>{{%s}}" % (len(mags), ", ".join(
            "au::InOrderFor<au::Magnitude, %s, %s>::value" % (a, b) if a != b else "false" for b in mags)))
    # ---- units
    gid = trees.collision_groups(units)
    cand = []
    for u in units:
        cand.append(("au::%s" % u.name, (model.key(u.dim), model.key(u.mag), u.has_origin, "named:" + u.name), u.name))
    pool = rnd.sample(units, 12 if not ctx.thorough else 45)
    pn = sorted(prefixes)
    for u in pool:
        p = rnd.choice(pn)
        cand.append(("au::%s<au::%s>" % (p, u.name), None, None))
        cand.append(("decltype(au::%s{} * au::mag<%d>())" % (u.name, rnd.choice([3, 7, 1000])), None, None))
        e = rnd.choice([2, 3, -1])
        cand.append(("au::Pow<au::%s, %d>" % (u.name, e), None, ("pow", u.name, Fraction(e))))
        e = rnd.choice([2, 3])
        cand.append(("au::RatioPow<au::%s, 1, %d>" % (u.name, e), None, ("pow", u.name, Fraction(1, e))))
    for _ in range(6 if not ctx.thorough else 30):
        a, b = rnd.sample(units, 2)
        if gid[a.name][1] > 1 and gid[a.name][0] == gid[b.name][0]:
            continue  # the product of two colliding named units cannot even be formed (documented limitation)
        cand.append(("au::UnitProductT<au::%s, au::%s>" % (a.name, b.name), None, None))
    if not ctx.thorough:
        keep = [c for c in cand if c[1] is None]
        named = [c for c in cand if c[1] is not None]
        cand = rnd.sample(named, 30) + keep
        # always include a documented collision pair
        for nm in ("Hertz", "Becquerel"):
            if not any(c[0] == "au::" + nm for c in cand):
                cand.append(next(c for c in named + [("au::%s" % nm, None, nm)] if c[0] == "au::" + nm))
    names = [c[0] for c in cand]
    seen = set()
    cand = [c for c in cand if not (c[0] in seen or seen.add(c[0]))]
    N = len(cand)
    byname = {u.name: u for u in units}

    def collide(i, j):
        a, b = cand[i], cand[j]
        if isinstance(a[2], tuple) or isinstance(b[2], tuple):
            # equal powers of two distinct named units of equal dimension and magnitude: a power has
            # no origin, so Kelvins^2 / Celsius^2 tie like Hertz / Becquerel (documented limitation:
            # "two distinct units that have the same Dimension, Magnitude, and Origin")
            if not (isinstance(a[2], tuple) and isinstance(b[2], tuple)) or a[2][2] != b[2][2] or a[2][1] == b[2][1]:
                return False
            ua, ub = byname[a[2][1]], byname[b[2][1]]
            return model.key(ua.dim) == model.key(ub.dim) and model.key(ua.mag) == model.key(ub.mag) and ua.tiebreak == ub.tiebreak
        if a[2] and b[2]:
            ua, ub = byname[a[2]], byname[b[2]]
            return (a[2] != b[2] and model.key(ua.dim) == model.key(ub.dim) and model.key(ua.mag) == model.key(ub.mag)
                    and ua.has_origin == ub.has_origin and not ua.has_origin and ua.tiebreak == ub.tiebreak)
        return False

    coll = [(i, j) for i in range(N) for j in range(N) if i != j and collide(i, j)]
    for i in range(N):
        ex.add("ou_%d" % i, "auv::Row<%d>" % N, "auv::Row<%d>{{%s}}" % (N, ", ".join(
            "false" if (i == j or collide(i, j)) else "au::InOrderFor<au::UnitProduct, %s, %s>::value" % (cand[i][0], cand[j][0]) for j in range(N))), group=i)
    vals = ex.run(batch=60)

    def table(prefix, n):
        rows = []
        for i in range(n):
            v = vals["%s_%d" % (prefix, i)]
            if v[0] == "error":
                rows.append(("error", v[1]))
            elif v[0] == "zero":
                rows.append([0] * n)
            else:
                # bool arrays are emitted either as i8 lists or as c"..." byte strings
                r = list(v[1]["strs"][0]) if v[1]["strs"] else v[1]["ints"]
                rows.append((r + [0] * n)[:n])
        return rows

    def check(prefix, labels, what, skip=()):
        rows = table(prefix, len(labels))
        n = len(labels)
        bad = 0
        for i, r in enumerate(rows):
            if isinstance(r, tuple):
                ctx.violation("order:%s:row:%s" % (what, labels[i]), "ordering of %s is undefined (hard error) for %s against some other element that the model does not consider a collision: %s" % (what, labels[i], r[1]))
                bad += 1
        if bad:
            return 0
        npairs = 0
        for i in range(n):
            for j in range(i + 1, n):
                if (i, j) in skip or (j, i) in skip:
                    continue
                npairs += 1
                if rows[i][j] == rows[j][i]:
                    ctx.violation("order:%s:trichotomy:%s|%s" % (what, labels[i], labels[j]),
                                  "ordering of %s: %s and %s are %s (exactly one direction must hold)" % (what, labels[i], labels[j], "both before each other" if rows[i][j] else "not ordered either way"))
        # transitivity: a<b, b<c => a<c
        lt = [[bool(rows[i][j]) for j in range(n)] for i in range(n)]
        for i in range(n):
            for j in range(n):
                if not lt[i][j]:
                    continue
                for k in range(n):
                    if lt[j][k] and not lt[i][k] and i != k and (i, k) not in skip and (k, i) not in skip:
                        ctx.violation("order:%s:transitivity:%s|%s|%s" % (what, labels[i], labels[j], labels[k]),
                                      "ordering of %s is not transitive: %s < %s < %s but not %s < %s" % (what, labels[i], labels[j], labels[k], labels[i], labels[k]))
                        return npairs
        return npairs

    stats["dimension_pairs"] = check("od", dims, "base dimensions")
    stats["magnitude_base_pairs"] = check("om", mags, "magnitude bases")
    stats["unit_pairs"] = check("ou", names if False else [c[0] for c in cand], "units", skip=set(coll))
    stats["unit_types"] = N
    stats["collision_pairs_excluded"] = len(coll) // 2
    # (pairs the model calls collisions are left out of the table - the documented limitation - but
    #  nothing is demanded of them: a library that learns to order them is not wrong)
    items = []
    # no two NAMED LIBRARY units may be such a pair: the library ships both, so their products, sums
    # and comparisons must compile (Hertz / Becquerel were one until the repair F-26)
    groups = {}
    for u in units:
        if gid[u.name][1] > 1 and not u.has_origin:
            groups.setdefault(gid[u.name][0], []).append(u.name)
    for names_ in groups.values():
        for x, y in itertools.combinations(sorted(names_), 2):
            ctx.violation("order:library-collision:%s|%s" % (x, y),
                          "the library units %s and %s have identical dimension, magnitude, origin and ordering tiebreaker: nothing orders them, so any "
                          "expression that puts both into one pack (%s * %s, +, ==, <) is a hard error ('Broken strict total ordering')" % (x, y, x, y))
    stats["library_units_checked_for_ties"] = len(units)
    return stats, items


def body(ctx):
    rnd = random.Random(ctx.seed)
    configs = cxx.configs_for(ctx.tier)
    units = atoms.discover_units(ctx)
    hdrs = atoms.unit_includes(units)
    prelude = witness.DEFAULT_PRELUDE + hdrs + "namespace auv { template <int N> struct Row { bool v[N]; }; }\n"
    atoms.readout_units(ctx, units, prelude)
    pfx = trees.readout_prefixes(ctx, trees.discover_prefixes(ctx), prelude)
    from vlib import witness as _w
    fixed_items = [_w.Item("anchor:dimensions", atoms.anchor_code(units), "accept", None, dict(desc="the nine dimension aliases are the nine base dimensions, and each base unit measures its own"))]
    for u in units:
        if u.declared:
            fixed_items.append(_w.Item("spelling:%s" % u.name, atoms.spelling_code(u), "accept", None,
                                       dict(desc="every spelling object declared in %s (%s) denotes %s" % (u.header, ", ".join(q for _, q in u.declared), u.name))))
    gid = trees.collision_groups(units)
    byname = {u.name: u for u in units}
    ntrees = 8000 if ctx.thorough else 400
    depth = 4 if ctx.thorough else 3
    ts = []
    skipped = 0
    seen = set()
    tries = 0
    while len(ts) < ntrees and tries < ntrees * 5:
        tries += 1
        t = trees.random_tree(rnd, units, pfx, rnd.choice([2, depth, depth]))
        if trees.has_collision(t, gid):
            skipped += 1
            continue
        key = t.cpp("unit")
        if key in seen or len(t.dim()) > 9 or len(t.magm()) > 18:
            continue
        # exponents must stay printable / bounded
        if any(abs(e.numerator) > 60 or e.denominator > 36 for e in list(t.dim().values()) + list(t.magm().values())):
            continue
        seen.add(key)
        ts.append(t)
    items = [tree_item(i, t, rnd, byname, pfx) for i, t in enumerate(ts)]
    # pairs: model-equal (a tree and a rewrite of it), near and different
    npairs = 0
    pure = [t for t in ts if t.pure() and t.exponents()]
    for i in range(min(len(ts) // 2, 2000 if ctx.thorough else 120)):
        a, b = rnd.choice(ts), rnd.choice(ts)
        if rnd.random() < 0.4 and pure:
            a = rnd.choice(pure)
            b = trees.from_exponents(rnd, byname, a.exponents())
        elif rnd.random() < 0.5:
            # same dimension, different magnitude: a and a scaled
            fr, cpp = rnd.choice(trees.SCALES)
            b = trees.Tree("scale", [a], mag=model.mag_from_fraction(fr), mag_cpp=cpp)
        both = trees.Tree("mul", [a, b])
        if trees.has_collision(both, gid):
            continue
        items.append(pair_item(i, a, b))
        npairs += 1
        if npairs % (4 if ctx.thorough else 6) == 0:
            items += access_items(i, a, b)
    ostats, oitems = order_tables(ctx, units, pfx, prelude, rnd)
    items += oitems
    items += fixed_items
    ctx.log("%d trees (%d skipped: documented collision), %d pairs, ordering: %s" % (len(ts), skipped, npairs, ostats))
    ctx.require(len(ts) >= 300, "only %d trees generated" % len(ts))
    results, stats = witness.judge(ctx, items, configs, prelude=prelude, batch=40, tag="c02")
    nbad = witness.report_mismatches(ctx, items, results, prelude=prelude)
    ctx.coverage.update(dict(
        evaluations=len(items) * len(configs), distinct_nontrivial=len(items),
        rule="seeded expression trees over the library's units (discovered per run), its 32 prefixes and integer / rational magnitudes with node kinds product, quotient, pow<-4..4>, root<2|3>, scale, prefix; each tree: exponent read-out == exact model, every available spelling (makers, singular names, symbols, constants, type traits) is the same unit, 3 algebraic rewrites of pure trees are the identical type, equivalence iff model equality; pair items for equal / near / different trees; pairwise ordering tables extracted and checked to be strict total orders",
        samples=[dict(key=items[0].key, code=items[0].code)], exhaustive=False,
        trees=len(ts), trees_skipped_collision=skipped, pair_items=npairs, spellings=sum(it.meta.get("spellings", 0) for it in items),
        rewrites=sum(it.meta.get("rewrites", 0) for it in items), ordering=ostats, mismatches=nbad, configs=[c.name for c in configs], engine_stats=stats))


def main(argv=None):
    return common.run_check(PROP, "exploration", body, argv)


if __name__ == "__main__":
    sys.exit(main())
