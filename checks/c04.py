"""C04 - see checks/conv_int.py (shared engine-I analysis of same-rep integer conversions)."""
import sys

from vlib import common
from checks import conv_int

PROP = "C04"


def body(ctx):
    conv_int.run(ctx, PROP)


def main(argv=None):
    return common.run_check(PROP, "proof", body, argv)


if __name__ == "__main__":
    sys.exit(main())
