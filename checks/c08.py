"""C08 - mixed-unit comparison, addition, subtraction and modulo are exact  (I + W).

Per wrapper (x: R1 in unit U1, y: R2 in unit U2): with C the model's gcd unit, k1 = U1/C, k2 = U2/C
and Rc = common_type(R1, R2):
  comparisons  truth table of the DAG over the orderings {lt, eq, gt (, unordered)} of the atoms
               k1*x and k2*y equals the operator's; atoms are exactly those affine forms in Rc, built
               only from value-preserving extensions and ONE multiplication each, compared with
               predicates of Rc's signedness;
  + -          affine form k1*x +- k2*y;   %  srem/urem of the two atoms;   <=> as the comparisons.
The only premises are "k1*x, k2*y (and the sum) do not overflow Rc".
"""
import random
import sys
from fractions import Fraction

from vlib import common, cxx, witness, model, ir, dag, irbuild, ordering
from vlib.common import AnalysisBroken

PROP = "C08"
SIGNED = ["int8_t", "int16_t", "int32_t", "int64_t"]
UNSIGNED = ["uint8_t", "uint16_t", "uint32_t", "uint64_t"]
FLOATS = ["float", "double"]
USING = "".join("using std::%s; " % t for t in SIGNED + UNSIGNED) + "\n"
CMPS = [("eq", "=="), ("ne", "!="), ("lt", "<"), ("le", "<="), ("gt", ">"), ("ge", ">=")]
EXPECT = {  # truth over (lt, eq, gt, un)
    "eq": (0, 1, 0, 0), "ne": (1, 0, 1, 1), "lt": (1, 0, 0, 0), "le": (1, 1, 0, 0), "gt": (0, 0, 1, 0), "ge": (0, 1, 1, 0)}
SPACESHIP = [("ss_lt", "(a <=> b) < 0", "lt"), ("ss_le", "(a <=> b) <= 0", "le"), ("ss_gt", "(a <=> b) > 0", "gt"),
             ("ss_ge", "(a <=> b) >= 0", "ge"), ("ss_eq", "(a <=> b) == 0", "eq"), ("ss_ne", "(a <=> b) != 0", "ne")]

UNIT_PAIRS = [  # (U1 magnitude, U2 magnitude) relative to a base unit
    (Fraction(1), Fraction(1)), (Fraction(12), Fraction(1)), (Fraction(1), Fraction(12)), (Fraction(3, 2), Fraction(1)),
    (Fraction(7, 5), Fraction(3, 4)), (Fraction(1000), Fraction(1)), (Fraction(1), Fraction(1000)),
    (Fraction(999, 1000), Fraction(1)), (Fraction(2), Fraction(3)), (Fraction(1, 3), Fraction(1, 7)),
    (Fraction(2 ** 31 - 1), Fraction(1)), (Fraction(1), Fraction(1000000)), (Fraction(5, 9), Fraction(1)),
    (Fraction(60), Fraction(3600)), (Fraction(381, 1250), Fraction(1)),
]


class Inst:
    def __init__(self, r1, r2, m1, m2):
        self.r1, self.r2, self.m1, self.m2 = r1, r2, m1, m2
        self.rc = model.common_type(r1, r2)
        M1, M2 = model.mag_from_fraction(m1), model.mag_from_fraction(m2)
        C = model.common_mag(M1, M2)
        self.k1 = model.mag_to_fraction(model.div(M1, C))
        self.k2 = model.mag_to_fraction(model.div(M2, C))
        assert self.k1.denominator == 1 and self.k2.denominator == 1
        self.k1, self.k2 = int(self.k1), int(self.k2)
        self.key = "%s,%s|%s:%s" % (r1, r2, m1, m2)

    def compiles(self):
        K1, K2 = model.mag_from_fraction(self.k1), model.mag_from_fraction(self.k2)
        return model.implicit_ok(K1, self.rc, self.rc) and model.implicit_ok(K2, self.rc, self.rc)


def mexpr(fr):
    s = "au::mag<%dULL>()" % fr.numerator
    return s + (" / au::mag<%dULL>()" % fr.denominator if fr.denominator != 1 else "")


def scaled(base, fr, style):
    """The unit `base` scaled by fr, spelled one of the ways a program may spell it: in one step by
    the quotient, in two steps (always with the division, also by mag<1>), or through a scaling by
    one of an already scaled unit - all name the same unit."""
    if style == 0:
        return "%s{} * (%s)" % (base, mexpr(fr))
    if style == 1:
        return "%s{} * au::mag<%dULL>() / au::mag<%dULL>()" % (base, fr.numerator, fr.denominator)
    return "(%s{} * au::mag<%dULL>()) * au::mag<1>() / au::mag<%dULL>()" % (base, fr.numerator, fr.denominator)


def block(k, inst, cpp20):
    same = inst.m1 == inst.m2
    ls = ["struct B%d : au::UnitImpl<au::Length> {};" % k,
          "struct U%d : decltype(%s) {};" % (k, scaled("B%d" % k, inst.m1, k % 3)),
          ("using V%d = U%d;" % (k, k)) if same else "struct V%d : decltype(%s) {};" % (k, scaled("B%d" % k, inst.m2, (k // 3) % 3)),
          "using P%d = %s; using Q%d = %s;" % (k, inst.r1, k, inst.r2)]
    pre = "auto a = au::make_quantity<U%d>(x); auto b = au::make_quantity<V%d>(y);" % (k, k)
    names = []
    if not cpp20:
        for nm, op in CMPS:
            ls.append('extern "C" bool w_%s_%d(P%d x, Q%d y) { %s return a %s b; }' % (nm, k, k, k, pre, op))
            names.append(nm)
        cu = "au::CommonUnitT<U%d, V%d>" % (k, k)
        rt = "decltype(std::common_type_t<P%d, Q%d>{} + std::common_type_t<P%d, Q%d>{})" % (k, k, k, k)
        ls.append('extern "C" %s w_add_%d(P%d x, Q%d y) { %s return (a + b).in(%s{}); }' % (rt, k, k, k, pre, cu))
        ls.append('extern "C" %s w_sub_%d(P%d x, Q%d y) { %s return (a - b).in(%s{}); }' % (rt, k, k, k, pre, cu))
        names += ["add", "sub"]
        qa, qb = "au::make_quantity<U%d>(P%d{})" % (k, k), "au::make_quantity<V%d>(Q%d{})" % (k, k)
        for op in "+-":
            ls.append('static_assert(std::is_same<decltype(%s %s %s), au::Quantity<%s, %s>>::value, "a %s b is a quantity of the common unit whose rep is what the raw operator gives for the common rep");'
                      % (qa, op, qb, cu, rt, op))
        if model.is_int(inst.r1) and model.is_int(inst.r2):
            ls.append('extern "C" %s w_mod_%d(P%d x, Q%d y) { %s return (a %% b).in(%s{}); }' % (rt, k, k, k, pre, cu))
            names.append("mod")
    else:
        for nm, ex, _ in SPACESHIP:
            ls.append('extern "C" bool w_%s_%d(P%d x, Q%d y) { %s return %s; }' % (nm, k, k, k, pre, ex))
            names.append(nm)
    return "\n".join(ls), names


def int_classifier(inst, uns):
    bits = model.INT_TYPES[model.canon(inst.rc)][0]
    pbits = model.INT_TYPES[model.canon(model.promote(inst.rc))][0]

    def classify(n):
        if n.ty not in ("i%d" % bits, "i%d" % pbits):
            return None
        a = dag.affine(n, uns)
        if a is None or a.div is not None:
            return None
        if a.same({0: inst.k1}, 0):
            return "A"
        if a.same({1: inst.k2}, 0):
            return "B"
        return None
    return classify


def audit_premises(inst, node, uns, which):
    """The atom must be built from the parameter by value-preserving extensions, at most one
    multiplication by the model constant and - for a sub-int common rep only - the narrowing back
    to that rep (whose value preservation IS the premise 'k*x does not overflow the common rep').
    Returns a list of complaints."""
    a = dag.affine(node, uns)
    bad = []
    nmul = 0
    rc_bits, rc_signed = model.INT_TYPES[model.canon(inst.rc)]
    src = inst.r1 if which == "A" else inst.r2
    src_signed = model.INT_TYPES[model.canon(src)][1]
    for p in a.premises:
        if p.op == "mul":
            nmul += 1
            op_signed = rc_signed or rc_bits < 32  # sub-int reps are multiplied as (signed) int
            if op_signed and not (p.attr and "nsw" in p.attr):
                bad.append("signed multiplication without nsw")
        elif p.op in ("sext", "zext"):
            v = p.args[0]
            if v.op == "param":
                want_signed = src_signed
            elif v.op == "trunc":
                want_signed = rc_signed
            else:
                continue
            if (p.op == "sext") != want_signed:
                bad.append("%s of a %s value" % (p.op, "signed" if want_signed else "unsigned"))
        elif p.op == "trunc":
            if not (rc_bits < 32 and p.ty == "i%d" % rc_bits):
                bad.append("narrowing (trunc to %s) on the way to the common type %s" % (p.ty, inst.rc))
        else:
            bad.append("unexpected step %s" % p.op)
    if nmul > 1:
        bad.append("%d multiplications (expected at most one)" % nmul)
    return bad


def collect(node, pred, out, seen):
    if id(node) in seen:
        return
    seen.add(id(node))
    if pred(node):
        out.append(node)
    for a in node.args:
        collect(a, pred, out, seen)


def strip_fpext(n):
    while n.op in ("fpext",):
        n = n.args[0]
    return n


def fp_atom(n, inst, rc):
    """Return 'A'/'B' if n is the correctly scaled operand in the common floating type."""
    if n.ty != {"float": "float", "double": "double"}[rc]:
        return None
    prec = model.FP_TYPES[rc][0]

    def scaled(m, k):
        base = strip_fpext(m)
        conv = base
        if conv.op in ("sitofp", "uitofp"):
            conv = conv.args[0]
            while conv.op in ("sext", "zext"):
                conv = conv.args[0]
        return conv if conv.op == "param" else None

    cand = []
    if n.op == "fmul":
        for c, o in ((n.args[0], n.args[1]), (n.args[1], n.args[0])):
            if c.is_const() and isinstance(c.cval(), Fraction):
                p = scaled(o, None)
                if p is not None:
                    cand.append((p.attr, c.cval(), "mul"))
    elif n.op == "fdiv":
        c = n.args[1]
        if c.is_const() and isinstance(c.cval(), Fraction):
            p = scaled(n.args[0], None)
            if p is not None and c.cval() != 0:
                cand.append((p.attr, 1 / c.cval(), "div"))
    else:
        p = scaled(n, None)
        if p is not None:
            cand.append((p.attr, Fraction(1), "id"))
    for pi, c, how in cand:
        k = Fraction(inst.k1 if pi == 0 else inst.k2)
        if how == "div":
            if c == k:
                return "A" if pi == 0 else "B"
            continue
        # constant must be k rounded to the type (<= 1 ulp)
        if k == c:
            return "A" if pi == 0 else "B"
        e = 0
        kk = k
        import math
        e = math.floor(math.log2(float(k))) if k > 0 else 0
        ulp = Fraction(2) ** (e - prec + 1)
        if abs(c - k) <= ulp:
            return "A" if pi == 0 else "B"
    return None


def analyse(ctx, mod, k, inst, names, cpp20, findings, undecided):
    nob = ndis = 0
    isint = model.is_int(inst.rc)
    uns = isint and not model.INT_TYPES[model.canon(inst.rc)][1]
    for nm in names:
        f = mod.funcs.get("w_%s_%d" % (nm, k))
        if f is None:
            raise AnalysisBroken("wrapper w_%s_%d missing" % (nm, k))
        key = "%s|%s" % (inst.key, nm)
        nob += 1
        try:
            d = dag.build(f, mod)
        except AnalysisBroken as e:
            # this wrapper is outside what the DAG builder reads (calls that were not inlined, memory
            # traffic): undecided, reported as analysis-broken unless something else is a violation
            undecided.append((key, str(e)))
            continue
        if isint:
            classify = int_classifier(inst, uns)
            if nm in EXPECT or nm.startswith("ss_"):
                want = EXPECT[nm if nm in EXPECT else [s for s in SPACESHIP if s[0] == nm][0][2]][:3]
                try:
                    got = ordering.table(d.ret, classify)
                except ordering.NotDecidable as e:
                    findings.append((key, "comparison %s of %s: not a function of the ordering of k1*x=%d*x and k2*y=%d*y in %s: %s\nDAG: %s"
                                     % (nm, inst.key, inst.k1, inst.k2, inst.rc, e, d.ret.pretty())))
                    continue
                if got != want:
                    findings.append((key, "comparison %s of %s: truth table over (lt,eq,gt) of (%d*x, %d*y) is %s, expected %s\nDAG: %s"
                                     % (nm, inst.key, inst.k1, inst.k2, got, want, d.ret.pretty())))
                    continue
                atoms = []
                collect(d.ret, lambda n: n.op == "icmp" and {classify(n.args[0]), classify(n.args[1])} == {"A", "B"}, atoms, set())
                bad = []
                for ic in atoms:
                    cmp_uns = not model.INT_TYPES[model.canon(model.promote(inst.rc))][1]
                    if ic.attr not in ("eq", "ne") and (ic.attr[0] == "u") != cmp_uns:
                        bad.append("predicate %s does not match the signedness of (promoted) %s" % (ic.attr, inst.rc))
                    for arg in ic.args:
                        bad += audit_premises(inst, arg, uns, classify(arg))
                if not atoms:
                    bad.append("no comparison of the two scaled operands found")
                if bad:
                    findings.append((key, "comparison %s of %s: %s\nDAG: %s" % (nm, inst.key, "; ".join(sorted(set(bad))), d.ret.pretty())))
                    continue
                ndis += 1
            elif nm in ("add", "sub"):
                a = dag.affine(d.ret, uns)
                sgn = 1 if nm == "add" else -1
                if a is None or not a.same({0: inst.k1, 1: sgn * inst.k2}, 0):
                    findings.append((key, "%s of %s: result is %s, expected %d*x %s %d*y in the common unit\nDAG: %s"
                                     % (nm, inst.key, a, inst.k1, "+" if sgn > 0 else "-", inst.k2, d.ret.pretty())))
                    continue
                rcb = model.INT_TYPES[model.canon(inst.rc)][0]
                bad = [p.op for p in a.premises if p.op not in ("mul", "sext", "zext", "add", "sub") and not (p.op == "trunc" and rcb < 32 and p.ty == "i%d" % rcb)]
                # a sub-int common rep may be re-narrowed after each OPERAND is scaled (that is the
                # premise 'scaling does not overflow the common rep'), never after the sum is formed
                for p in a.premises:
                    if p.op == "trunc":
                        inner = dag.affine(p.args[0], uns)
                        if inner is not None and len(inner.coef) > 1:
                            bad.append("the %s itself is narrowed to %s" % ("sum" if nm == "add" else "difference", p.ty))
                if bad:
                    findings.append((key, "%s of %s: unexpected steps %s\nDAG: %s" % (nm, inst.key, bad, d.ret.pretty())))
                    continue
                ndis += 1
            elif nm == "mod":
                r = d.ret
                op_uns = not model.INT_TYPES[model.canon(model.promote(inst.rc))][1]
                ok = r.op == ("urem" if op_uns else "srem") and classify(r.args[0]) == "A" and classify(r.args[1]) == "B"
                if not ok:
                    findings.append((key, "%% of %s: expected %s(%d*x, %d*y)\nDAG: %s" % (inst.key, "urem" if op_uns else "srem", inst.k1, inst.k2, d.ret.pretty())))
                    continue
                bad = audit_premises(inst, r.args[0], uns, "A") + audit_premises(inst, r.args[1], uns, "B")
                if bad:
                    findings.append((key, "%% of %s: %s\nDAG: %s" % (inst.key, "; ".join(sorted(set(bad))), d.ret.pretty())))
                    continue
                ndis += 1
        else:
            rc = inst.rc
            classify = lambda n: fp_atom(n, inst, rc)
            if nm in EXPECT or nm.startswith("ss_"):
                want = EXPECT[nm if nm in EXPECT else [s for s in SPACESHIP if s[0] == nm][0][2]]
                try:
                    got = ordering.table(d.ret, classify, fp=True)
                except ordering.NotDecidable as e:
                    findings.append((key, "floating comparison %s of %s: not a function of the ordering of fl(k1*x), fl(k2*y) with k1=%s k2=%s in %s: %s\nDAG: %s"
                                     % (nm, inst.key, inst.k1, inst.k2, rc, e, d.ret.pretty())))
                    continue
                if nm.startswith("ss_"):
                    # partial_ordering: every relational test is false on unordered, != is true
                    pass
                if got != want:
                    findings.append((key, "floating comparison %s of %s: truth table over (lt,eq,gt,unordered) is %s, expected %s\nDAG: %s"
                                     % (nm, inst.key, got, want, d.ret.pretty())))
                    continue
                ndis += 1
            elif nm in ("add", "sub"):
                r = d.ret
                ok = r.op == ("fadd" if nm == "add" else "fsub") and \
                    ({classify(r.args[0]), classify(r.args[1])} == {"A", "B"}) and \
                    (nm == "add" or (classify(r.args[0]) == "A" and classify(r.args[1]) == "B"))
                if not ok:
                    findings.append((key, "floating %s of %s: expected one IEEE %s of fl(%s*x) and fl(%s*y)\nDAG: %s"
                                     % (nm, inst.key, "fadd" if nm == "add" else "fsub", inst.k1, inst.k2, d.ret.pretty())))
                    continue
                ndis += 1
    return nob, ndis


def body(ctx):
    rnd = random.Random(ctx.seed)
    configs = cxx.configs_for(ctx.tier)
    rep_pairs = [(a, b) for a in SIGNED for b in SIGNED] + [(a, b) for a in UNSIGNED for b in UNSIGNED] + \
                [(a, b) for a in FLOATS for b in FLOATS]
    insts = []
    for (r1, r2) in rep_pairs:
        for (m1, m2) in UNIT_PAIRS:
            i = Inst(r1, r2, m1, m2)
            if i.compiles():
                insts.append(i)
    if ctx.thorough:
        for _ in range(300):
            r1, r2 = rnd.choice(rep_pairs)
            m1 = Fraction(rnd.randrange(1, 1000), rnd.randrange(1, 1000))
            m2 = Fraction(rnd.randrange(1, 1000), rnd.randrange(1, 1000))
            i = Inst(r1, r2, m1, m2)
            if i.compiles() and i.key not in {x.key for x in insts}:
                insts.append(i)
    else:
        # always keep the pairs of DIFFERENT units whose common rep is narrower than int (the result
        # rep is then the promoted one and nothing may narrow it back): there are only a few
        must = [i for i in insts if model.is_int(i.rc) and model.INT_TYPES[model.canon(i.rc)][0] < 32 and i.m1 != i.m2]
        rest = [i for i in insts if i not in must]
        rnd.shuffle(rest)
        insts = must + rest[:max(0, 110 - len(must))]
        ctx.require(len(must) >= 4, "only %d sub-int mixed-unit instances" % len(must))
    ctx.log("%d instances (rep pair x unit pair) permitted by the documented policy" % len(insts))
    prelude = "#include <cstdint>\n#include <type_traits>\n#include \"au/au.hh\"\n" + USING
    findings = []
    tot = [0, 0, 0, 0]
    dropped_all = {}

    def do(arg):
        ci, chunk, cpp20 = arg
        blocks = []
        meta = {}
        for k, inst in enumerate(chunk):
            text, names = block(k, inst, cpp20)
            blocks.append((k, text))
            meta[k] = (inst, names)
        pre = prelude + ("#include <compare>\n" if cpp20 else "")
        mod, alive, dropped = irbuild.build_blocks(ctx, pre, blocks, "c08_%d_%d" % (ci, cpp20), only=lambda n: n.startswith("w_"),
                                                   std="c++20" if cpp20 else "c++14")
        fs = []
        und = []
        nob = ndis = nf = 0
        for k in alive:
            inst, names = meta[k]
            a, b = analyse(ctx, mod, k, inst, names, cpp20, fs, und)
            nob += a
            ndis += b
            nf += len(names)
        return nob, ndis, nf, fs, {meta[k][0].key: v for k, v in dropped.items()}, und

    jobs = []
    for ci in range(0, len(insts), 20):
        jobs.append((ci, insts[ci:ci + 20], False))
        jobs.append((ci, insts[ci:ci + 20], True))
    undecided = []
    for nob, ndis, nf, fs, dropped, und in cxx.pmap(do, jobs):
        undecided += und
        tot[0] += nob
        tot[1] += ndis
        tot[2] += nf
        findings += fs
        dropped_all.update(dropped)
    for key, what in findings:
        ctx.violation(key, what.split("\n")[0], what)
    for key, msg in dropped_all.items():
        ctx.violation("compile:" + key, "mixed-unit operators for %s are permitted by the documented policy but do not compile: %s" % (key, msg))
    ctx.require(tot[2] >= 800, "only %d wrappers analysed (floor 800)" % tot[2])

    # W: accepted alike under every configuration (C++20 rewritten candidates must not be ambiguous)
    items = []
    for n, inst in enumerate(rnd.sample(insts, min(len(insts), 40 if ctx.thorough else 12))):
        same = inst.m1 == inst.m2
        code = ("struct B : au::UnitImpl<au::Length> {}; struct U : decltype(B{} * (%s)) {}; %s\n"
                "void w() { auto a = au::make_quantity<U>(%s{1}); auto b = au::make_quantity<V>(%s{2});\n"
                "(void)(a == b); (void)(a != b); (void)(a < b); (void)(a <= b); (void)(a > b); (void)(a >= b); (void)(b == a); (void)(b < a); (void)(a + b); (void)(a - b); (void)(b - a); }"
                % (mexpr(inst.m1), "using V = U;" if same else "struct V : decltype(B{} * (%s)) {};" % mexpr(inst.m2), inst.r1, inst.r2))
        items.append(witness.Item("w:%s" % inst.key, code, "accept", None, dict(desc="mixed-unit operators for %s compile under every configuration" % inst.key)))
        if model.is_int(inst.r1) and model.is_int(inst.r2):
            # the same operators inside constant expressions (the library promises constexpr under
            # C++14), with the exact values for one pair of operands
            lo, hi = model.int_range(inst.rc)
            x, y = 7, 3
            A, B = x * inst.k1, y * inst.k2
            if lo <= A <= hi and lo <= B <= hi and lo <= A + B <= hi and lo <= A - B <= hi and B != 0:
                cu = "au::CommonUnitT<U, V>"
                q = "au::make_quantity<U>(%s{%d})" % (inst.r1, x), "au::make_quantity<V>(%s{%d})" % (inst.r2, y)
                ca = ("struct B : au::UnitImpl<au::Length> {}; struct U : decltype(B{} * (%s)) {}; %s\n" % (mexpr(inst.m1), "using V = U;" if same else "struct V : decltype(B{} * (%s)) {};" % mexpr(inst.m2))
                      + "static_assert((%s + %s).in(%s{}) == %d, \"constexpr +\");\n" % (q[0], q[1], cu, A + B)
                      + "static_assert((%s - %s).in(%s{}) == %d, \"constexpr -\");\n" % (q[0], q[1], cu, A - B)
                      + "static_assert((%s %% %s).in(%s{}) == %d, \"constexpr %%\");\n" % (q[0], q[1], cu, A % B)
                      + "static_assert((%s < %s) == %s && (%s == %s) == %s && (%s >= %s) == %s, \"constexpr comparisons\");"
                      % (q[0], q[1], "true" if A < B else "false", q[0], q[1], "true" if A == B else "false", q[0], q[1], "true" if A >= B else "false"))
                items.append(witness.Item("cx:%s" % inst.key, ca, "accept", None, dict(desc="mixed-unit + - %% and comparisons of %s in constant expressions, exact values for (7, 3)" % inst.key)))
    # C++20: the category of <=> is the raw rep's, zeros of either sign are equivalent and a NaN is
    # unordered - exactly what ==, < and > say (constant expressions, C++20 configurations only)
    ss = []
    for inst in insts:
        if (inst.rc, inst.m1 != inst.m2) not in {(i.rc, i.m1 != i.m2) for i in ss}:
            ss.append(inst)
    for inst in ss:
        same = inst.m1 == inst.m2
        hd = ("struct B : au::UnitImpl<au::Length> {}; struct U : decltype(B{} * (%s)) {}; %s\nusing R1 = %s; using R2 = %s; using RC = std::common_type_t<R1, R2>;\n"
              % (mexpr(inst.m1), "using V = U;" if same else "struct V : decltype(B{} * (%s)) {};" % mexpr(inst.m2), inst.r1, inst.r2))
        code = hd + ("static_assert(std::is_same<decltype(au::make_quantity<U>(R1{1}) <=> au::make_quantity<V>(R2{1})), decltype(RC{1} <=> RC{1})>::value, \"category of <=> is the common rep's\");\n"
                     "static_assert(std::is_same<decltype(au::make_quantity<V>(R2{1}) <=> au::make_quantity<U>(R1{1})), decltype(RC{1} <=> RC{1})>::value, \"category of <=> (reversed)\");\n"
                     "static_assert((au::make_quantity<U>(R1{0}) <=> au::make_quantity<V>(R2{0})) == 0, \"zero <=> zero\");\n")
        if model.is_fp(inst.rc):
            code += ("constexpr R1 nz1 = -R1{0}; constexpr R2 nz2 = -R2{0}; constexpr R1 nan1 = std::numeric_limits<R1>::quiet_NaN(); constexpr R2 nan2 = std::numeric_limits<R2>::quiet_NaN();\n"
                     "static_assert((au::make_quantity<U>(nz1) <=> au::make_quantity<V>(R2{0})) == 0 && (au::make_quantity<U>(R1{0}) <=> au::make_quantity<V>(nz2)) == 0, \"zeros of opposite sign are equivalent, as == says\");\n"
                     "static_assert(au::make_quantity<U>(nz1) == au::make_quantity<V>(R2{0}), \"== on zeros of opposite sign\");\n"
                     "#ifndef __clang__  /* clang's constant evaluator refuses arithmetic on a NaN: g++ judges these */\n"
                     "static_assert(!((au::make_quantity<U>(nan1) <=> au::make_quantity<V>(R2{1})) < 0) && !((au::make_quantity<U>(nan1) <=> au::make_quantity<V>(R2{1})) > 0) && !((au::make_quantity<U>(nan1) <=> au::make_quantity<V>(R2{1})) == 0), \"a NaN is unordered (left)\");\n"
                     "static_assert(!((au::make_quantity<U>(R1{1}) <=> au::make_quantity<V>(nan2)) < 0) && !((au::make_quantity<U>(R1{1}) <=> au::make_quantity<V>(nan2)) > 0) && !((au::make_quantity<U>(R1{1}) <=> au::make_quantity<V>(nan2)) == 0), \"a NaN is unordered (right)\");\n"
                     "static_assert(!(au::make_quantity<U>(nan1) < au::make_quantity<V>(R2{1})) && !(au::make_quantity<U>(nan1) > au::make_quantity<V>(R2{1})) && !(au::make_quantity<U>(nan1) == au::make_quantity<V>(R2{1})), \"< > == with a NaN\");\n#endif\n")
        items.append(witness.Item("ss:%s" % inst.key, code, "accept", {"c++20"}, dict(desc="C++20 <=> for %s: comparison category of the common rep %s, zeros of either sign equivalent, NaN unordered" % (inst.key, inst.rc))))
    chrono = ("void w() { auto s = au::seconds(3); std::chrono::milliseconds ms{5}; std::chrono::duration<double> d{1.5};\n"
              "(void)(s == ms); (void)(ms == s); (void)(s < ms); (void)(ms < s); (void)(s + ms); (void)(ms + s); (void)(s - ms); (void)(ms - s);\n"
              "(void)(au::seconds(1.0) < d); (void)(d >= au::seconds(1.0)); (void)(au::milli(au::seconds)(7) != ms); }")
    items.append(witness.Item("w:chrono", chrono, "accept", None, dict(desc="Quantity vs std::chrono::duration operators compile under every configuration")))
    # the six comparisons with a Quantity-equivalent operand (a chrono duration) on EITHER side, for an
    # equal, a smaller and a larger operand of another unit: exact answers in constant expressions
    chrono_v = ("constexpr std::chrono::milliseconds ms{2000}; constexpr auto s1 = au::seconds(1); constexpr auto s2 = au::seconds(2); constexpr auto s3 = au::seconds(3);\n"
                "static_assert((ms == s2) && (s2 == ms) && !(ms != s2) && !(s2 != ms) && (ms <= s2) && (ms >= s2) && (s2 <= ms) && (s2 >= ms) && !(ms < s2) && !(ms > s2) && !(s2 < ms) && !(s2 > ms), \"equal operands\");\n"
                "static_assert((ms < s3) && (ms <= s3) && !(ms > s3) && !(ms >= s3) && (s3 > ms) && (s3 >= ms) && !(s3 < ms) && !(s3 <= ms) && (ms != s3) && (s3 != ms) && !(ms == s3), \"smaller on the duration side\");\n"
                "static_assert((ms > s1) && (ms >= s1) && !(ms < s1) && !(ms <= s1) && (s1 < ms) && (s1 <= ms) && !(s1 > ms) && !(s1 >= ms), \"larger on the duration side\");\n"
                "static_assert((ms + s1) == au::milli(au::seconds)(3000) && (s1 + ms) == au::milli(au::seconds)(3000) && (ms - s1) == au::milli(au::seconds)(1000) && (s3 - ms) == au::milli(au::seconds)(1000), \"sums and differences\");")
    items.append(witness.Item("cx:chrono", chrono_v, "accept", None, dict(desc="the six comparisons, + and - with a std::chrono::duration on either side: exact values for equal / smaller / larger operands")))
    wprel = witness.DEFAULT_PRELUDE + USING + '#include "au/units/seconds.hh"\n#if __cplusplus >= 202002L\n#include <compare>\n#endif\n'
    results, stats = witness.judge(ctx, items, cxx.ALL_CONFIGS if ctx.thorough else configs + [cxx.CLANG20], prelude=wprel, batch=20, tag="c08")
    nbad = witness.report_mismatches(ctx, items, results, prelude=wprel)
    if undecided and not ctx.violations:
        raise AnalysisBroken("%d wrappers could not be read into a DAG, e.g. %s: %s" % (len(undecided), undecided[0][0], undecided[0][1]))
    ctx.coverage.update(dict(
        obligations=tot[0] + len(items), discharged=tot[1] + len(items) - nbad,
        checker_cmd="bin/check C08 --tier %s" % ctx.tier,
        trusted_base=["clang 14 lowering to IR", "opt-14 sroa/inline/simplifycfg", "vlib/dag.py affine forms, vlib/ordering.py truth tables", "vlib/model.py gcd unit and policy"],
        evaluations=tot[2], distinct_nontrivial=tot[2],
        rule="one IR wrapper per (operator, rep pair of equal signedness or floating, unit pair); comparisons decided by truth table over the orderings of the two scaled operands, + - % by affine form / operand structure; C++20 <=> in a separate C++20 TU; W: the operators compile alike under every configuration, exact values in constant expressions, and for one instance per (common rep, same/different units) the C++20 comparison category equals the common rep's, zeros of either sign are equivalent and a NaN is unordered",
        samples=[dict(instance=insts[0].key, k1=insts[0].k1, k2=insts[0].k2, common_rep=insts[0].rc)],
        exhaustive=False, instances=len(insts), wrappers=tot[2], w_items=len(items), w_mismatches=nbad, engine_stats=stats,
        not_decided="ulp-closeness of floating sums under cancellation (only constants and IEEE operations are checked)"))
    ctx.assumptions += ["consistency / antisymmetry / transitivity of the six comparisons follow from each being the named predicate on one pair of exact values (corollary, no extra analysis)"]


def main(argv=None):
    return common.run_check(PROP, "proof", body, argv)


if __name__ == "__main__":
    sys.exit(main())
