"""C18 - printed labels denote the actual unit  (W + S + I + model)."""
import os
import random
import re
import sys
from fractions import Fraction

from vlib import common, cxx, witness, atoms, model, extract, ir, dag, irbuild, srclint
from vlib.common import AU_DIR, AU_INC, AnalysisBroken
from checks import trees

PROP = "C18"
REPS11 = ["int8_t", "uint8_t", "int16_t", "uint16_t", "int32_t", "uint32_t", "int64_t", "uint64_t", "float", "double", "long double"]
USING = "".join("using std::%s; " % t for t in REPS11[:8]) + "\n"
NUM_INSERTER = re.compile(r"^_ZNSolsE[ijlmxystdfeb]$|^_ZNSo9_M_insertI[ijlmxydfeb]EERSoT_$")
STR_INSERTER = re.compile(r"^_ZSt16__ostream_insertIcSt11char_traitsIcEERSt13basic_ostreamIT_T0_ES6_PKS3_l$|^_ZStlsISt11char_traitsIcEERSt13basic_ostreamIcT_ES5_PKc$")
CHAR_INSERTER = re.compile(r"^_ZStlsISt11char_traitsIcEERSt13basic_ostreamIcT_ES5_[cah]$|^_ZNSo3putEc$")


def cstr(s):
    return '"' + s.replace("\\", "\\\\").replace('"', '\\"') + '"'


def collision_items():
    """Two units of different magnitude or dimension must not print the same label: the documented
    grammar prepends a prefix symbol to the label TEXT, so a prefix applied to a power reads like the
    power of the prefixed unit (known finding K-6: km^2), and a prefixed symbol can spell another
    unit's symbol (milli-inches and minutes: min)."""
    pre = ('#include "au/units/meters.hh"\n#include "au/units/inches.hh"\n#include "au/units/minutes.hh"\n#include "au/units/seconds.hh"\n'
           "template <class A, class B> constexpr bool same_label() { return auv::streq(au::unit_label(A{}), au::unit_label(B{})); }\n")
    pairs = [("prefix-of-power", "au::Kilo<decltype(au::squared(au::Meters{}))>", "decltype(au::squared(au::Kilo<au::Meters>{}))", "10^3 m^2 and 10^6 m^2"),
             ("prefix-of-inverse", "au::Kilo<decltype(au::inverse(au::Seconds{}))>", "decltype(au::inverse(au::Kilo<au::Seconds>{}))", "10^3 / s and 10^-3 / s"),
             ("prefixed-symbol", "au::Milli<au::Inches>", "au::Minutes", "a length and a time")]
    items = []
    for nm, a, b, why in pairs:
        items.append(witness.Item("collision:" + nm, pre + "static_assert(!au::are_units_quantity_equivalent(%s{}, %s{}) || !(au::detail::DimT<%s>{} == au::detail::DimT<%s>{}), \"different units\");\n"
                                  "static_assert(!same_label<%s, %s>(), \"two different units print one label\");" % (a, b, a, b, a, b),
                                  "accept", None, dict(desc="%s and %s (%s) print different labels" % (a, b, why))))
    return items


def itoa_items():
    vals = [0, 1, -1, 9, -9, 10, -10, 99, 100, 101, -99, -100, -101, 999999999, 1000000000, 1000000001, 2 ** 31 - 1, 2 ** 31, -(2 ** 31), 2 ** 32,
            10 ** 18, 10 ** 18 - 1, 10 ** 18 + 1, 2 ** 63 - 1, -(2 ** 63 - 1)]
    uvals = [0, 1, 9, 10, 2 ** 32 - 1, 2 ** 32, 10 ** 19, 10 ** 19 - 1, 2 ** 63, 2 ** 64 - 1, 2 ** 64 - 59]
    lines = []
    # the most negative value has no literal of its own
    lines.append("static_assert(auv::streq(au::detail::IToA<INT64_MIN>::value.char_array(), \"-9223372036854775808\") && au::detail::IToA<INT64_MIN>::length == 20, \"IToA<INT64_MIN>\");")
    lines.append("static_assert(au::detail::string_size(INT64_MIN) == 20 && au::detail::string_size(INT64_MIN + 1) == 20 && au::detail::string_size(INT64_MAX) == 19, \"string_size at the limits\");")
    for v in vals:
        lit = "%dLL" % v
        lines.append("static_assert(auv::streq(au::detail::IToA<%s>::value.char_array(), %s) && au::detail::IToA<%s>::length == %d, \"IToA<%d>\");" % (lit, cstr(str(v)), lit, len(str(v)), v))
    for v in uvals:
        lit = "%dULL" % v
        lines.append("static_assert(auv::streq(au::detail::UIToA<%s>::value.char_array(), %s) && au::detail::UIToA<%s>::length == %d, \"UIToA<%d>\");" % (lit, cstr(str(v)), lit, len(str(v)), v))
    return [witness.Item("itoa", "\n".join(lines), "accept", None, dict(desc="IToA / UIToA on boundary integers"))]


def random_itoa(rnd, n):
    lines = []
    for _ in range(n):
        v = rnd.randrange(-(2 ** 63) + 1, 2 ** 63)
        lines.append("static_assert(auv::streq(au::detail::IToA<%dLL>::value.char_array(), %s), \"IToA\");" % (v, cstr(str(v))))
        u = rnd.randrange(0, 2 ** 64)
        lines.append("static_assert(auv::streq(au::detail::UIToA<%dULL>::value.char_array(), %s), \"UIToA\");" % (u, cstr(str(u))))
    return [witness.Item("itoa:random", "\n".join(lines), "accept", None, dict(desc="IToA / UIToA on seeded 64-bit integers"))]


def unit_like_records(ctx, units):
    """S rule: every unit-like record in non-test unit headers and whether its body declares `label`."""
    out = []
    udir = os.path.join(AU_DIR, "units")
    for f in sorted(os.listdir(udir)):
        if not f.endswith(".hh") or f.endswith("_fwd.hh"):
            continue
        txt = atoms.strip_comments(open(os.path.join(udir, f)).read()).replace("{}", "__")  # `Inches{}` in base lists
        for m in re.finditer(r"\bstruct\s+(\w+)\s*:\s*([^{;]+)\{([^}]*)\}", txt):
            name, bases, body_ = m.group(1), m.group(2), m.group(3)
            if name.endswith("Label"):
                continue
            if re.search(r"\bUnitImpl\b|decltype\s*\(|\b[A-Z]\w+\b", bases):
                declares = bool(re.search(r"\blabel\b", body_))
                out.append((name, "au/units/" + f, declares))
    ctx.require(len(out) >= 57, "own-label rule: only %d unit-like records found (floor 57)" % len(out))
    return out


def const_zero(n):
    """Is the node a constant expression with value +0.0 / 0 (no parameters involved)?"""
    if n.op == "const":
        return n.cval() == 0 and n.cval() != "-0"
    if n.op in ("sitofp", "uitofp", "fpext", "sext", "zext"):
        return const_zero(n.args[0])
    if n.op in ("fsub", "fadd", "sub", "add"):
        return const_zero(n.args[0]) and const_zero(n.args[1])
    return False


def body(ctx):
    rnd = random.Random(ctx.seed)
    configs = cxx.configs_for(ctx.tier)
    units = atoms.discover_units(ctx)
    hdrs = atoms.unit_includes(units)
    prelude = witness.DEFAULT_PRELUDE + USING + hdrs
    atoms.readout_units(ctx, units, prelude)
    pfx = trees.readout_prefixes(ctx, trees.discover_prefixes(ctx), prelude)
    ctx.require(all(p["symbol"] is not None for p in pfx.values()), "a prefix label does not end with the unit's label")
    gid = trees.collision_groups(units)
    byname = {u.name: u for u in units}
    # the generic marker is an atom of the grammar: read it from the tree
    ex = extract.Extractor(ctx, prelude=prelude, tag="marker")
    ex.add("mk", "auv::Text", "auv::text(au::DefaultUnitLabel<void>::value)")
    mv = ex.run()["mk"]
    ctx.require(mv[0] != "error", "cannot read the generic unlabeled marker")
    marker = extract.text_of(mv)[1][:-1].decode("latin-1")
    ctx.require(marker.startswith("[") and "UNLABELED" in marker, "generic marker looks wrong: %r" % marker)

    # ---- trees: label text extracted (clang) and compared structurally with the model
    ts = []
    # unlabeled atoms take part as well
    class Fake:
        pass
    unl = []
    for i in range(3):
        a = Fake()
        a.name, a.label, a.dim, a.mag = "Unl%d" % i, None, {-99 + i: Fraction(1)}, model.mag_from_fraction(i + 2)
        a.maker = a.singular = None
        a.symbols = []
        a.has_origin = False
        unl.append(a)
    unl_defs = "".join("struct Unl%d : au::UnitImpl<au::Dimension<au::base_dim::BaseDimension<%d>>, decltype(au::mag<%d>())> {};\n" % (i, 1000 + i, i + 2) for i in range(3))
    for a in unl:
        a.dim = {1000 + int(a.name[3:]): Fraction(1)}
    pool = units + unl
    ntrees = 6000 if ctx.thorough else 350
    seen = set()
    tries = 0
    while len(ts) < ntrees and tries < ntrees * 6:
        tries += 1
        t = trees.random_tree(rnd, pool, pfx, rnd.choice([1, 2, 3, 3 if not ctx.thorough else 4]))
        if trees.has_collision(t, {**gid, **{a.name: (10000 + i, 1) for i, a in enumerate(unl)}}):
            continue
        # prefixing / scaling a compound is textually ambiguous ("km * s"): keep single-base operands
        ok = True

        def single(n):
            nonlocal ok
            if n.kind in ("prefix",) and len(trees.structure(n.kids[0], marker)) != 1:
                ok = False
            if n.kind == "prefix" and list(trees.structure(n.kids[0], marker).values()) != [Fraction(1)]:
                ok = False
            for c in n.kids:
                single(c)
        single(t)
        if not ok:
            continue
        key = t.cpp("unit")
        if key in seen or any(abs(e.numerator) > 40 or e.denominator > 12 for e in list(t.dim().values()) + list(t.magm().values())):
            continue
        if len(trees.label_text(t, marker)) > 200:
            continue
        seen.add(key)
        ts.append(t)
    spre = prelude.replace("using namespace au;\n", "using namespace au;\n" + unl_defs) if "using namespace au;\n" in prelude else prelude + unl_defs
    for a in unl:
        pass

    def cppexpr(t):
        return t.cpp("unit").replace("au::Unl", "Unl")

    chunks = [ts[i:i + 60] for i in range(0, len(ts), 60)]

    def readout(arg):
        ci, ch = arg
        ex = extract.Extractor(ctx, prelude=spre, tag="c18_%d" % ci)
        for j, t in enumerate(ch):
            ex.add("l_%d_%d" % (ci, j), "auv::Text", "auv::text(au::unit_label(%s))" % cppexpr(t), group=j)
            ex.add("s_%d_%d" % (ci, j), "unsigned long", "sizeof(au::unit_label(%s))" % cppexpr(t), group=j)
        return ex.run(batch=200)

    vals = {}
    for v in cxx.pmap(readout, list(enumerate(chunks))):
        vals.update(v)
    items = []
    nob = ndis = 0
    for ci, ch in enumerate(chunks):
        for j, t in enumerate(ch):
            key = "label:" + cppexpr(t)
            lv, sv = vals["l_%d_%d" % (ci, j)], vals["s_%d_%d" % (ci, j)]
            if lv[0] == "error" or sv[0] == "error":
                ctx.violation(key + "|hard-error", "unit_label(%s) does not compile: %s" % (cppexpr(t), lv[1] if lv[0] == "error" else sv[1]))
                continue
            size, raw = extract.text_of(lv)
            nob += 1
            text = raw[:-1].decode("latin-1")
            want = trees.label_text(t, marker)
            if raw[-1:] != b"\0" or b"\0" in raw[:-1] or sv[2] != size or size != len(text) + 1:
                ctx.violation(key + "|size", "unit_label(%s): array size %d, sizeof %d, text %r: not a NUL-terminated string of length size-1" % (cppexpr(t), size, sv[2], text))
                continue
            if trees.canon_label(text) != trees.canon_label(want):
                ctx.violation(key + "|text", "unit_label(%s) is %r; the documented grammar gives %r (up to the order of factors)" % (cppexpr(t), text, want),
                              "canonical forms: %r vs %r" % (trees.canon_label(text), trees.canon_label(want)))
                continue
            ndis += 1
            items.append(witness.Item("agree:" + cppexpr(t), "static_assert(auv::streq(au::unit_label(%s), %s) && sizeof(au::unit_label(%s)) == %d, \"label text and size on every compiler\");" % (cppexpr(t), cstr(text), cppexpr(t), len(text) + 1),
                                      "accept", None, dict(desc="label of %s is %r on every compiler" % (cppexpr(t), text))))
    ctx.log("%d trees: labels extracted and compared with the grammar model (%d ok)" % (len(ts), ndis))
    ctx.require(len(ts) >= 250, "only %d trees" % len(ts))

    # ---- library units, prefixes, own-label rule
    recs = unit_like_records(ctx, units)
    lines = []
    nown = 0
    for name, hdr, declares in recs:
        if name in byname:
            u = byname[name]
            nown += 1
            if not declares:
                ctx.violation("ownlabel:%s" % name, "library unit %s (%s) declares no label of its own" % (name, hdr))
        else:
            # a unit-like record that is not a forward-declared library unit (e.g. Rankines): it must
            # print either its own label or a structural / generic one, never a base unit's label
            nown += 1
            if not declares:
                lines.append("static_assert(auv::streq(au::unit_label(au::%s{}), %s) || au::unit_label(au::%s{})[0] == '[', \"%s has no own label: it must print the generic marker or a structural label, not a base unit's\");" % (name, cstr(marker), name, name))
    for u in units:
        lines.append("static_assert(sizeof(au::unit_label(au::%s{})) == %d && au::unit_label(au::%s{})[%d] == '\\0', \"size == length + 1, NUL terminated\");" % (u.name, len(u.label) + 1, u.name, len(u.label)))
    # generated derived units without their own label (user pattern from the docs, minus the label)
    for u in rnd.sample(units, 12):
        lines.append("struct D_%s : decltype(au::%s{} * au::mag<4>()) {};\n" % (u.name, u.name) +
                     "static_assert(auv::streq(au::unit_label(D_%s{}), %s), \"a named unit derived from a scaled unit without its own label prints the generic marker\");\n" % (u.name, cstr(marker)) +
                     "struct DL_%s : decltype(au::%s{} * au::mag<4>()) { static constexpr const char label[] = \"own\"; };\n" % (u.name, u.name) +
                     "static_assert(auv::streq(au::unit_label(DL_%s{}), \"own\"), \"own label wins\");" % u.name)
    for name in sorted(pfx):
        for u in rnd.sample(units, 3):
            lines.append("static_assert(auv::streq(au::unit_label(au::%s<au::%s>{}), %s), \"prefix symbol + label\");" % (name, u.name, cstr(pfx[name]["symbol"] + u.label)))
    for k in range(0, len(lines), 60):
        items.append(witness.Item("own:%d" % (k // 60), "\n".join(lines[k:k + 60]), "accept", None, dict(desc="own-label rule / sizes / prefixed labels, block %d" % (k // 60))))
    # common units: EQUIV{...} grammar
    cu = ["static_assert(auv::streq(au::unit_label(au::CommonUnitT<au::Feet, au::Inches>{}), \"in\"), \"common unit that is an input\");",
          "using CU1 = au::CommonUnitT<au::Meters, au::Feet>;",
          "static_assert(sizeof(au::unit_label(CU1{})) > 10 && au::unit_label(CU1{})[0] == 'E', \"EQUIV label\");"]
    items.append(witness.Item("own:common", "\n".join(cu), "accept", None, dict(desc="common unit labels")))
    exc = extract.Extractor(ctx, prelude=prelude, tag="c18cu")
    cus = [("au::Meters", "au::Feet"), ("au::Hours", "au::Days"), ("au::Miles", "au::Meters"), ("au::Degrees", "au::Radians"),
           # units with different origins: as QUANTITY units their common unit (and its label) ignores the origins
           ("au::Kelvins", "au::Fahrenheit"), ("au::Celsius", "au::Fahrenheit"), ("au::Fahrenheit", "au::Kelvins"),
           # three and more inputs: the label's size depends on the NUMBER of entries that remain after
           # the inputs that are integer multiples of another input have been eliminated
           ("au::Meters", "au::Feet", "au::NauticalMiles"), ("au::Hours", "au::Days", "au::Minutes"), ("au::Miles", "au::Meters", "au::Fathoms", "au::Inches"),
           ("au::Degrees", "au::Radians", "au::Revolutions"), ("au::USGallons", "au::Liters", "au::USPints"), ("au::Meters", "au::Feet", "au::Yards"),
           ("au::Meters", "au::Miles", "au::NauticalMiles", "au::Fathoms", "au::Furlongs"),
           # ... and inputs of which NONE is an integer multiple of another (all entries remain): the
           # library's length and time units are all multiples of inches or of meters, so compounds
           ("au::Knots", "decltype(au::Miles{} / au::Hours{})", "decltype(au::Meters{} / au::Seconds{})"),
           ("au::Liters", "au::USGallons", "decltype(au::pow<3>(au::Feet{}))"),
           ("au::Knots", "decltype(au::Miles{} / au::Hours{})", "decltype(au::Meters{} / au::Seconds{})", "decltype(au::Feet{} / au::Minutes{})", "decltype(au::Yards{} / au::Days{})")]

    class _CU:
        def __init__(self, mag, label):
            self.mag, self.label = mag, label

    def cu_unit(e):
        if e.startswith("au::") and e[4:] in byname:
            return byname[e[4:]]
        m_ = re.match(r"^decltype\(au::(\w+)\{\} / au::(\w+)\{\}\)$", e)
        if m_:
            a_, b_ = byname[m_.group(1)], byname[m_.group(2)]
            return _CU(model.div(a_.mag, b_.mag), "%s / %s" % (a_.label, b_.label))
        m_ = re.match(r"^decltype\(au::pow<(\d+)>\(au::(\w+)\{\}\)\)$", e)
        if m_:
            a_ = byname[m_.group(2)]
            return _CU(model.power(a_.mag, int(m_.group(1))), "%s^%s" % (a_.label, m_.group(1)))
        raise AnalysisBroken("common-unit label input not understood: %s" % e)
    for i, tup in enumerate(cus):
        exc.add("cu_%d" % i, "auv::Text", "auv::text(au::unit_label(au::CommonUnitT<%s>{}))" % ", ".join(tup))
    cv = exc.run()
    for i, tup in enumerate(cus):
        us = [cu_unit(a) for a in tup]
        key = "culabel:" + "|".join(tup)
        nob += 1
        if cv["cu_%d" % i][0] == "error":
            ctx.violation(key, "label of CommonUnitT<%s> does not compile: %s" % (", ".join(tup), str(cv["cu_%d" % i][1])[:300]))
            continue
        text = extract.text_of(cv["cu_%d" % i])[1][:-1].decode("latin-1")
        # an input that is a positive integer multiple of another input adds nothing
        keep = []
        for x, u in enumerate(us):
            red = False
            for y, w in enumerate(us):
                if x == y or not model.mag_is_rational(model.div(u.mag, w.mag)):
                    continue
                q = model.mag_to_fraction(model.div(u.mag, w.mag))
                if q.denominator == 1 and (q > 1 or (q == 1 and y < x)):
                    red = True
            if not red:
                keep.append(u)
        if all(model.mag_is_rational(model.div(u.mag, keep[0].mag)) for u in keep):
            g = model.common_mag(*[u.mag for u in keep])
            if len(keep) == 1:
                want = keep[0].label
            else:
                def sc(k, lab):
                    ml, sl = trees.mag_label(k)
                    return "[%s %s]" % ("(%s)" % ml if sl else ml, lab)
                want = "EQUIV{%s}" % ", ".join(sc(model.div(g, u.mag), u.label) for u in keep)
            if trees.canon_label(text) != trees.canon_label(want):
                ctx.violation(key, "label of CommonUnitT<%s> is %r, the grammar gives %r" % (", ".join(tup), text, want))
                continue
        else:
            if not text.startswith("EQUIV{") or text.count("[") != len(keep):
                ctx.violation(key, "label of CommonUnitT<%s> is %r: expected an EQUIV{...} label with %d entries" % (", ".join(tup), text, len(keep)))
                continue
        ndis += 1
    items += itoa_items() + random_itoa(rnd, 200 if ctx.thorough else 40) + collision_items()
    results, stats = witness.judge(ctx, items, configs, prelude=spre, batch=80, tag="c18")
    nbad = witness.report_mismatches(ctx, items, results, prelude=spre)
    ctx.log("W: %d items, %d mismatching" % (len(items), nbad))

    # ---- streaming: resolved callee sequence
    sel = rnd.sample(units, 20 if ctx.thorough else 6)
    blocks, meta = [], {}
    k = 0

    class _Unlabeled:
        # a unit without a label of its own: what is streamed is the library's marker text, whose
        # storage must exist in the module (in C++14 a static constexpr member needs its
        # out-of-line definition as soon as it is ODR-used, or the program does not link)
        name, label = "VerifNoLabel", marker
    for u in sel + [_Unlabeled]:
        # (long double travels through memory - x87 padding - and is not analysed at IR level);
        # the character types are all distinct from each other: int8_t / uint8_t are `signed char` /
        # `unsigned char`, plain `char` is a third 8-bit type, and the wide ones promote as well
        for r in REPS11[:10] + ["char", "signed char", "unsigned char", "wchar_t", "char16_t"]:
            blocks.append((k, 'extern "C" void prq_%d(std::ostream &os, %s x) { os << au::make_quantity<au::%s>(x); }\n'
                              'extern "C" void prp_%d(std::ostream &os, %s x) { os << au::make_quantity_point<au::%s>(x); }' % (k, r, u.name, k, r, u.name)))
            meta[k] = (u, r)
            k += 1
    ipre = ("#include <cstdint>\n#include <ostream>\n#include \"au/au.hh\"\n#include \"au/io.hh\"\n" + USING + hdrs
            + "namespace au { struct VerifNoLabel : UnitImpl<Length> {}; }\n")
    ns = [0, 0]
    chunks2 = [blocks[i:i + 22] for i in range(0, len(blocks), 22)]

    def stream_events(d, mod):
        ev = []
        for g, e in d.effects:
            cal = e.attr
            if cal == "strlen":
                continue
            if NUM_INSERTER.match(cal):
                ev.append(("num", e.args[1]))
            elif STR_INSERTER.match(cal):
                ptr = e.args[1].attr if e.args[1].op == "opaque" else ""
                m = re.search(r"@([\w.$]+)", ptr)
                if m and m.group(1) in mod.undefined:
                    # the text is known to the compiler but the array has NO definition in this
                    # translation unit (C++14: a static constexpr member without its out-of-line
                    # definition): streaming it ODR-uses it and the program does not link
                    ev.append(("label-storage-without-definition", m.group(1)))
                elif m and m.group(1) in mod.globals:
                    ev.append(("str", mod.globals[m.group(1)].rstrip(b"\0").decode("latin-1")))
                else:
                    ev.append(("char-or-unknown-buffer", ptr[:80]))
            elif CHAR_INSERTER.match(cal):
                ev.append(("char", cal))
            else:
                ev.append(("other", cal))
        return ev

    def do(arg):
        ci, ch = arg
        mod, alive, dropped = irbuild.build_blocks(ctx, ipre, ch, "c18s%d" % ci, only=lambda n: n.startswith("pr"))
        fs = []
        n = nd = 0
        for kk in alive:
            u, r = meta[kk]
            for kind, fn in (("quantity", "prq_%d" % kk), ("point", "prp_%d" % kk)):
                n += 1
                d = dag.build(mod.funcs[fn], mod, lenient=True)
                ev = stream_events(d, mod)
                want = ["num", " ", u.label] if kind == "quantity" else ["@(", "num", " ", u.label, ")"]
                got = [e[0] if e[0] == "num" else (e[1] if e[0] == "str" else "<%s>" % e[0]) for e in ev]
                key = "stream:%s:%s:%s" % (kind, u.name, r)
                if got != want:
                    fs.append((key, "streaming a %s of %s with rep %s emits %s, expected %s (numeric value - never a character -, one space, the unit's label)" % (kind, u.name, r, got, want), ""))
                    continue
                num = [e[1] for e in ev if e[0] == "num"][0]
                base = num
                while base.op in ("sext", "zext", "fpext") or (base.op == "fsub" and const_zero(base.args[1])):
                    base = base.args[0]  # promotions; `x - 0.0` is x for every x (incl. -0.0, NaN)
                if not (base.op == "param" and base.attr == 1):
                    fs.append((key + "|value", "streaming a %s of %s with rep %s prints %s, not the stored value" % (kind, u.name, r, num.pretty()), ""))
                    continue
                if num.ty in ("i8",):
                    fs.append((key + "|char", "streaming a %s of %s with rep %s passes an 8-bit value to the stream" % (kind, u.name, r), ""))
                    continue
                nd += 1
        for kk, msg in dropped.items():
            fs.append(("stream:compile:%s:%s" % (meta[kk][0].name, meta[kk][1]), "streaming wrappers do not compile: %s" % msg, ""))
        return n, nd, fs

    for n, nd, fs in cxx.pmap(do, list(enumerate(chunks2))):
        ns[0] += n
        ns[1] += nd
        for key, what, detail in fs:
            ctx.violation(key, what, detail)
    ctx.require(ns[0] >= 100, "only %d streaming wrappers analysed" % ns[0])
    ctx.coverage.update(dict(
        evaluations=nob + len(items) * len(configs) + ns[0], distinct_nontrivial=nob + len(items) + ns[0],
        rule="label text and sizeof of seeded unit expression trees (labelled and unlabelled atoms, integer / rational / irrational scalings, negative and fractional exponents, prefixes, nested products) extracted from the constant evaluator and compared, up to the order of factors, with the documented grammar; re-asserted on both compilers; own-label rule over every unit-like record of au/units (S) with derived-without-label units; prefix x unit labels; common-unit EQUIV labels (also for units with different origins, whose quantity common unit ignores them); IToA/UIToA on boundary and seeded 64-bit integers; streaming wrappers per (unit, 10 arithmetic reps + char / signed char / unsigned char / wchar_t / char16_t, quantity|point): resolved callee sequence in the IR",
        samples=[dict(tree=cppexpr(ts[0]), model_label=trees.label_text(ts[0], marker))], exhaustive=False,
        trees=len(ts), label_obligations=nob, label_discharged=ndis, unit_like_records=len(recs), marker=marker,
        w_items=len(items), w_mismatches=nbad, streaming_wrappers=ns[0], streaming_ok=ns[1], configs=[c.name for c in configs], engine_stats=stats))
    ctx.assumptions += ["the order of factors inside a product label is not part of the grammar: labels are compared after sorting factors",
                        "prefix / scaling of a multi-factor compound is excluded from the text comparison (its flat text is ambiguous)"]


def main(argv=None):
    return common.run_check(PROP, "exploration", body, argv)


if __name__ == "__main__":
    sys.exit(main())
