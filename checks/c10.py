"""C10 - the common point unit keeps every input integral and non-negative  (W + model)."""
import itertools
import random
import sys
from fractions import Fraction

from vlib import common, cxx, witness, model, extract
from vlib.common import AnalysisBroken
from checks import points

PROP = "C10"


def scaled(root, t):
    """anonymous ScaledUnit of `root` with size t (origin: the root's)"""
    f = Fraction(t) / root.m
    cpp = "decltype(%s{} * (%s))" % (root.cpp, points.mexpr(f))
    return points.PUnit("%s*%s" % (root.name, f), cpp, root.defs, t, root.o, root.o_unit, root.o_val, root.o_rep)


def equal_size_members(rnd, lib, li):
    t = rnd.choice([Fraction(5, 9), Fraction(1), Fraction(1, 1000), Fraction(1, 100), Fraction(1, 10), Fraction(7, 3)])
    roots = list(lib)
    for j in range(2):
        ou = Fraction(1, rnd.choice([1, 100, 1000]))
        roots.append(points.generated("E%d_%d" % (li, j), "au::Kelvins", rnd.choice([Fraction(1), Fraction(5, 9), Fraction(1, 1000), Fraction(3, 7)]),
                                      ou, rnd.randrange(-40000, 40000)))
    named = [r for r in roots if r.m == t]
    k = rnd.choice([3, 3, 4])
    members = []
    if named and rnd.random() < 0.85:
        members.append(rnd.choice(named))
    tries = 0
    while len(members) < k and tries < 40:
        tries += 1
        r = rnd.choice(roots)
        if r.m == t:
            cand = r
        else:
            cand = scaled(r, t)
        if all(cand.o != m.o and cand.cpp != m.cpp for m in members):
            members.append(cand)
    rnd.shuffle(members)
    return members


def make_lists(ctx, rnd):
    lib = points.read_library(ctx)
    lists = []
    n = 2000 if ctx.thorough else 140
    gid = 0
    for li in range(n):
        k = rnd.choice([2, 2, 3])
        members = []
        for j in range(k):
            r = rnd.random()
            if r < 0.4:
                members.append(rnd.choice(lib))
            else:
                gid += 1
                m = Fraction(rnd.randrange(1, 1000), rnd.randrange(1, 1000)) if rnd.random() < 0.7 else Fraction(rnd.choice([1, 10, 1000]))
                kind = rnd.random()
                if kind < 0.2:
                    members.append(points.generated("L%d_%d" % (li, j), "au::Kelvins", m, None, None))
                else:
                    ou = Fraction(rnd.randrange(1, 1000), rnd.randrange(1, 1000)) if rnd.random() < 0.6 else Fraction(1, rnd.choice([1, 100, 1000]))
                    ov = rnd.randrange(-40000, 40000) if rnd.random() < 0.85 else 0
                    members.append(points.generated("L%d_%d" % (li, j), "au::Kelvins", m, ou, ov))
        if rnd.random() < 0.3:
            # equal sizes, different origins, named and anonymous scaled units side by side: the
            # ordering criteria below the size (scale factor, origin, avoidance) decide alone
            members = equal_size_members(rnd, lib, li)
        # exclusion (documented ordering limitation): two distinct types with identical size and origin
        bad = False
        for a, b in itertools.combinations(members, 2):
            if a.cpp != b.cpp and a.m == b.m and a.o == b.o:
                bad = True
        if len({m.cpp for m in members}) < 2:
            bad = True
        # a generated unit identical to the base unit (size 1, origin 0) ties with au::Kelvins, which
        # always takes part through the units the origins are expressed in
        if any(m.defs and m.m == 1 and m.o == 0 for m in members):
            bad = True
        if not bad:
            lists.append(members)
    # the origin's REP is the user's choice too: an unsigned origin (kelvins(5u)) next to a negative
    # signed one is compared in the unsigned common type (known finding K-5); always present
    for j, (mu, ou_, ov_, ms, os_, ovs) in enumerate([(Fraction(1), Fraction(1), 5, Fraction(1, 2), Fraction(1), -5),
                                                      (Fraction(1, 10), Fraction(1, 100), 27315, Fraction(1), Fraction(1, 10), -40),
                                                      (Fraction(5, 9), Fraction(1), 0, Fraction(1), Fraction(1), -273)]):
        lists.append([points.generated("U%d_0" % j, "au::Kelvins", mu, ou_, ov_, unsigned_origin=True),
                      points.generated("U%d_1" % j, "au::Kelvins", ms, os_, ovs, int_origin=True)])
    # ... and unsigned origins among non-negative ones (compared correctly)
    for j in range(4):
        lists.append([points.generated("V%d_0" % j, "au::Kelvins", Fraction(rnd.randrange(1, 50), rnd.randrange(1, 50)), Fraction(1, rnd.choice([1, 10, 100])), rnd.randrange(0, 30000), unsigned_origin=True),
                      points.generated("V%d_1" % j, "au::Kelvins", Fraction(rnd.randrange(1, 50), rnd.randrange(1, 50)), Fraction(1, rnd.choice([1, 10, 100])), rnd.randrange(0, 30000))])
    return lib, lists


def point_conversion_ok(A, B, R):
    """Is the unit-only conversion of a point from unit A to unit B accepted for rep R?  The library
    shifts by the displacement between the origins - a quantity in the common unit g of the units the
    two origins are written in - and then converts: the displacement must fit R, the value and the
    displacement must reach their common unit c under the implicit policy, and so must c -> B."""
    if model.is_fp(R):
        return True

    def M(fr):
        return model.mag_from_fraction(Fraction(fr))
    D = A.o - B.o
    if D == 0:
        return model.implicit_ok(model.div(M(A.m), M(B.m)), R, R)
    g = model.common_mag(*[M(u) for u in (A.o_unit, B.o_unit) if u is not None])
    val = D / model.mag_to_fraction(g)
    lo, hi = model.int_range(R)
    if val.denominator != 1 or not (lo <= val <= hi):
        return False
    c = model.common_mag(M(A.m), g)
    return (model.implicit_ok(model.div(M(A.m), c), R, R) and model.implicit_ok(model.div(g, c), R, R) and
            model.implicit_ok(model.div(c, M(B.m)), R, R))


def policy_items(lib, rnd, thorough):
    """The safety surface of point conversions: for every ordered pair of library point units and
    every integral rep, `.as(unit)` and `.in(unit)` (one witness each) compile exactly when the model
    above says so - in particular for reps narrower than int, where the arithmetic itself runs in
    int and only the policy keeps the narrow rep from wrapping."""
    items = []
    pairs = list(itertools.permutations(lib, 2))
    if not thorough:
        pairs = [p for p in pairs if rnd.random() < 0.5]
    for A, B in pairs:
        for R in ("int8_t", "uint8_t", "int16_t", "uint16_t", "int32_t", "int64_t"):
            exp = point_conversion_ok(A, B, R)
            for form, call in (("as", ".as(%s{})" % B.cpp), ("in", ".in(%s{})" % B.cpp)):
                items.append(witness.Item("policy:%s:%s->%s/%s" % (form, A.name, B.name, R),
                                          "void w() { (void)au::make_quantity_point<%s>(std::%s{1})%s; }" % (A.cpp, R, call), "accept" if exp else "reject", None,
                                          dict(desc="point %s %s with rep %s: %s by the policy (origin displacement %s)" % (A.name, call, R, "permitted" if exp else "refused", A.o - B.o))))
    return items


def mixed_signedness(members):
    return any(m.o_rep == "unsigned" for m in members) and any(m.o < 0 for m in members)


def body(ctx):
    rnd = random.Random(ctx.seed)
    configs = cxx.configs_for(ctx.tier)
    lib, lists = make_lists(ctx, rnd)
    ctx.require(len(lists) >= 100, "only %d lists" % len(lists))
    prelude = witness.DEFAULT_PRELUDE + points.TEMP_HDRS
    # phase 1: read out size and origin of every common point unit
    chunks = [list(range(i, min(i + 40, len(lists)))) for i in range(0, len(lists), 40)]

    def readout(idxs):
        defs = "\n".join(sorted({m.defs for i in idxs for m in lists[i] if m.defs}))
        ex = extract.Extractor(ctx, prelude=prelude + defs + "\n", tag="c10_%d" % idxs[0])
        for i in idxs:
            C = "au::CommonPointUnitT<%s>" % ", ".join(m.cpp for m in lists[i])
            ex.add("cm_%d" % i, "auv::Flat", "auv::flat(auv::mag_of<%s>())" % C, group=i)
            ex.add("cv_%d" % i, "long long", "auv::origin_val<%s>()" % C, group=i)
            ex.add("cu_%d" % i, "auv::Flat", "auv::origin_unit_mag<%s>()" % C, group=i)
            ex.add("ci_%d" % i, "bool", "auv::origin_is_integral<%s>()" % C, group=i)
        return ex.run()

    vals = {}
    for v in cxx.pmap(readout, chunks):
        vals.update(v)
    items = []
    nob = ndis = 0
    skipped_overflow = []
    for i, members in enumerate(lists):
        key = "list%d:%s" % (i, "|".join(m.cpp for m in members))
        for k in ("cm_%d" % i, "cv_%d" % i, "cu_%d" % i, "ci_%d" % i):
            if vals[k][0] == "error":
                nice = all(m.o_unit is None or m.o_unit in (1, Fraction(1, 10), Fraction(1, 100), Fraction(1, 1000)) or not m.defs for m in members)
                if "not a constant expression" in vals[k][1] and not nice:
                    # comparing origins given in awkward units overflows the origins' rep inside the
                    # constant evaluator: the common point unit does not exist; nothing to decide
                    skipped_overflow.append(key)
                else:
                    ctx.violation(("origin-rep-signedness|exists" if mixed_signedness(members) else key + "|exists"), "CommonPointUnitT of [%s] is ill-formed: %s" % (", ".join(repr(m) for m in members), vals[k][1]))
                break
        else:
            mC = model.mag_to_fraction(dict(extract.flat_to_pack(vals["cm_%d" % i])))
            ov = vals["cv_%d" % i][2]
            ov = ov - (1 << 64) if ov >= 1 << 63 else ov
            oC = model.mag_to_fraction(dict(extract.flat_to_pack(vals["cu_%d" % i]))) * ov
            ctx.require(bool(vals["ci_%d" % i][2]), "origin of a common point unit is not integral: cannot be read exactly")
            lines = ["\n".join(sorted({m.defs for m in members if m.defs}))]
            ts = [m.cpp for m in members]
            lines.append("using C = au::CommonPointUnitT<%s>;" % ", ".join(ts))
            ok_all = True
            for m in members:
                nob += 2
                ratio = m.m / mC
                off = (m.o - oC) / mC
                if not (ratio.denominator == 1 and ratio > 0):
                    ok_all = False
                    ctx.violation(("origin-rep-signedness|ratio" if mixed_signedness(members) else key + "|ratio:" + m.cpp), "converting from %s to the common point unit of [%s] multiplies by %s, not a positive integer (sizes %s and %s)"
                                  % (m.cpp, ", ".join(ts), ratio, m.m, mC), "\n".join(repr(x) for x in members))
                else:
                    ndis += 1
                if not (off.denominator == 1 and off >= 0):
                    ok_all = False
                    ctx.violation(("origin-rep-signedness|offset" if mixed_signedness(members) else key + "|offset:" + m.cpp), "converting from %s to the common point unit of [%s] adds %s, not a non-negative integer (origins %s and %s, common size %s)"
                                  % (m.cpp, ", ".join(ts), off, m.o, oC, mC), "\n".join(repr(x) for x in members))
                else:
                    ndis += 1
                if ok_all and abs(int(ratio) * 7 + int(off)) < 2 ** 40 and 1 / mC < 2 ** 20:
                    # cross-check against the library's own conversion and origin_displacement (constant
                    # expressions; only where every intermediate certainly fits long long)
                    for x in (0, 1, 7):
                        lines.append("static_assert(au::make_quantity_point<%s>(%dLL).coerce_in<long long>(C{}) == %dLL, \"conversion to the common point unit is x*%d + %d\");"
                                     % (m.cpp, x, int(ratio) * x + int(off), int(ratio), int(off)))
                    if off == 0:
                        lines.append("static_assert(au::origin_displacement(C{}, %s{}) == au::ZERO, \"no displacement\");" % m.cpp)
                    else:
                        lines.append("static_assert(au::origin_displacement(C{}, %s{}) == au::make_quantity<C>(%dLL), \"origin displacement\");" % (m.cpp, int(off)))
            # the operators that go through the common point unit, with operands of DIFFERENT reps: the
            # conversion happens in the common rep (a narrow operand is widened first, so a value
            # whose image leaves its own rep is still exact)
            if ok_all and len(members) == 2:
                ma, mb = members[0], members[1]
                ra, rb = ma.m / mC, mb.m / mC
                oa, ob = (ma.o - oC) / mC, (mb.o - oC) / mC
                xa, xb = 200, 3
                va, vb = int(ra) * xa + int(oa), int(rb) * xb + int(ob)
                if max(abs(va), abs(vb), abs(va - vb)) < 2 ** 40 and int(ra) < 2 ** 30 and int(rb) < 2 ** 30:
                    pa = "au::make_quantity_point<%s>(std::uint8_t{%d})" % (ma.cpp, xa)
                    pb = "au::make_quantity_point<%s>(std::int64_t{%d})" % (mb.cpp, xb)
                    lines.append("static_assert((%s < %s) == %s && (%s > %s) == %s && (%s == %s) == %s, \"mixed-rep comparison through the common point unit\");"
                                 % (pa, pb, "true" if va < vb else "false", pa, pb, "true" if va > vb else "false", pa, pb, "true" if va == vb else "false"))
                    lines.append("static_assert((%s - %s) == au::make_quantity<C>(std::int64_t{%d}), \"mixed-rep point difference in the common point unit\");" % (pa, pb, va - vb))
                    lines.append("static_assert(std::is_same<decltype(%s - %s), au::Quantity<C, std::int64_t>>::value, \"difference type\");" % (pa, pb))
            for p in list(itertools.permutations(ts))[1:]:
                lines.append("static_assert(std::is_same<C, au::CommonPointUnitT<%s>>::value, \"permutation\");" % ", ".join(p))
            lines.append("static_assert(std::is_same<C, au::CommonPointUnitT<%s>>::value, \"repetition\");" % ", ".join(ts + [ts[0]]))
            lines.append("static_assert(std::is_same<C, au::CommonPointUnitT<%s>>::value, \"repetition\");" % ", ".join([ts[-1]] + ts))
            if len(ts) >= 3:
                for a in range(len(ts)):
                    others = [t for j, t in enumerate(ts) if j != a]
                    lines.append("static_assert(std::is_same<au::CommonPointUnitT<au::CommonPointUnitT<%s>, %s>, au::CommonPointUnitT<%s, au::CommonPointUnitT<%s>>>::value, \"nesting commutes\");"
                                 % (", ".join(others), ts[a], ts[a], ", ".join(others)))
                    # (that the nested unit is point-EQUIVALENT to the flat one is not demanded: C10 speaks of
                    #  orderings and repetitions of the inputs.  It is not always true either - an input whose
                    #  zero origin is spelled in an odd unit, `0 x [452/57 K]`, contributes that unit's magnitude
                    #  only when it meets a DISPLACED input directly; see DESIGN.md 4.3)
            # the function forms and the maker forms name the same unit
            lines.append("static_assert(std::is_same<decltype(au::common_point_unit(%s)), C>::value, \"common_point_unit(u...)\");" % ", ".join("%s{}" % t for t in ts))
            lines.append("static_assert(std::is_same<decltype(au::common_point_unit(%s)), C>::value, \"common_point_unit(u...) reversed\");" % ", ".join("%s{}" % t for t in reversed(ts)))
            lines.append("static_assert(std::is_same<decltype(au::make_common_point(%s)), au::QuantityPointMaker<C>>::value, \"make_common_point(point makers)\");" % ", ".join("au::QuantityPointMaker<%s>{}" % t for t in ts))
            lines.append("static_assert(std::is_same<decltype(au::common_point_unit(%s)), C>::value, \"common_point_unit(point makers)\");" % ", ".join("au::QuantityPointMaker<%s>{}" % t for t in ts))
            winners = sorted({m.cpp for m in members if m.m == mC and m.o == oC})
            if winners:
                lines.append("static_assert(%s, \"an input that already has the common size and origin is the result\");" % " || ".join("std::is_same<C, %s>::value" % w for w in winners))
            if mixed_signedness(members):
                continue  # (the model values above are what the finding is about; no witness program for these)
            items.append(witness.Item(key, "\n".join(lines), "accept", None, dict(desc="common point unit of [%s] (size %s, origin %s)" % (", ".join(repr(m) for m in members), mC, oC))))
    neq = sum(1 for l in lists if len(l) >= 3 and len({m.m for m in l}) == 1 and any("decltype" in m.cpp for m in l))
    ctx.require(neq >= len(lists) // 10, "only %d lists of three or more equal-size units with an anonymous scaled member" % neq)
    ctx.require(len(skipped_overflow) * 4 <= len(lists), "%d of %d lists have no common point unit (origin comparison overflows)" % (len(skipped_overflow), len(lists)))
    pitems = policy_items(lib, rnd, ctx.thorough)
    ctx.require(sum(1 for it in pitems if it.expect == "accept") >= 40 and sum(1 for it in pitems if it.expect == "reject") >= 100, "policy surface: too few accepted / refused conversions generated")
    items += pitems
    results, stats = witness.judge(ctx, items, configs, prelude=prelude, batch=25, tag="c10")
    nbad = witness.report_mismatches(ctx, items, results, prelude=prelude)
    ctx.coverage.update(dict(
        evaluations=len(lists) + len(items) * len(configs), distinct_nontrivial=len(lists),
        rule="one seeded list (pair or triple) of point units from {Kelvins, Celsius, Fahrenheit, prefixed forms} and generated units with rational size (num, den < 1000) and rational origin (positive, zero, negative, expressed in another unit, held in a signed or an unsigned rep): size and origin of CommonPointUnitT are read out of the type; ratio and offset of every input are decided exactly in the model; in three lists of ten the members have EQUAL size and pairwise different origins and mix named units with anonymous scaled units of library / generated roots (Celsius*5/9, Kilo<Kelvins>/1800 next to Fahrenheit), so that the ordering criteria below the size decide; permutation / repetition identity, nesting, the function forms (common_point_unit, make_common_point and common_point_unit over point makers), winner-is-an-input, the accept / refuse surface of unit-only point conversions between library point units for six integral reps (modelled from the implicit policy: displacement fits, value and displacement reach their common unit, then the target), mixed-rep comparison and difference of two members (a uint8_t value whose image leaves its own rep against an int64_t one: exact in the common rep) and agreement with the library's own conversion and origin_displacement are static_asserts",
        samples=[dict(list=[repr(m) for m in lists[0]])], exhaustive=False,
        lists=len(lists), lists_equal_size_three_or_more=neq, lists_without_common_point_unit_overflowing_origin_comparison=len(skipped_overflow), model_obligations=nob, model_discharged=ndis, w_items=len(items), w_mismatches=nbad, configs=[c.name for c in configs], engine_stats=stats))
    ctx.assumptions += ["maximality of the common point unit is NOT demanded (the statement does not ask for it)"]


def main(argv=None):
    return common.run_check(PROP, "exploration", body, argv)


if __name__ == "__main__":
    sys.exit(main())
