"""C16 - constants convert exactly or not at all  (W + I + model)."""
import random
import sys
from fractions import Fraction

from vlib import common, cxx, witness, atoms, model, extract, ir, dag, irbuild
from vlib.common import AnalysisBroken
from checks.c07 import mag_cpp
from checks.c11 import model_repr, c_lit, INT_T, FP_T, USING, real_value
from checks.c14 import unit_assert

PROP = "C16"
TYPES = INT_T + FP_T


def ratio_grid(rnd, thorough):
    g = []

    def add(m, nm):
        g.append((model.norm(m), nm))

    for n in (1, 2, 1000, 127, 128, 255, 256, 32767, 32768, 65535, 65536, 2 ** 31 - 1, 2 ** 31, 2 ** 32 - 1, 2 ** 32, 2 ** 63 - 1, 2 ** 63, 2 ** 64 - 1):
        add(model.factor(n), str(n))
    add({2: Fraction(64)}, "2^64")
    add(model.mag_from_fraction(Fraction(1, 3)), "1/3")
    add(model.mag_from_fraction(Fraction(7, 5)), "7/5")
    # prime factors in [2^63, 2^64): the base itself does not fit the signed widened type
    add({2 ** 64 - 59: Fraction(1)}, "2^64-59")
    add({9223372036854775837: Fraction(1)}, "2^63+29")
    add({2 ** 64 - 59: Fraction(1), 2: Fraction(-70)}, "(2^64-59)/2^70")
    add({2 ** 61 - 1: Fraction(1)}, "2^61-1")
    add({2 ** 61 - 1: Fraction(2)}, "(2^61-1)^2")
    add({model.PI_ID: Fraction(1)}, "pi")
    add({2: Fraction(1, 2)}, "sqrt2")
    add(model.power(model.mag_from_fraction(10), 30), "10^30")
    add(model.power(model.mag_from_fraction(10), 39), "10^39")
    add(model.power(model.mag_from_fraction(10), -30), "10^-30")
    add(model.power(model.mag_from_fraction(10), 309), "10^309")
    add({2: Fraction(-200)}, "2^-200")
    # the subnormal band of float and double (exactly representable ratios and one that underflows)
    add({2: Fraction(-127)}, "2^-127")
    add({2: Fraction(-130), 3: Fraction(1)}, "3*2^-130")
    add({2: Fraction(-140)}, "2^-140")
    add({2: Fraction(-149)}, "2^-149")
    add({2: Fraction(-150)}, "2^-150")
    add({2: Fraction(-1023)}, "2^-1023")
    add({2: Fraction(-1030), 5: Fraction(1)}, "5*2^-1030")
    add({2: Fraction(-1060)}, "2^-1060")
    add({2: Fraction(-1074)}, "2^-1074")
    add(model.mag_from_fraction(299792458), "299792458")
    if not thorough:
        keep = {"1", "1000", "127", "128", "256", "65535", "65536", "2147483647", "2147483648", "4294967296", "9223372036854775807", "9223372036854775808",
                "18446744073709551615", "2^64", "1/3", "2^61-1", "2^64-59", "2^63+29", "(2^64-59)/2^70", "pi", "10^30", "10^39", "10^309", "2^-200", "299792458", "7/5", "2^-127", "2^-140", "5*2^-1030", "2^-1060", "2^-150"}
        g = [x for x in g if x[1] in keep]
    return g


def body(ctx):
    rnd = random.Random(ctx.seed)
    configs = cxx.configs_for(ctx.tier)
    units = atoms.discover_units(ctx)
    consts = atoms.discover_constants(ctx)
    hdrs = atoms.unit_includes(units) + "".join('#include "%s"\n' % h for h in sorted({c[1] for c in consts}))
    prelude = witness.DEFAULT_PRELUDE + USING + hdrs
    atoms.readout_units(ctx, units, prelude)
    byname = {u.name: u for u in units}
    # library constants: read their unit out of the tree
    ex = extract.Extractor(ctx, prelude=prelude, tag="c16c")
    for nm, h in consts:
        U = "au::AssociatedUnitT<std::decay_t<decltype(au::%s)>>" % nm
        ex.add("cd_%s" % nm, "auv::Flat", "auv::flat(auv::dim_of<%s>())" % U)
        ex.add("cm_%s" % nm, "auv::Flat", "auv::flat(auv::mag_of<%s>())" % U)
    vals = ex.run()
    cons = []  # (name, C++ constant expr, C++ unit type, definitions, dim, mag)
    for nm, h in consts:
        for k in ("cd_" + nm, "cm_" + nm):
            ctx.require(vals[k][0] != "error", "cannot read unit of constant %s: %s" % (nm, vals[k][1]))
        cons.append((nm, "au::%s" % nm, "au::AssociatedUnitT<std::decay_t<decltype(au::%s)>>" % nm, "",
                     dict(extract.flat_to_pack(vals["cd_" + nm], signed_ids=True)), dict(extract.flat_to_pack(vals["cm_" + nm]))))
    # generated constants
    gen = [("g_speed", "(au::Meters{} / au::Seconds{} * au::mag<299792458>())", model.div(byname["Meters"].dim, byname["Seconds"].dim), model.mag_from_fraction(299792458)),
           ("g_compound", "(au::Joules{} * au::Seconds{} / au::Moles{} * au::mag<7>() / au::mag<3>())",
            model.div(model.mul(byname["Joules"].dim, byname["Seconds"].dim), byname["Moles"].dim), model.mul(model.div(model.mul(byname["Joules"].mag, byname["Seconds"].mag), byname["Moles"].mag), model.mag_from_fraction(Fraction(7, 3)))),
           ("g_hugeprime", "(au::Feet{} * au::mag<2305843009213693951ULL>())", byname["Feet"].dim, model.mul(byname["Feet"].mag, {2 ** 61 - 1: Fraction(1)})),
           ("g_pi", "(au::Radians{} * au::Magnitude<au::Pi>{})", byname["Radians"].dim, {model.PI_ID: Fraction(1)}),
           ("g_unity", "au::UnitProductT<>{}", {}, {})]
    for nm, ue, dim, mag in gen:
        cons.append((nm, "au::make_constant(%s)" % ue, "decltype(%s)" % ue, "", dim, mag))
    ctx.require(len(consts) >= 9, "only %d library constants" % len(consts))

    grid = ratio_grid(rnd, ctx.thorough)
    triples = []
    for c in cons:
        rs = grid if ctx.thorough or c[0] in ("SPEED_OF_LIGHT", "g_compound", "g_unity") else rnd.sample(grid, 9)
        for (rm, rn) in rs:
            ts = TYPES if ctx.thorough else rnd.sample(INT_T, 3) + FP_T
            for t in ts:
                triples.append((c, rm, rn, t))
    ctx.log("%d constants, %d (constant, target unit, type) triples" % (len(cons), len(triples)))
    ctx.require(len(triples) >= 600, "grid shrank: %d triples" % len(triples))

    # phase 1: can_store_value_in and values from the constant evaluator
    chunks = [triples[i:i + 80] for i in range(0, len(triples), 80)]

    def readout(arg):
        ci, ch = arg
        ex = extract.Extractor(ctx, prelude=prelude, tag="c16_%d" % ci)
        for j, (c, rm, rn, t) in enumerate(ch):
            pre = "struct T_%d_%d : decltype(%s{} / (%s)) {};" % (ci, j, c[2], mag_cpp(rm))
            ex.add("s_%d_%d" % (ci, j), "bool", "std::decay_t<decltype(%s)>::can_store_value_in<%s>(T_%d_%d{})" % (c[1], t, ci, j), pre=pre, group=j)
        return ci, ex.run(batch=400)

    vals = {}
    for ci, v in cxx.pmap(readout, list(enumerate(chunks))):
        vals.update(v)
    items = []
    nob = ndis = 0
    for ci, ch in enumerate(chunks):
        for j, (c, rm, rn, t) in enumerate(ch):
            key = "%s/%s->%s" % (c[0], rn, t)
            sv = vals["s_%d_%d" % (ci, j)]
            if sv[0] == "error":
                ctx.violation(key + "|hard-error", "can_store_value_in<%s> for constant %s and a unit %s times smaller is a hard error: %s" % (t, c[0], rn, sv[1]))
                continue
            rep, want, ulp = model_repr(rm, t)
            got = bool(sv[2])
            if rep == "either":
                rep = got
            nob += 1
            if got != rep:
                ctx.violation(key + "|can_store", "%s.can_store_value_in<%s>(unit) is %s although the exact ratio %s %s representable in %s" % (c[0], t, got, rn, "IS" if rep else "is NOT", t))
                continue
            ndis += 1
            h = "struct TU : decltype(%s{} / (%s)) {}; constexpr auto C = %s;\n" % (c[2], mag_cpp(rm), c[1])
            if rep:
                if model.is_int(t):
                    lit = c_lit(want, t)
                    cmpv = "== %s" % lit
                else:
                    v, _ = real_value(rm)
                    # 4 ulp window as two hex-float bounds
                    lo, hi = v - 4 * ulp, v + 4 * ulp
                    cmpv = None
                code = h
                if model.is_int(t):
                    code += ("static_assert(C.in<%s>(TU{}) %s, \"in<T>(u)\");\nstatic_assert(C.as<%s>(TU{}).in(TU{}) %s, \"as<T>(u)\");\n"
                             "constexpr au::Quantity<TU, %s> q = C; static_assert(q.in(TU{}) %s, \"implicit conversion\");\n"
                             "static_assert(C.coerce_in<%s>(TU{}) %s, \"coerce_in agrees when representable\");" % (t, cmpv, t, cmpv, t, cmpv, t, cmpv))
                else:
                    lo_l, hi_l = c_lit_any(lo, t), c_lit_any(hi, t)
                    code += ("static_assert(C.in<%s>(TU{}) > 0 && C.in<%s>(TU{}) >= %s && C.in<%s>(TU{}) <= %s, \"in<T>(u) within 4 ulp\");\n"
                             "static_assert(C.as<%s>(TU{}).in(TU{}) == C.in<%s>(TU{}), \"as<T>(u)\");\n"
                             "constexpr au::Quantity<TU, %s> q = C; static_assert(q.in(TU{}) == C.in<%s>(TU{}), \"implicit conversion\");" % (t, t, lo_l, t, hi_l, t, t, t, t))
                items.append(witness.Item("ok:" + key, code, "accept", None, dict(desc="constant %s in a unit %s times smaller as %s: available and exact" % (c[0], rn, t))))
            else:
                for form, stmt in (("in", "(void)C.in<%s>(TU{});" % t), ("as", "(void)C.as<%s>(TU{});" % t), ("implicit", "au::Quantity<TU, %s> q = C; (void)q;" % t)):
                    items.append(witness.Item("no:%s:%s" % (form, key), "struct TU : decltype(%s{} / (%s)) {};\nvoid w() { constexpr auto C = %s; %s }" % (c[2], mag_cpp(rm), c[1], stmt),
                                              "reject", None, dict(desc="constant %s in a unit %s times smaller is not representable in %s: `%s` must not compile" % (c[0], rn, t, stmt))))
    # composition: only the unit changes
    for c in cons:
        lines = ["constexpr auto C = %s; using CU = %s;" % (c[1], c[2])]
        sec, m = byname["Seconds"], byname["Meters"]
        cases = [("C * au::mag<3>()", c[4], model.mul(c[5], model.mag_from_fraction(3))),
                 ("C / au::mag<7>()", c[4], model.mul(c[5], model.mag_from_fraction(Fraction(1, 7)))),
                 ("C * C", model.power(c[4], 2), model.power(c[5], 2)),
                 ("C * au::make_constant(au::Seconds{})", model.mul(c[4], sec.dim), model.mul(c[5], sec.mag)),
                 ("C / au::make_constant(au::Meters{})", model.div(c[4], m.dim), model.div(c[5], m.mag)),
                 ("C * au::seconds", model.mul(c[4], sec.dim), model.mul(c[5], sec.mag)),
                 ("C / au::meters", model.div(c[4], m.dim), model.div(c[5], m.mag)),
                 ("C * au::second", model.mul(c[4], sec.dim), model.mul(c[5], sec.mag)),
                 ("pow<3>(C)", model.power(c[4], 3), model.power(c[5], 3)),
                 ("pow<-2>(C)", model.power(c[4], -2), model.power(c[5], -2)),
                 ("root<2>(C)", model.power(c[4], Fraction(1, 2)), model.power(c[5], Fraction(1, 2))),
                 ("(5 * C)", c[4], c[5]), ("(C * 5.0)", c[4], c[5]), ("(2.0 / C)", model.inv(c[4]), model.inv(c[5])),
                 ("(au::meters(4) * C)", model.mul(c[4], m.dim), model.mul(c[5], m.mag)), ("(C * au::meters(4))", model.mul(c[4], m.dim), model.mul(c[5], m.mag)),
                 ("(au::meters(4) / C)", model.div(m.dim, c[4]), model.div(m.mag, c[5])), ("(C / au::meters(4.0))", model.div(c[4], m.dim), model.div(c[5], m.mag))]
        for n, (exr, dim, mag) in enumerate(cases):
            lines.append("using E%d = au::AssociatedUnitT<std::decay_t<decltype(%s)>>;" % (n, exr) if not exr.startswith("(") else "using E%d = typename std::decay_t<decltype(%s)>::Unit;" % (n, exr))
            lines.append(unit_assert("E%d" % n, dim, mag, "e%d" % n))
        lines.append("static_assert((5 * C).in(CU{}) == 5 && (C * 5.0).in(CU{}) == 5.0 && (2.0 / C).in(au::pow<-1>(CU{})) == 2.0, \"stored number unchanged\");")
        lines.append("static_assert((au::meters(4) * C).in(au::Meters{} * CU{}) == 4 && (C * au::meters(4)).in(CU{} * au::Meters{}) == 4 && (au::meters(4) / C).in(au::Meters{} / CU{}) == 4 && (C / au::meters(4.0)).in(CU{} / au::Meters{}) == 0.25, \"stored number unchanged\");")
        items.append(witness.Item("compose:" + c[0], "\n".join(lines), "accept", None, dict(desc="products / quotients / powers of constant %s change only the unit" % c[0])))
        for nm, stmt in (("div_int", "(void)(C / 2);"), ("div_int_quantity", "(void)(C / au::meters(2));"), ("times_point", "(void)(C * au::meters_pt(2));"), ("point_times", "(void)(au::meters_pt(2.0) * C);")):
            items.append(witness.Item("forbid:%s:%s" % (nm, c[0]), "void w() { constexpr auto C = %s; %s }" % (c[1], stmt), "reject", None,
                                      dict(desc="forbidden form with constant %s: `%s`" % (c[0], stmt))))
    results, stats = witness.judge(ctx, items, configs, prelude=prelude, batch=80, tag="c16")
    nbad = witness.report_mismatches(ctx, items, results, prelude=prelude)
    ctx.log("W: %d items, %d mismatching" % (len(items), nbad))

    # I: multiplying / dividing by a constant is the identity on the stored number
    blocks, meta = [], {}
    k = 0
    for c in cons:
        for r in ("int32_t", "double", "uint8_t", "float", "int64_t"):
            ls = ["static constexpr auto KC%d = %s;" % (k, c[1]),
                  'extern "C" %s id_nc_%d(%s x) { auto r = x * KC%d; return r.in(decltype(r)::unit); }' % (r, k, r, k),
                  'extern "C" %s id_cn_%d(%s x) { auto r = KC%d * x; return r.in(decltype(r)::unit); }' % (r, k, r, k),
                  'extern "C" %s id_qc_%d(%s x) { auto r = au::meters(x) * KC%d; return r.in(decltype(r)::unit); }' % (r, k, r, k),
                  'extern "C" %s id_cq_%d(%s x) { auto r = KC%d * au::meters(x); return r.in(decltype(r)::unit); }' % (r, k, r, k),
                  'extern "C" %s id_qdc_%d(%s x) { auto r = au::meters(x) / KC%d; return r.in(decltype(r)::unit); }' % (r, k, r, k)]
            blocks.append((k, "\n".join(ls)))
            meta[k] = (c[0], r)
            k += 1
    ipre = "#include <cstdint>\n#include \"au/au.hh\"\n#include \"au/constant.hh\"\n" + USING + hdrs
    chunks2 = [blocks[i:i + 20] for i in range(0, len(blocks), 20)]
    ni = [0, 0]

    def do(arg):
        ci, ch = arg
        mod, alive, dropped = irbuild.build_blocks(ctx, ipre, ch, "c16i%d" % ci, only=lambda n: n.startswith("id_"))
        fs = []
        n = nd = 0
        for kk in alive:
            for fn in ("id_nc", "id_cn", "id_qc", "id_cq", "id_qdc"):
                n += 1
                d = dag.build(mod.funcs["%s_%d" % (fn, kk)], mod)
                if d.ret.op == "param" and d.ret.attr == 0:
                    nd += 1
                else:
                    fs.append(("identity:%s:%s:%s" % (fn, meta[kk][0], meta[kk][1]), "multiplying / dividing by constant %s changes the stored %s number (%s)" % (meta[kk][0], meta[kk][1], fn), d.ret.pretty()))
        for kk, msg in dropped.items():
            fs.append(("identity:compile:%s:%s" % meta[kk], "value-path wrappers for constant %s (%s) do not compile: %s" % (meta[kk][0], meta[kk][1], msg), ""))
        return n, nd, fs

    for n, nd, fs in cxx.pmap(do, list(enumerate(chunks2))):
        ni[0] += n
        ni[1] += nd
        for key, what, detail in fs:
            ctx.violation(key, what, detail)
    ctx.coverage.update(dict(
        evaluations=len(triples) + len(items) * len(configs) + ni[0], distinct_nontrivial=len(triples) + ni[0],
        rule="(constant, target unit, type) triples over the library's constants (discovered from au/constants/) and generated constants x target units whose ratio straddles each type's maximum (plus rationals, a huge prime, pi, 10^+-30, 10^309, 2^-200, the subnormal bands of float and double) x 11 types: can_store_value_in extracted and compared with exact arithmetic; availability iff representable and exact values as static_asserts; refused forms as compile-fail witnesses; composition items per constant; identity-dataflow IR wrappers per (constant, rep, form)",
        samples=[dict(triple="%s / %s -> %s" % (triples[0][0][0], triples[0][2], triples[0][3]))], exhaustive=False,
        constants=len(cons), library_constants=len(consts), triples=len(triples), model_obligations=nob, model_discharged=ndis,
        w_items=len(items), w_mismatches=nbad, ir_identity_wrappers=ni[0], ir_identity_ok=ni[1], configs=[c.name for c in configs], engine_stats=stats))


def c_lit_any(v, t):
    """Hex-float literal of an arbitrary positive rational bound (rounded outward is not needed: 4 ulp slack)."""
    from checks.c11 import fp_round
    r, _ = fp_round(abs(v), t) if v != 0 else (Fraction(0), None)
    if r == "inf":
        r = model.fp_max(t)
    s = c_lit(r, t) if r != 0 else ("0.0" + {"float": "f", "double": "", "long double": "L"}[t])
    return ("-" + s) if v < 0 else s


def main(argv=None):
    return common.run_check(PROP, "exploration", body, argv)


if __name__ == "__main__":
    sys.exit(main())
