"""C15 - unit-aware math functions return the mathematically required value and unit  (I + W)."""
import random
import sys
from fractions import Fraction

from vlib import common, cxx, witness, atoms, model, ir, dag, irbuild, fcells
from vlib.common import AnalysisBroken
from checks import trees

PROP = "C15"
USING = "".join("using std::%s; " % t for t in ["int8_t", "uint8_t", "int16_t", "uint16_t", "int32_t", "uint32_t", "int64_t", "uint64_t"]) + "\n"
PIV = Fraction(314159265358979323846264338327950288, 10 ** 35)
RATIOS = [("12", Fraction(12)), ("1/12", Fraction(1, 12)), ("3/2", Fraction(3, 2)), ("1000", Fraction(1000)), ("5/9", Fraction(5, 9)),
          ("1", Fraction(1)), ("381/1250", Fraction(381, 1250)), ("pi/180", None)]
SRC_REPS = ["int32_t", "int64_t", "uint16_t", "float", "double"]


def mg(name, fr):
    if name == "pi/180":
        return "au::Magnitude<au::Pi>{} / au::mag<180>()", PIV / 180
    return "au::mag<%dULL>() / au::mag<%dULL>()" % (fr.numerator, fr.denominator), fr


def rounding_type(r):
    return "float" if r == "float" else "double"  # std::round(int) and std::round(double) work in double


def strip_casts(n):
    while n.op in ("fptosi", "fptoui", "fptrunc", "fpext", "sitofp", "uitofp"):
        n = n.args[0]
    return n


def is_round_call(n, fn, ty):
    if n.op != "call":
        return False
    suf = {"float": "f32", "double": "f64"}[ty]
    libm = {"float": fn + "f", "double": fn}[ty]
    return n.attr in ("llvm.%s.%s" % (fn, suf), libm)


def check_rounding(mod, k, meta, fs):
    rname, ratio, r, fn, form, outrep, kind = meta
    nob = ndis = 0
    f = mod.funcs["rnd_%d" % k]
    d = dag.build(f, mod)
    key = "round:%s_%s%s:%s:%s:%s" % (fn, form, "<%s>" % outrep if outrep else "", kind, r, rname)
    nob += 1
    rt = rounding_type(r)
    core = strip_casts(d.ret) if outrep else d.ret
    if not is_round_call(core, fn, rt):
        # the outer cast may be absent when OutputRep == rounding type
        fs.append((key, "%s_%s: the value is not std::%s applied in %s (the type std::%s works in for rep %s)" % (fn, form, fn, rt, fn, r), d.ret.pretty()))
        return nob, ndis
    uns = r.startswith("u")
    a = dag.fp_affine(core.args[0], uns)
    offs = Fraction(0)
    if kind == "point":
        offs = Fraction(7, 2)  # see block(): origins differ by 7/2 of the target unit
    if a is None or set(a[0]) - {0}:
        fs.append((key, "%s_%s: the rounded operand is not an affine floating conversion of x" % (fn, form), core.args[0].pretty()))
        return nob, ndis
    got, c0, ops = a[0].get(0, Fraction(0)), a[1], a[2]
    prec = fcells.FMT[rt][0]
    tol = Fraction(1, 2 ** (prec - 3))
    nfl = sum(1 for o in ops if o.op in ("fmul", "fdiv", "fadd", "fsub"))
    narrow = [o for o in ops if o.op == "fptrunc"] + [o for o in ops if o.op in ("mul", "sdiv", "udiv", "add", "sub")]
    if abs(got - ratio) > tol * ratio or abs(c0 - offs) > tol * max(abs(offs), Fraction(1)) * 8:
        fs.append((key, "%s_%s: the rounded operand is %r*x + %r, the exact value of the quantity in the target unit is %r*x + %r" % (fn, form, float(got), float(c0), float(ratio), float(offs)), core.args[0].pretty()))
        return nob, ndis
    if narrow or nfl > (2 if kind == "quantity" else 4):
        fs.append((key, "%s_%s: the conversion before rounding is not done in the rounding type (%d floating steps, integer/narrowing steps: %s)" % (fn, form, nfl, [o.op for o in narrow]), core.args[0].pretty()))
        return nob, ndis
    # the floating conversion must happen in the rounding type, not in a narrower one
    if any(o.ty != rt for o in ops if o.op in ("fmul", "fdiv", "fadd", "fsub")):
        fs.append((key, "%s_%s: conversion arithmetic is not performed in %s" % (fn, form, rt), core.args[0].pretty()))
        return nob, ndis
    return nob, ndis + 1


def has_param(n):
    return n.op == "param" or any(has_param(a) for a in n.args)


def body(ctx):
    rnd = random.Random(ctx.seed)
    configs = cxx.configs_for(ctx.tier)
    findings = []
    tot = [0, 0]
    # ------------------------------------------------------------------ rounding family
    blocks, meta = [], {}
    k = 0
    combos = []
    for rname, fr in RATIOS:
        for r in SRC_REPS:
            for fn in ("round", "floor", "ceil"):
                for form in ("in", "as"):
                    for outrep in (None, "int32_t", "double"):
                        for kind in ("quantity", "point"):
                            combos.append((rname, fr, r, fn, form, outrep, kind))
    if not ctx.thorough:
        combos = rnd.sample(combos, 260)
    for (rname, fr, r, fn, form, outrep, kind) in combos:
        mexp, ratio = mg(rname, fr)
        tmpl = "<%s>" % outrep if outrep else ""
        if kind == "quantity":
            defs = "struct RB%d : au::UnitImpl<au::Length> {}; struct RA%d : decltype(RB%d{} * (%s)) {};" % (k, k, k, mexp)
            call = "au::%s_%s%s(RB%d{}, au::make_quantity<RA%d>(x))" % (fn, form, tmpl, k, k)
            val = call if form == "in" else "%s.in(RB%d{})" % (call, k)
        else:
            defs = ("struct RB%d : au::UnitImpl<au::Temperature> {}; struct RA%d : decltype(RB%d{} * (%s)) { static constexpr auto origin() { return au::make_quantity<decltype(RB%d{} / au::mag<2>())>(7); } };"
                    % (k, k, k, mexp, k))
            call = "au::%s_%s%s(RB%d{}, au::make_quantity_point<RA%d>(x))" % (fn, form, tmpl, k, k)
            val = call if form == "in" else "%s.in(RB%d{})" % (call, k)
        blocks.append((k, defs + "\nextern \"C\" auto rnd_%d(%s x) { return %s; }" % (k, r, val)))
        meta[k] = (rname, ratio, r, fn, form, outrep, kind)
        k += 1
    ipre = "#include <cstdint>\n#include <cmath>\n#include \"au/au.hh\"\n#include \"au/math.hh\"\n" + USING
    chunks = [blocks[i:i + 30] for i in range(0, len(blocks), 30)]

    def do_round(arg):
        ci, ch = arg
        mod, alive, dropped = irbuild.build_blocks(ctx, ipre, ch, "c15r%d" % ci, only=lambda n: n.startswith("rnd_"))
        fs = []
        n = nd = 0
        for kk in alive:
            a, b = check_rounding(mod, kk, meta[kk], fs)
            n += a
            nd += b
        for kk, msg in dropped.items():
            fs.append(("round:compile:%s" % (meta[kk],), "rounding wrapper does not compile: %s" % msg, ""))
        return n, nd, fs

    for n, nd, fs in cxx.pmap(do_round, list(enumerate(chunks))):
        tot[0] += n
        tot[1] += nd
        findings += fs
    nround = tot[0]
    ctx.log("rounding family: %d wrappers" % nround)

    # ------------------------------------------------------------------ inversion
    prefixes = [("Quetta", 30), ("Ronna", 27), ("Yotta", 24), ("Zetta", 21), ("Exa", 18), ("Peta", 15), ("Tera", 12), ("Giga", 9), ("Mega", 6), ("Kilo", 3),
                ("Hecto", 2), ("Deka", 1), ("", 0), ("Deci", -1), ("Centi", -2), ("Milli", -3), ("Micro", -6), ("Nano", -9), ("Pico", -12), ("Femto", -15),
                ("Atto", -18), ("Zepto", -21), ("Yocto", -24), ("Ronto", -27), ("Quecto", -30)]

    def U(p, base):
        return "au::%s<au::%s>" % (p, base) if p else "au::%s" % base

    reps = ["int16_t", "int32_t", "int64_t", "uint32_t", "float", "double"]
    items = []
    inv_pairs = [(a, b) for a in prefixes for b in prefixes]
    if not ctx.thorough:
        inv_pairs = rnd.sample(inv_pairs, 90) + [(("Nano", -9), ("Kilo", 3)), (("Micro", -6), ("", 0)), (("Milli", -3), ("Kilo", 3)), (("", 0), ("", 0)), (("Nano", -9), ("Mega", 6))]
    Ks = set()
    inv_pairs = list(dict.fromkeys(inv_pairs))
    for (tp, te), (sp, se) in inv_pairs:
        K = Fraction(10) ** (-(te + se))  # 1 / (target * source)
        for r in reps:
            isint = model.is_int(r)
            if isint:
                ok = K.denominator == 1 and K >= 10 ** 6 and K <= model.type_max(r)
            else:
                from checks.c11 import model_repr
                rep = model_repr(model.mag_from_fraction(K), r)[0]
                if rep == "either":
                    continue
                ok = bool(rep)
            if isint and K.denominator == 1 and K >= 10 ** 6 and K <= model.type_max(r):
                Ks.add(int(K))
            # (one witness per function: a must-not-compile witness with both would be satisfied by either)
            for fn in ("inverse_in", "inverse_as"):
                code = "void w() { (void)au::%s(%s{}, au::make_quantity<%s>(%s{5})); }" % (fn, U(tp, "Seconds"), U(sp, "Hertz"), r)
                items.append(witness.Item("inv:%s:%s%s<-%s%s:%s" % (fn, tp, "Seconds", sp, "Hertz", r), code, "accept" if ok else "reject", None,
                                          dict(desc="unit-only %s of %s into %s with rep %s: K = 10^%d; accepted iff floating or K >= 10^6 fits" % (fn, U(sp, "Hertz"), U(tp, "Seconds"), r, -(te + se)))))
    # generated grid with non-decimal K
    for n, (kk, exp_ok) in enumerate([(20000, False), (999999, False), (1000000, True), (1000001, True), (3 * 10 ** 6, True), (32767, False), (16960, False)]):
        for r in ("int16_t", "int32_t", "int64_t"):
            ok = exp_ok and kk <= model.type_max(r)
            code = "struct T : decltype(au::Seconds{} / au::mag<%d>()) {};\nvoid w() { (void)au::inverse_in(T{}, au::make_quantity<au::Hertz>(%s{5})); }" % (kk, r)
            items.append(witness.Item("invgen:%d:%s" % (kk, r), code, "accept" if ok else "reject", None, dict(desc="unit-only inverse with K = %d and rep %s" % (kk, r))))
            if ok:
                Ks.add(kk)
    # round trip on the proven form  n -> trunc(K / trunc(K / n))
    nrt = 0
    for K in sorted(Ks):
        for n in range(1, 1001):
            nrt += 1
            if K // (K // n) != n:
                ctx.violation("inverse-roundtrip:K=%d" % K, "with K = %d (accepted), inverse(inverse(%d)) = %d" % (K, n, K // (K // n)))
                break
    # explicit-rep forms: DAG cast(K / x)
    iblocks, imeta = [], {}
    k = 0
    for (tp, te), (sp, se) in rnd.sample(inv_pairs, 40 if ctx.thorough else 14):
        K = Fraction(10) ** (-(te + se))
        for (r, t) in (("int32_t", "int64_t"), ("int64_t", "int64_t"), ("double", "double"), ("float", "double"), ("int32_t", "double"), ("double", "int32_t")):
            rc = model.common_type(r, t)
            if model.is_int(rc) and not (K.denominator == 1 and K <= model.type_max(rc)):
                continue
            if model.is_fp(rc) and not (Fraction(1, 10 ** 30) < K < Fraction(10) ** 30):
                continue
            iblocks.append((k, 'extern "C" %s inv_%d(%s x) { return au::inverse_in<%s>(%s{}, au::make_quantity<%s>(x)); }\n'
                               'extern "C" %s inva_%d(%s x) { return au::inverse_as<%s>(%s{}, au::make_quantity<%s>(x)).in(%s{}); }'
                            % (t, k, r, t, U(tp, "Seconds"), U(sp, "Hertz"), t, k, r, t, U(tp, "Seconds"), U(sp, "Hertz"), U(tp, "Seconds"))))
            imeta[k] = (K, r, t, rc, "%s<-%s" % (U(tp, "Seconds"), U(sp, "Hertz")))
            k += 1
    ipre2 = ipre + '#include "au/units/seconds.hh"\n#include "au/units/hertz.hh"\n'
    mod, alive, dropped = irbuild.build_blocks(ctx, ipre2, iblocks, "c15i", only=lambda n: n.startswith("inv"))
    for kk in alive:
        K, r, t, rc, nm = imeta[kk]
        for fn in ("inv_%d" % kk, "inva_%d" % kk):
            tot[0] += 1
            d = dag.build(mod.funcs[fn], mod)
            core = d.ret
            while core.op in ("fptosi", "fptoui", "fptrunc", "fpext", "sitofp", "uitofp", "sext", "zext", "trunc"):
                core = core.args[0]
            key = "inverse:%s:%s->%s:%s" % (nm, r, t, fn.split("_")[0])
            if core.op not in ("sdiv", "udiv", "fdiv"):
                findings.append((key, "inverse is not K / x", d.ret.pretty()))
                continue
            num, den = core.args
            dn = den
            while dn.op in ("sext", "zext", "fpext", "sitofp", "uitofp", "trunc"):
                dn = dn.args[0]
            kv = num.cval() if num.is_const() else None
            if kv is None and core.op == "fdiv":
                # a constant-only floating expression (e.g. 1 / 10^18): evaluate it with the IEEE model
                ev = fcells.FEval(core.ty, Fraction(0), None, None).ev(num)
                if isinstance(ev, Fraction) and not has_param(num):
                    kv = ev
            if not (dn.op == "param" and dn.attr == 0 and kv is not None):
                findings.append((key, "inverse is not (constant) / x", d.ret.pretty()))
                continue
            kvf = Fraction(dag.as_signed(kv, num.ty)) if core.op != "fdiv" else kv
            tol = 0 if core.op != "fdiv" else abs(K) * Fraction(1, 2 ** (fcells.FMT["double" if core.ty == "double" else "float"][0] - 2))
            if abs(kvf - K) > tol:
                findings.append((key, "inverse divides %r by x, the exact conversion constant is %r" % (float(kvf), float(K)), d.ret.pretty()))
                continue
            tot[1] += 1
    for kk, msg in dropped.items():
        findings.append(("inverse:compile:%s" % (imeta[kk][4],), "explicit-rep inverse does not compile: %s" % msg, ""))

    # ------------------------------------------------------------------ trig and two-argument wrappers
    tblocks, tmeta = [], {}
    k = 0
    angle = [("au::Radians", Fraction(1)), ("au::Degrees", PIV / 180), ("au::Revolutions", 2 * PIV), ("au::Milli<au::Radians>", Fraction(1, 1000))]
    for (u, ratio) in angle:
        for r in ("double", "float", "int32_t"):
            for fn in ("sin", "cos", "tan"):
                tblocks.append((k, 'extern "C" auto trig_%d(%s x) { return au::%s(au::make_quantity<%s>(x)); }' % (k, r, fn, u)))
                tmeta[k] = ("trig", fn, u, ratio, r)
                k += 1
    two = [("hypot", True), ("fmod", True), ("remainder", True), ("arctan2", False)]
    pairs2 = [("au::Feet", "au::Inches", 12, 1), ("au::Meters", "au::Centi<au::Meters>", 100, 1), ("au::Hours", "au::Minutes", 60, 1), ("au::Meters", "au::Meters", 1, 1)]
    for fn, isq in two:
        for (ua, ub, k1, k2) in pairs2:
            for r in ("double", "float"):
                res = "r.in(decltype(r)::unit)" if True else "r"
                tblocks.append((k, 'extern "C" auto two_%d(%s x, %s y) { auto r = au::%s(au::make_quantity<%s>(x), au::make_quantity<%s>(y)); return %s; }' % (k, r, r, fn, ua, ub, res)))
                tmeta[k] = ("two", fn, (ua, ub), (k1, k2), r)
                k += 1
    tpre = ipre + "".join('#include "au/units/%s.hh"\n' % h for h in ("radians", "degrees", "revolutions", "feet", "inches", "meters", "hours", "minutes"))
    mod, alive, dropped = irbuild.build_blocks(ctx, tpre, tblocks, "c15t", only=lambda n: n.startswith(("trig_", "two_")))
    for kk in alive:
        m = tmeta[kk]
        tot[0] += 1
        if m[0] == "trig":
            _, fn, u, ratio, r = m
            d = dag.build(mod.funcs["trig_%d" % kk], mod)
            pt = "float" if r == "float" else "double"
            key = "trig:%s:%s:%s" % (fn, u, r)
            n = d.ret
            names = {fn, fn + "f", "llvm.%s.f32" % fn, "llvm.%s.f64" % fn}
            if not (n.op == "call" and n.attr in names and n.ty == pt):
                findings.append((key, "%s of a quantity is not std::%s in %s" % (fn, fn, pt), n.pretty()))
                continue
            a = dag.fp_affine(n.args[0])
            prec = fcells.FMT[pt][0]
            if a is None or set(a[0]) - {0} or a[1] != 0 or abs(a[0].get(0, 0) - ratio) > ratio * Fraction(1, 2 ** (prec - 3)):
                findings.append((key, "%s(%s quantity): argument is %s, the value in radians is %r * x" % (fn, u, None if a is None else float(a[0].get(0, 0)), float(ratio)), n.pretty()))
                continue
            tot[1] += 1
        else:
            _, fn, (ua, ub), (k1, k2), r = m
            d = dag.build(mod.funcs["two_%d" % kk], mod)
            key = "two:%s:%s,%s:%s" % (fn, ua, ub, r)
            n = d.ret
            if fn == "arctan2":
                names = {"atan2", "atan2f"}
            else:
                names = {fn, fn + "f", "llvm.%s.f32" % fn, "llvm.%s.f64" % fn}
            if not (n.op == "call" and n.attr in names):
                findings.append((key, "%s of two quantities is not std::%s" % (fn, fn), n.pretty()))
                continue
            a0, a1 = dag.fp_affine(n.args[0]), dag.fp_affine(n.args[1])
            ok = a0 is not None and a1 is not None and a0[1] == 0 and a1[1] == 0 and a0[0] == {0: Fraction(k1)} and a1[0] == {1: Fraction(k2)}
            if not ok:
                findings.append((key, "%s(%s, %s): operands are not %d*x and %d*y (values in the common unit)" % (fn, ua, ub, k1, k2), n.pretty()))
                continue
            tot[1] += 1
    for kk, msg in dropped.items():
        findings.append(("trig:compile:%s" % (tmeta[kk][:3],), "wrapper does not compile: %s" % msg, ""))

    # ------------------------------------------------------------------ min / max / clamp / abs / copysign / isnan against references
    rblocks = []
    rk = []
    k = 0
    for r in ("int32_t", "double", "float", "int64_t", "uint16_t", "int16_t", "int8_t", "uint8_t"):
        narrow8 = r in ("int8_t", "uint8_t")  # feet -> inches is not policy-safe in an 8-bit rep: same-unit forms only
        rblocks.append((k, "\n".join([l for l in [
            'extern "C" %s a_min_%d(%s x, %s y) { return min(au::meters(x), au::meters(y)).in(au::meters); }' % (r, k, r, r),
            'extern "C" %s r_min_%d(%s x, %s y) { return std::min(x, y); }' % (r, k, r, r),
            'extern "C" %s a_max_%d(%s x, %s y) { return max(au::meters(x), au::meters(y)).in(au::meters); }' % (r, k, r, r),
            'extern "C" %s r_max_%d(%s x, %s y) { return std::max(x, y); }' % (r, k, r, r),
            'extern "C" auto a_mmin_%d(%s x, %s y) { return min(au::feet(x), au::inches(y)).in(au::inches); }' % (k, r, r),
            'extern "C" auto r_mmin_%d(%s x, %s y) { return std::min<%s>(x * %s{12}, y); }' % (k, r, r, r, r),
            'extern "C" auto a_mmax_%d(%s x, %s y) { return max(au::feet(x), au::inches(y)).in(au::inches); }' % (k, r, r),
            'extern "C" auto r_mmax_%d(%s x, %s y) { return std::max<%s>(x * %s{12}, y); }' % (k, r, r, r, r),
        ] if not (narrow8 and "_mm" in l)] + ([
            'extern "C" auto a_abs_%d(%s x) { return au::abs(au::meters(x)).in(au::meters); }' % (k, r),
            'extern "C" auto r_abs_%d(%s x) { return std::abs(x); }' % (k, r),
        ] if not r.startswith("u") else []) + ([
            'extern "C" auto a_cs_%d(%s x, %s y) { return au::copysign(au::meters(x), au::seconds(y)).in(au::meters); }' % (k, r, r),
            'extern "C" auto r_cs_%d(%s x, %s y) { return std::copysign(x, y); }' % (k, r, r),
            'extern "C" bool a_nan_%d(%s x) { return au::isnan(au::meters(x)); }' % (k, r),
            'extern "C" bool r_nan_%d(%s x) { return std::isnan(x); }' % (k, r),
            'extern "C" bool a_pnan_%d(%s x) { return au::isnan(au::meters_pt(x)); }' % (k, r),
            'extern "C" bool r_pnan_%d(%s x) { return std::isnan(x); }' % (k, r),
        ] if r in ("double", "float") else []))))
        rk.append((k, r))
        k += 1
    rpre = ipre + "#include <algorithm>\n" + "".join('#include "au/units/%s.hh"\n' % h for h in ("feet", "inches", "meters", "seconds"))
    mod, alive, dropped = irbuild.build_blocks(ctx, rpre, rblocks, "c15m", only=lambda n: n.startswith(("a_", "r_")))
    for kk, msg in dropped.items():
        findings.append(("ref:compile:%s" % rk[kk][1], "min/max/clamp wrappers do not compile: %s" % msg, ""))
    for kk in alive:
        r = rk[kk][1]
        for nm in ("min", "max", "mmin", "mmax", "abs", "cs", "nan", "pnan"):
            if "a_%s_%d" % (nm, kk) not in mod.funcs:
                continue
            tot[0] += 1
            da, dr = dag.build(mod.funcs["a_%s_%d" % (nm, kk)], mod), dag.build(mod.funcs["r_%s_%d" % (nm, kk)], mod)
            if da.ret == dr.ret:
                tot[1] += 1
            elif nm in ("min", "max", "mmin", "mmax"):
                # both only compare and select: decide by the orderings of the two arguments.  The atoms
                # are the operands of the std reference (the parameters; for the mixed-unit forms the
                # first one scaled to the common unit), so that a rewrite of the selection which leaves
                # every result unchanged is not reported (round 10: the mixed forms were compared textually)
                from vlib import ordering
                fp = r in ("double", "float")

                def base(n):
                    while n.op in ("sext", "zext", "fpext"):
                        n = n.args[0]
                    return n

                def leaves(n, acc):
                    if n.op == "select":
                        leaves(n.args[1], acc)
                        leaves(n.args[2], acc)
                    elif base(n) not in acc:
                        acc.append(base(n))
                    return acc

                def mentions_param(n, i):
                    return (n.op == "param" and n.attr == i) or any(mentions_param(a, i) for a in n.args)
                atoms_ = {}
                for lf in leaves(dr.ret, []):
                    for i in (0, 1):
                        if mentions_param(lf, i) and not mentions_param(lf, 1 - i):
                            atoms_[lf] = i
                if sorted(atoms_.values()) != [0, 1]:
                    raise AnalysisBroken("C15 %s/%s: the std reference is not a selection between the two operands: %s" % (nm, r, dr.ret.pretty()[:200]))

                def classify(m):
                    i = atoms_.get(base(m))
                    return None if i is None else "AB"[i]

                def choose(n, o):
                    if n.op == "select":
                        c = ordering.evaluate(n.args[0], o, classify)
                        return choose(n.args[1] if c else n.args[2], o)
                    b = base(n)
                    if b in atoms_:
                        return atoms_[b]
                    raise ordering.NotDecidable(n.pretty()[:80])
                try:
                    diff = [o for o in (ordering.ORD_FP if fp else ordering.ORD_INT) if choose(da.ret, o) != choose(dr.ret, o)]
                except ordering.NotDecidable as e:
                    findings.append(("ref:%s:%s" % (nm, r), "au::%s on %s quantities is not a selection by comparisons: %s" % (nm, r, e), da.ret.pretty()))
                    continue
                if not diff or (not fp and diff == ["eq"]):
                    tot[1] += 1  # equal arguments of an integral rep are bit-identical: either choice is the same value
                elif set(diff) <= {"eq", "un"} and nm in ("min", "max"):
                    findings.append(("minmax-tie-or-nan:%s:%s" % (nm, r),
                                     "same-unit au::%s on %s quantities returns the other argument than std::%s when the arguments compare equal (+0.0 / -0.0) or unordered (NaN)" % (nm, r, nm),
                                     "Au:  %s\nstd: %s" % (da.ret.pretty(), dr.ret.pretty())))
                else:
                    findings.append(("ref:%s:%s" % (nm, r), "au::%s on %s quantities differs from std::%s for orderings %s" % (nm, r, nm, diff),
                                     "Au:  %s\nstd: %s" % (da.ret.pretty(), dr.ret.pretty())))
            else:
                findings.append(("ref:%s:%s" % (nm, r), "au::%s on %s quantities does not equal the std function on the values in the required unit" % (nm, r),
                                 "Au:  %s\nstd: %s" % (da.ret.pretty(), dr.ret.pretty())))
    for key, what, detail in findings:
        ctx.violation(key, what, detail)

    # ------------------------------------------------------------------ W: result units, guards
    units = atoms.discover_units(ctx)
    hdrs = atoms.unit_includes(units)
    prelude = witness.DEFAULT_PRELUDE + USING + hdrs
    w = [
        ("units", "static_assert(std::is_same<decltype(au::arcsin(0.5)), au::Quantity<au::Radians, double>>::value && std::is_same<decltype(au::arccos(0.5f)), au::Quantity<au::Radians, float>>::value && std::is_same<decltype(au::arctan(1)), au::Quantity<au::Radians, double>>::value, \"arc* return radians\");\n"
                  "static_assert(std::is_same<decltype(au::arctan2(au::feet(1.0), au::inches(2.0))), au::Quantity<au::Radians, double>>::value, \"arctan2 of quantities returns radians\");\n"
                  "static_assert(std::is_same<decltype(au::sin(au::degrees(1))), double>::value && std::is_same<decltype(au::cos(au::radians(1.f))), float>::value, \"trig returns the std type\");\n"
                  "static_assert(std::is_same<decltype(au::hypot(au::feet(1.0), au::inches(2.0)))::Unit, au::CommonUnitT<au::Feet, au::Inches>>::value, \"hypot in the common unit\");\n"
                  "static_assert(std::is_same<decltype(au::fmod(au::feet(1.0), au::inches(2.0)))::Unit, au::CommonUnitT<au::Feet, au::Inches>>::value && std::is_same<decltype(au::remainder(au::hours(1.0), au::minutes(2.0)))::Unit, au::CommonUnitT<au::Hours, au::Minutes>>::value, \"fmod/remainder in the common unit\");\n"
                  "static_assert(std::is_same<decltype(au::round_as(au::inches, au::feet(1.2))), au::Quantity<au::Inches, double>>::value && std::is_same<decltype(au::round_as<int>(au::inches, au::feet(1.2))), au::Quantity<au::Inches, int>>::value && std::is_same<decltype(au::floor_as(au::inches, au::feet(3))), au::Quantity<au::Inches, double>>::value && std::is_same<decltype(au::ceil_in(au::inches, au::feet(1.2f))), float>::value, \"rounding result types\");\n"
                  "static_assert(std::is_same<decltype(au::round_as(au::kelvins_pt, au::celsius_pt(1.2))), au::QuantityPoint<au::Kelvins, double>>::value, \"rounding points\");\n"
                  "static_assert(std::is_same<decltype(au::abs(au::meters(-1))), au::Quantity<au::Meters, int>>::value && std::is_same<decltype(au::copysign(au::meters(1.0), -1.0)), au::Quantity<au::Meters, double>>::value, \"abs / copysign units\");\n"
                  "static_assert(std::is_same<decltype(au::inverse_as(au::nano(au::seconds), au::kilo(au::hertz)(5))), au::Quantity<au::Nano<au::Seconds>, int>>::value, \"inverse_as unit and rep\");", "accept"),
        ("trig_needs_angle", "void w() { (void)au::sin(au::meters(1.0)); }", "reject"),
        ("cos_needs_angle", "void w() { (void)au::cos(au::seconds(1.0)); }", "reject"),
        ("tan_needs_angle", "void w() { (void)au::tan(au::unos(1.0)); }", "reject"),
        ("trig_angle_ok", "void w() { (void)au::sin(au::degrees(1.0)); (void)au::tan(au::revolutions(1)); }", "accept"),
        ("inverse_small_K_i32", "void w() { (void)au::inverse_as(au::seconds, au::hertz(5)); }", "reject"),
        ("inverse_small_K_double", "void w() { (void)au::inverse_as(au::seconds, au::hertz(5.0)); }", "accept"),
        ("inverse_explicit_rep", "void w() { (void)au::inverse_as<int>(au::seconds, au::hertz(5)); }", "accept"),
    ]
    for nm, code, exp in w:
        items.append(witness.Item("w:" + nm, code, exp, None, dict(desc=nm)))
    # clamp only compares its arguments: all 13 weak orderings of (v, lo, hi) decide it
    import itertools
    lines = []
    for r in ("int", "double", "uint8_t"):
        for v, lo, hi in itertools.product((1, 2, 3), repeat=3):
            want = lo if v < lo else hi if hi < v else v
            lines.append("static_assert(clamp(au::meters(%s{%d}), au::meters(%s{%d}), au::meters(%s{%d})) == au::meters(%s{%d}), \"clamp, same unit\");" % (r, v, r, lo, r, hi, r, want))
        if r != "uint8_t":
            for v, lo, hi in itertools.product((1, 2, 3), repeat=3):
                want = lo if v < lo else hi if hi < v else v
                lines.append("static_assert(clamp(au::feet(%s{%d}), au::inches(%s{%d}), (au::yards / au::mag<3>())(%s{%d})) == au::inches(%s{%d}), \"clamp, mixed units\");" % (r, v, r, lo * 12, r, hi, r, want * 12))
    # mixed REPS: the result has the common rep (a floating bound is never squeezed into an integral
    # value rep), over every ordering, same and mixed units, for min / max / clamp
    ml = []
    halves = ((1, "0.5"), (3, "1.5"), (5, "2.5"))  # (twice the value, literal)
    for ri, rf in (("int", "double"), ("int16_t", "float"), ("uint8_t", "double")):
        for v in (1, 2, 3):
            for (lo2, los) in halves:
                for (hi2, his) in halves:
                    want2 = lo2 if 2 * v < lo2 else hi2 if hi2 < 2 * v else 2 * v
                    ml.append("static_assert(clamp(au::meters(%s{%d}), au::meters(%s{%s}), au::meters(%s{%s})) == au::meters(%s{%s}), \"clamp, integral value between floating bounds\");"
                              % (ri, v, rf, los, rf, his, rf, "%d.%d" % (want2 // 2, 5 * (want2 % 2))))
        ml.append("static_assert(std::is_same<decltype(clamp(au::meters(%s{1}), au::meters(%s{1}), au::meters(%s{2}))), au::Quantity<au::Meters, std::common_type_t<%s, %s>>>::value, \"clamp result rep\");" % (ri, rf, rf, ri, rf))
        ml.append("static_assert(std::is_same<decltype(clamp(au::meters(%s{1}), au::meters(%s{1}), au::meters(%s{2}))), au::Quantity<au::Meters, std::common_type_t<%s, %s>>>::value, \"clamp result rep (floating value, integral bounds)\");" % (rf, ri, ri, ri, rf))
        ml.append("static_assert(std::is_same<decltype(clamp(au::feet(%s{1}), au::inches(%s{1}), au::yards(%s{2}))), au::Quantity<au::CommonUnitT<au::Feet, au::Inches, au::Yards>, std::common_type_t<%s, %s>>>::value, \"clamp result type, mixed units and reps\");" % (ri, rf, rf, ri, rf))
        ml.append("static_assert(clamp(au::feet(%s{1}), au::inches(%s{13.5}), au::yards(%s{2})) == au::inches(%s{13.5}) && clamp(au::feet(%s{7}), au::inches(%s{13.5}), au::inches(%s{70.5})) == au::inches(%s{70.5}), \"clamp value, mixed units and reps\");" % (ri, rf, rf, rf, ri, rf, rf, rf))
        for fn, pick in (("min", "0.5"), ("max", "1")):
            ml.append("static_assert(%s(au::meters(%s{1}), au::meters(%s{0.5})) == au::meters(%s{%s}) && %s(au::meters(%s{0.5}), au::meters(%s{1})) == au::meters(%s{%s}), \"%s, mixed reps\");"
                      % (fn, ri, rf, rf, pick, fn, rf, ri, rf, pick, fn))
            ml.append("static_assert(std::is_same<decltype(%s(au::meters(%s{1}), au::meters(%s{0.5}))), au::Quantity<au::Meters, std::common_type_t<%s, %s>>>::value && std::is_same<decltype(%s(au::feet(%s{1}), au::inches(%s{0.5}))), au::Quantity<au::Inches, std::common_type_t<%s, %s>>>::value, \"%s result type, mixed reps\");"
                      % (fn, ri, rf, ri, rf, fn, ri, rf, ri, rf, fn))
    items.append(witness.Item("w:minmaxclamp-mixed-reps", "\n".join(ml), "accept", None, dict(desc="min / max / clamp with an integral and a floating rep: common rep, exact values over every ordering")))
    items.append(witness.Item("w:clamp-orderings", "\n".join(lines), "accept", None, dict(desc="clamp over every ordering of (value, low, high), same and mixed units")))
    results, stats = witness.judge(ctx, items, configs, prelude=prelude, batch=80, tag="c15")
    nbad = witness.report_mismatches(ctx, items, results, prelude=prelude)
    ctx.require(nround >= 200, "only %d rounding wrappers analysed" % nround)
    ctx.coverage.update(dict(
        obligations=tot[0] + len(items) + nrt, discharged=tot[1] + len(items) - nbad + nrt, checker_cmd="bin/check C15 --tier %s" % ctx.tier,
        trusted_base=["clang 14 lowering to IR; libm / llvm intrinsics as uninterpreted functions", "vlib/dag.py real-affine forms", "clang/g++ front ends for witnesses"],
        evaluations=tot[0] + len(items), distinct_nontrivial=tot[0] + len(items),
        rule="rounding: one IR wrapper per (ratio incl. pi/180, source rep, round|floor|ceil, in|as, unit-only or <OutputRep>, quantity|point): the value is stdfn in the type std::round works in, applied to an affine floating conversion of x whose coefficient is the model ratio (and offset the model displacement) within the rounding of its constants, computed in that type; inversion: witness pairs over SI-prefixed (time, frequency) pairs x 6 reps, DAG cast(K / x) with K the exact constant, arithmetic round trip n -> K/(K/n) for n = 1..1000 on every accepted K; trig / hypot / fmod / remainder / arctan2: libm node applied to the values in radians / the common unit; min, max, clamp, abs, copysign, isnan: DAG equality with the std function compiled alongside; clamp over every ordering, and min / max / clamp with one integral and one floating rep (result type has the common rep, exact values over every ordering of an integral value between non-whole floating bounds)",
        samples=[dict(rounding=str(combos[0])), dict(inverse_Ks=sorted(Ks)[:6])], exhaustive=False,
        rounding_wrappers=nround, inverse_witnesses=sum(1 for i in items if i.key.startswith("inv")), inverse_roundtrips=nrt, accepted_K=len(Ks),
        w_items=len(items), w_mismatches=nbad, configs=[c.name for c in configs], engine_stats=stats,
        not_decided="numerical error of libm itself; the <= 1/2 bound beyond 'it is std::round of the correctly converted value'"))


def main(argv=None):
    return common.run_check(PROP, "proof", body, argv)


if __name__ == "__main__":
    sys.exit(main())
