"""Shared machinery of C03 / C04: same-rep integer conversions and their run-time checkers.

Per instance (T, N/D): wrappers conv / lossy / ovf / trunc are lowered to IR, turned into DAGs and
analysed on an exact cell partition of T's whole value range (vlib/cells.py).  Obligations are
discharged per cell against the closed-form model (exact rationals), for ALL values at once.
"""
import random
from fractions import Fraction
from math import gcd, isqrt

from vlib import common, ir, dag, cells, atoms, model, witness, cxx
from vlib.common import AnalysisBroken

INT_TYPES = ["int8_t", "uint8_t", "int16_t", "uint16_t", "int32_t", "uint32_t", "int64_t", "uint64_t"]


def promoted(t):
    return model.promote(t)


class Inst:
    def __init__(self, T, N, D, src="grid", units=None):
        g = gcd(N, D)
        self.T, self.N, self.D = T, N // g, D // g
        self.src = src
        self.units = units  # (A expr, B expr) for library pairs
        self.idx = None

    @property
    def key(self):
        if self.units:
            return "%s:%s->%s" % (self.T, self.units[0], self.units[1])
        return "%s:%d/%d" % (self.T, self.N, self.D)

    def conv_compiles(self):
        """Model prediction of whether the conversion itself compiles (numerator / denominator must
        be representable where the library evaluates them)."""
        T = self.T
        P = promoted(T)
        tmax = model.int_range(T)[1]
        pmax = model.int_range(P)[1]
        if self.D == 1:
            return self.N <= tmax
        if self.N == 1:
            return self.D <= tmax
        return self.N <= pmax and self.D <= pmax


def grid(ctx, units, rnd):
    out = []
    seen = set()

    def add(T, N, D, src, u=None):
        if N < 1 or D < 1 or N >= 1 << 64 or D >= 1 << 64:
            return
        i = Inst(T, N, D, src, u)
        if i.N == 1 and i.D == 1 and not u:
            return
        if i.key in seen:
            return
        seen.add(i.key)
        out.append(i)

    # (a) library unit ratios
    by_dim = {}
    for u in units:
        by_dim.setdefault(model.key(u.dim), []).append(u)
    pairs = []
    for us in by_dim.values():
        for a in us:
            for b in us:
                if a is b:
                    continue
                r = model.div(a.mag, b.mag)
                if model.mag_is_rational(r) and r:
                    fr = model.mag_to_fraction(r)
                    if fr.numerator < 1 << 63 and fr.denominator < 1 << 63:
                        pairs.append((a, b, fr))
    rnd.shuffle(pairs)
    npairs = len(pairs) if ctx.thorough else 24
    for a, b, fr in pairs[:npairs]:
        for T in (INT_TYPES if ctx.thorough else rnd.sample(INT_TYPES, 3)):
            add(T, fr.numerator, fr.denominator, "library", ("au::%s" % a.name, "au::%s" % b.name))
    # (b) powers of 2 and 10
    ks2 = [1, 3, 7, 8, 15, 16, 31, 32, 62, 63] if ctx.thorough else [1, 7, 8, 16, 31, 63]
    ks10 = [1, 2, 3, 6, 9, 12, 18, 19] if ctx.thorough else [1, 3, 9, 18]
    for T in INT_TYPES:
        for k in ks2:
            add(T, 1 << k, 1, "pow2")
            add(T, 1, 1 << k, "pow2")
        for k in ks10:
            add(T, 10 ** k, 1, "pow10")
            add(T, 1, 10 ** k, "pow10")
            add(T, 10 ** k, 3, "pow10")
    # (c) limits of T and of the promoted type
    for T in INT_TYPES:
        P = promoted(T)
        lims = set()
        for X in (T, P):
            mx = model.int_range(X)[1]
            lims |= {mx - 1, mx, mx + 1, isqrt(mx) - 1, isqrt(mx), isqrt(mx) + 1, isqrt(mx) + 2, mx // 2, mx // 2 + 1}
        # numerator AND denominator next to a limit (l-1)/l, l/(l-1): the product of two values of T
        # need not fit the promoted type (uint16_t promotes to a SIGNED 32-bit int)
        core = {model.int_range(T)[1], isqrt(model.int_range(P)[1]) + 1, isqrt(model.int_range(P)[1]) + 2}
        lims = sorted(l for l in lims if l >= 2)
        if not ctx.thorough:
            lims = [l for l in lims if l in core or rnd.random() < 0.6]
        for l in lims:
            add(T, l, 1, "limit")
            add(T, 1, l, "limit")
            add(T, l, 3 if l % 3 else 2 if l % 2 else 5, "limit")
            add(T, 3 if l % 3 else 2 if l % 2 else 5, l, "limit")
            if ctx.thorough or l in core:
                add(T, l, l - 1, "limit")
                add(T, l - 1, l, "limit")
    # (d) large primes
    for T in INT_TYPES:
        for p in (2 ** 31 - 1, 2 ** 61 - 1):
            for (n, d) in ((p, 1), (1, p), (p, 2), (2, p), (3, p), (p, 7)):
                add(T, n, d, "prime")
    # (e) seeded coprime pairs
    nrand = 60 if ctx.thorough else 12
    for T in INT_TYPES:
        for _ in range(nrand):
            lim = rnd.choice([20, 1000, 10 ** 6, 2 ** 20, 2 ** 33])
            n, d = rnd.randrange(1, lim), rnd.randrange(1, lim)
            add(T, n, d, "random")
    return out


PRELUDE = """#include <cstdint>
#include "au/au.hh"
using std::int8_t; using std::uint8_t; using std::int16_t; using std::uint16_t;
using std::int32_t; using std::uint32_t; using std::int64_t; using std::uint64_t;
"""


def mag_expr(n):
    return "au::mag<%dULL>()" % n


def render(insts, hdrs, with_conv):
    lines = [PRELUDE + hdrs]
    ranges = []
    for k, i in enumerate(insts):
        start = len("\n".join(lines).split("\n")) + 1
        if i.units:
            a, b = i.units
            lines.append("using A%d = %s; using B%d = %s;" % (k, a, k, b))
        else:
            lines.append("struct B%d : au::UnitImpl<au::Length> {};" % k)
            lines.append("struct A%d : decltype(B%d{} * %s / %s) {};" % (k, k, mag_expr(i.N), mag_expr(i.D)))
        T = i.T
        if with_conv[k]:
            lines.append('extern "C" %s conv_%d(%s x) { return au::make_quantity<A%d>(x).coerce_in(B%d{}); }' % (T, k, T, k, k))
            lines.append('extern "C" %s convas_%d(%s x) { return au::make_quantity<A%d>(x).coerce_as(B%d{}).in(B%d{}); }' % (T, k, T, k, k, k))
        lines.append('extern "C" bool lossy_%d(%s x) { return au::is_conversion_lossy(au::make_quantity<A%d>(x), B%d{}); }' % (k, T, k, k))
        lines.append('extern "C" bool ovf_%d(%s x) { return au::will_conversion_overflow(au::make_quantity<A%d>(x), B%d{}); }' % (k, T, k, k))
        lines.append('extern "C" bool trunc_%d(%s x) { return au::will_conversion_truncate(au::make_quantity<A%d>(x), B%d{}); }' % (k, T, k, k))
        end = len("\n".join(lines).split("\n"))
        ranges.append((start, end))
    return "\n".join(lines) + "\n", ranges


IN_SCOPE_DESPITE_MODEL = set()
REFUSED_DESPITE_MODEL = []  # instances whose conversion the model expects to compile and clang refuses
UNDECIDED_CONV = []  # (instance, reason): conversion compiles but its DAG cannot be built


def probe_scope(ctx, insts, hdrs):
    """One small translation unit per instance whose conversion the model predicts not to compile:
    those the compiler accepts are inside the quantifier after all."""
    from vlib import cxx
    import os
    wd = ctx.sub("SCOPE")
    todo = [i for i in insts if not i.conv_compiles()]

    def one(arg):
        n, i = arg
        text, _ = render([i], hdrs, [True])
        p = os.path.join(wd, "p%d.cc" % n)
        with open(p, "w") as f:
            f.write(text)
        rc, so, se = cxx.run(["clang++", "-std=c++14", "-fsyntax-only", "-w", "-I" + ir.AU_INC, "-I" + ir.VERIF_INC, p])
        return i.key if rc == 0 else None
    for k in cxx.pmap(one, list(enumerate(todo))):
        if k is not None:
            IN_SCOPE_DESPITE_MODEL.add(k)
    return len(todo), len(IN_SCOPE_DESPITE_MODEL)


def build_module(ctx, insts, hdrs, tag):
    """Lower a chunk of instances; instances whose conversion (or checker) does not compile are
    dropped (returned separately)."""
    # Whether a conversion is inside the quantifier ("the conversion compiles") is asked of the
    # LIBRARY: the model's prediction is only the first guess; every instance it predicts NOT to
    # compile has been put to the compiler on its own (probe_scope), and an instance predicted to
    # compile loses its conversion wrappers below if the compiler refuses them.
    with_conv = [i.conv_compiles() or i.key in IN_SCOPE_DESPITE_MODEL for i in insts]
    alive = list(range(len(insts)))
    dropped = []
    for attempt in range(4):
        cur = [insts[k] for k in alive]
        wc = [with_conv[k] for k in alive]
        text, ranges = render(cur, hdrs, wc)
        path, se = ir.build_ir(ctx, text, "%s_a%d" % (tag, attempt))
        if path is not None:
            mod = ir.parse_module(path, only=lambda n: n.split("_")[0] in ("conv", "convas", "lossy", "ovf", "trunc"))
            return mod, cur, wc, dropped
        from vlib import cxx
        diags = cxx.parse_clang(se)
        src = None
        bad = set()
        for dgn in diags:
            for f, l in dgn.chain:
                if f.endswith(".cc"):
                    for j, (a, b) in enumerate(ranges):
                        if a <= l <= b:
                            bad.add(j)
        if not bad:
            raise AnalysisBroken("IR build failed with unattributable errors: %s" % se[-800:])
        for j in sorted(bad):
            k = alive[j]
            if with_conv[k]:
                with_conv[k] = False  # first try without the conversion wrappers
                if insts[k].conv_compiles():
                    REFUSED_DESPITE_MODEL.append(insts[k])
            else:
                dropped.append(insts[k])
                alive[j] = None
        alive = [k for k in alive if k is not None]
        if not alive:
            return None, [], [], dropped
    # errors inside a SHARED instantiation are reported once, for the first block that needs it: the
    # loop above then peels one instance per round.  Judge every remaining instance on its own.
    import os
    wd = ctx.sub("SOLO_" + tag)

    def solo(k):
        for wcv in ([True, False] if with_conv[k] else [False]):
            text, _ = render([insts[k]], hdrs, [wcv])
            pth = os.path.join(wd, "s%d_%d.cc" % (k, int(wcv)))
            with open(pth, "w") as f:
                f.write(text)
            rc, so, se = cxx.run(["clang++", "-std=c++14", "-fsyntax-only", "-w", "-I" + ir.AU_INC, "-I" + ir.VERIF_INC, pth])
            if rc == 0:
                return k, wcv
        return k, None
    keep = []
    for k, wcv in cxx.pmap(solo, alive):
        if wcv is None:
            dropped.append(insts[k])
        else:
            if with_conv[k] and not wcv and insts[k].conv_compiles():
                REFUSED_DESPITE_MODEL.append(insts[k])
            with_conv[k] = wcv
            keep.append(k)
    keep.sort()
    if not keep:
        return None, [], [], dropped
    cur = [insts[k] for k in keep]
    wc = [with_conv[k] for k in keep]
    text, ranges = render(cur, hdrs, wc)
    path, se = ir.build_ir(ctx, text, "%s_final" % tag)
    if path is None:
        raise AnalysisBroken("IR build did not converge for chunk %s: %s" % (tag, se[-400:]))
    mod = ir.parse_module(path, only=lambda n: n.split("_")[0] in ("conv", "convas", "lossy", "ovf", "trunc"))
    return mod, cur, wc, dropped


def checker_refused(ctx, inst, hdrs):
    """For an instance whose checkers the compiler refuses: does the CONVERSION compile on its own
    (then the instance is inside the quantifier and the refusal is a finding)?  -> (bool, first error)"""
    import os
    wd = ctx.sub("REFUSED")
    T = inst.T
    text, _ = render([inst], hdrs, [False])
    head = text[:text.index('extern "C" bool lossy_0')]
    conv = head + 'extern "C" %s conv_0(%s x) { return au::make_quantity<A0>(x).coerce_in(B0{}); }\n' % (T, T)
    pth = os.path.join(wd, "c_%s.cc" % abs(hash(inst.key)))
    with open(pth, "w") as f:
        f.write(conv)
    rc, so, se = cxx.run(["clang++", "-std=c++14", "-fsyntax-only", "-w", "-I" + ir.AU_INC, "-I" + ir.VERIF_INC, pth])
    if rc != 0:
        return False, ""
    with open(pth, "w") as f:
        f.write(text)
    rc, so, se = cxx.run(["clang++", "-std=c++14", "-fsyntax-only", "-w", "-I" + ir.AU_INC, "-I" + ir.VERIF_INC, pth])
    d = cxx.parse_clang(se)
    return True, ("%s: %s" % (d[0].where(), d[0].msg[:200])) if d else se[-200:]


def model_sets(i):
    """Closed-form exact predicates from (T, P, N, D)."""
    T, N, D = i.T, i.N, i.D
    P = promoted(T)
    tmin, tmax = model.int_range(T)
    pmin, pmax = model.int_range(P)
    # x*N within P and x*N/D within T (exact rational)
    hi_lim = min(pmax, tmax * D)
    lo_lim = max(pmin, tmin * D)
    a = hi_lim // N  # largest x with x*N <= hi_lim
    b = -((-lo_lim) // N)  # smallest x with x*N >= lo_lim  (ceil)
    return a, b


def members_where(cell, lo, hi):
    """Some member of the cell inside [lo,hi], or None."""
    c = cells.Cell(max(cell.lo, lo), min(cell.hi, hi), cell.cls)
    return None if c.empty() else c.first()


def div_examples(cell, D):
    """(a member with D | x, a member with D !| x), either may be None."""
    if D == 1:
        return cell.first(), None
    f, l = cell.first(), cell.last()
    if cell.cls is None:
        c = cells.Cell(cell.lo, cell.hi, (D, 0, True))
        nd = cells.Cell(cell.lo, cell.hi, (D, 0, False))
        return (None if c.empty() else c.example()), (None if nd.empty() else nd.example())
    M, r, member = cell.cls
    if member and M % D == 0 and r % D == 0:
        return cell.example(), None
    if member and M == D and r != 0:
        return None, cell.example()
    if (not member) and M == D and r == 0:
        return None, cell.example()
    # unrelated class: search a few members
    dv = nd = None
    x = f
    steps = 0
    while x is not None and x <= l and steps < 4096 and (dv is None or nd is None):
        if x % D == 0:
            dv = x if dv is None else dv
        else:
            nd = x if nd is None else nd
        steps += 1
        nx = cells.Cell(x + 1, cell.hi, cell.cls)
        x = None if nx.empty() else nx.first()
    # direct candidates: multiples of lcm
    if dv is None:
        from math import lcm
        if member:
            # x == r (mod M) and x == 0 (mod D)
            g = gcd(M, D)
            if r % g == 0:
                L = lcm(M, D)
                # CRT
                m1 = M // g
                t = ((-r // g) * pow(m1, -1, D // g)) % (D // g) if D // g > 1 else 0
                x0 = (r + M * t) % L
                cand = cell.lo + ((x0 - cell.lo) % L)
                if cand <= cell.hi:
                    dv = cand
        else:
            c = cells.Cell(cell.lo, cell.hi, (D, 0, True))
            y = None if c.empty() else c.first()
            k = 0
            while y is not None and y <= cell.hi and k < 8:
                if (y - r) % M != 0:
                    dv = y
                    break
                y += D
                k += 1
    return dv, nd


def prop_of(checker):
    return "C04"


def analyse_instance(ctx, mod, k, inst, has_conv, findings):
    """Returns (#obligations, #discharged).  findings: list of (prop, key, what, detail)."""
    T, N, D = inst.T, inst.N, inst.D
    bits, signed = model.INT_TYPES[T]
    tmin, tmax = model.int_range(T)
    roots = {}
    dags = {}
    for nm in (["conv", "convas"] if has_conv else []) + ["lossy", "ovf", "trunc"]:
        f = mod.funcs.get("%s_%d" % (nm, k))
        if f is None:
            raise AnalysisBroken("wrapper %s_%d missing from IR" % (nm, k))
        try:
            d = dag.build(f, mod)
        except AnalysisBroken as e:
            if nm not in ("conv", "convas"):
                raise
            # the conversion compiles (so the instance is inside the quantifier) but its IR is
            # outside the analysable fragment: the checkers are still decided against the exact
            # model (C04); C03 has no verdict for this instance
            UNDECIDED_CONV.append((inst.key, str(e)))
            has_conv = False
            for cn in ("conv", "convas"):
                dags.pop(cn, None)
                roots.pop(cn, None)
            continue
        dags[nm] = d
        roots[nm] = d.ret
    rv = {"conv": (bits, signed), "convas": (bits, signed)} if has_conv else {}
    ar = {cn: dags[cn].arith for cn in rv}
    # every arithmetic instruction of a checker counts too, also one whose result is no longer used
    ar.update({nm: dags[nm].arith for nm in ("lossy", "ovf", "trunc") if nm in dags})
    part = cells.analyse(roots, tmin, tmax, ret_views=rv, arith=ar, wrap_roots=("lossy", "ovf", "trunc"))
    a, b = model_sets(inst)
    cnt = {'C03': [0, 0], 'C04': [0, 0]}
    total = 0

    def where(v):
        return mod.where(v.node.dbg) if isinstance(v, cells.Bad) and v.node is not None and v.node.dbg else "?"

    def report(prop, kind, x, what):
        findings.append((prop, "%s|%s" % (inst.key, kind), kind, x, what))

    for cell, res in part:
        total += cell.count()
        fl, fo, ft = (cells.as_bool(res["lossy"]), cells.as_bool(res["ovf"]), cells.as_bool(res["trunc"]))
        ub = [(nm, res[nm]) for nm in ("lossy", "ovf", "trunc") if isinstance(res[nm], cells.Bad)] + \
             [(nm, res["!" + nm]) for nm in ("lossy", "ovf", "trunc") if isinstance(res.get("!" + nm), cells.Bad) and res["!" + nm].kind in ("signed-overflow", "division-by-zero")]
        if ub:
            nm, v = ub[0]
            if v.kind == "remainder-narrowed":
                # the checker's answer for this member of the cell is "does not truncate" although the
                # remainder is not zero: the conversion then drops it
                report("C03", "checker-%s-narrowed-remainder" % nm, v.example,
                       "%s says false for x=%d although x*%d/%d is not an integer: %s (%s)" % ({"lossy": "is_conversion_lossy", "trunc": "will_conversion_truncate", "ovf": "will_conversion_overflow"}[nm], v.example, inst.N, inst.D, v.detail, where(v)))
                report("C04", "checker-%s-narrowed-remainder" % nm, v.example,
                       "%s is false for x=%d although x*%d/%d is not an integer: %s (%s)" % ({"lossy": "is_conversion_lossy", "trunc": "will_conversion_truncate", "ovf": "will_conversion_overflow"}[nm], v.example, inst.N, inst.D, v.detail, where(v)))
                continue
            report(prop_of(nm), "checker-%s-undefined" % nm, cell.example(),
                   "evaluating the %s checker itself is undefined for x=%d: %s at %s" % (nm, cell.example(), v.kind, where(v)))
            continue
        for nm, v in (("lossy", fl), ("ovf", fo), ("trunc", ft)):
            if v is None:
                raise AnalysisBroken("%s: checker %s not decided on cell %r: %r" % (inst.key, nm, cell, res[nm]))
        dv, nd = div_examples(cell, D)
        # C04 truncation set
        cnt['C04'][0] += 1
        ok = True
        if dv is not None and ft:
            ok = False
            report("C04", "truncate-false-positive", dv,
                   "will_conversion_truncate is TRUE for x=%d although x*%d/%d = %s is an integer" % (dv, N, D, Fraction(dv * N, D)))
        if nd is not None and not ft:
            ok = False
            report("C04", "truncate-missed", nd,
                   "will_conversion_truncate is FALSE for x=%d although x*%d/%d = %s is not an integer" % (nd, N, D, Fraction(nd * N, D)))
        cnt['C04'][1] += ok
        # C04 overflow set: exact set is the complement of [b, a]
        cnt['C04'][0] += 1
        ok = True
        x_in = members_where(cell, b, a)
        x_hi = members_where(cell, a + 1, tmax)
        x_lo = members_where(cell, tmin, b - 1)
        if x_in is not None and fo:
            ok = False
            report("C04", "overflow-false-positive", x_in,
                   "will_conversion_overflow is TRUE for x=%d although x*%d=%d fits %s and x*%d/%d=%s fits %s"
                   % (x_in, N, x_in * N, promoted(T), N, D, Fraction(x_in * N, D), T))
        for xo in (x_hi, x_lo):
            if xo is not None and not fo:
                ok = False
                report("C04", "overflow-missed", xo,
                       "will_conversion_overflow is FALSE for x=%d although x*%d=%d (range of %s: %s) or x*%d/%d=%s (range of %s: %s) is out of range"
                       % (xo, N, xo * N, promoted(T), model.int_range(promoted(T)), N, D, Fraction(xo * N, D), T, (tmin, tmax)))
        cnt['C04'][1] += ok
        # C04 disjunction
        cnt['C04'][0] += 1
        if fl != (fo or ft):
            report("C04", "lossy-not-disjunction", cell.example(),
                   "is_conversion_lossy=%s but truncate=%s overflow=%s for x=%d" % (fl, ft, fo, cell.example()))
        else:
            cnt['C04'][1] += 1
        if not has_conv:
            continue
        for cn in ("conv", "convas"):
            cv = res[cn]
            if res.get("!" + cn) is not None and not isinstance(cv, cells.Bad):
                cv = res["!" + cn]  # an intermediate (possibly dead) instruction wraps / overflows
            # C03: cleared => defined, in range, exact
            if not fl:
                cnt['C03'][0] += 1
                x = cell.example()
                if isinstance(cv, cells.Bad):
                    report("C03", "%s-ub-when-cleared" % cn, x,
                           "is_conversion_lossy is false for x=%d but %s: %s at %s" % (x, cn, cv.kind, where(cv)))
                elif isinstance(cv, cells.Form):
                    want = cells.Form("aff", N, 0, D)
                    f1, l1 = cell.first(), cell.last()
                    bad = None
                    for xx in (f1, l1):
                        if Fraction(cv.at(xx)) != Fraction(xx * N, D):
                            bad = xx
                    if bad is not None:
                        report("C03", "%s-wrong-value" % cn, bad,
                               "is_conversion_lossy is false for x=%d but %s returns %s, exact value is %s (form %r)"
                               % (bad, cn, cv.at(bad), Fraction(bad * N, D), cv))
                    elif cv.kind == "aff" or f1 == l1:
                        # two linear functions agreeing at two distinct members agree everywhere
                        cnt['C03'][1] += 1
                    elif (cv.p, cv.q, cv.d) == (want.p, want.q, want.d) and nd is None:
                        cnt['C03'][1] += 1  # trunc(N*x/D) on a cell whose members are all divisible
                    elif (cv.p, cv.q, cv.d) == (want.p, want.q, want.d):
                        report("C03", "%s-wrong-value" % cn, nd,
                               "is_conversion_lossy is false for x=%d but %s returns %s, exact value is %s (truncating division)"
                               % (nd, cn, cv.at(nd), Fraction(nd * N, D)))
                    else:
                        raise AnalysisBroken("%s: cannot compare form %r with %d*x/%d on %r" % (inst.key, cv, N, D, cell))
                else:
                    raise AnalysisBroken("%s: %s not analysable on cleared cell %r: %r" % (inst.key, cn, cell, cv))
            # C04 O-must: flagged overflow on exact (divisible) members => conversion really fails
            if fo and dv is not None and nd is None:
                cnt['C04'][0] += 1
                if isinstance(cv, cells.Bad):
                    cnt['C04'][1] += 1
                elif isinstance(cv, cells.Form):
                    report("C04", "overflow-flag-but-%s-fine" % cn, dv,
                           "will_conversion_overflow is TRUE for x=%d but every step of %s is in range and the result %s is exact"
                           % (dv, cn, cv.at(dv)))
                else:
                    raise AnalysisBroken("%s: %s not analysable on flagged cell %r: %r" % (inst.key, cn, cell, cv))
    if total != tmax - tmin + 1:
        raise AnalysisBroken("%s: cells cover %d values, type has %d" % (inst.key, total, tmax - tmin + 1))
    return cnt, len(part)


FLOAT_FACTORS = [Fraction(12), Fraction(1000), Fraction(3, 2), Fraction(5, 9), Fraction(7, 3), Fraction(10 ** 6), Fraction(2 ** 31 - 1),
                 Fraction(1, 12), Fraction(1, 1000), Fraction(2), Fraction(381, 1250), Fraction(1609344, 1000), "pi/180", "180/pi",
                 # the identity and powers of two: the scaled value is exact, so no allowance applies
                 Fraction(1), Fraction(1024), Fraction(1, 1024),
                 # divisors (and factors) beyond the largest finite value of the rep: the quotient is an ordinary value
                 "2^-140", "2^-1060", "2^130", "3/2^140"]
BIG_FLOAT_FACTORS = {"2^-140": ("au::pow<-140>(au::mag<2>())", Fraction(1, 2 ** 140)), "2^-1060": ("au::pow<-1060>(au::mag<2>())", Fraction(1, 2 ** 1060)),
                     "2^130": ("au::pow<130>(au::mag<2>())", Fraction(2 ** 130)), "3/2^140": ("au::mag<3>() * au::pow<-140>(au::mag<2>())", Fraction(3, 2 ** 140))}


def float_clause(ctx, rnd):
    """C04, floating reps: overflow is reported for every finite value whose scaled magnitude
    exceeds the type's largest finite value and never for values safely below it.  Decided on an
    exact partition of ALL finite values of the type (vlib/fcells.py)."""
    from vlib import fcells, irbuild
    insts = [(t, f) for t in ("float", "double") for f in FLOAT_FACTORS]
    if ctx.thorough:
        for _ in range(60):
            insts.append((rnd.choice(["float", "double"]), Fraction(rnd.randrange(1, 10 ** 6), rnd.randrange(1, 10 ** 6))))
    blocks = []
    for k, (t, f) in enumerate(insts):
        if f == "pi/180":
            mg = "au::Magnitude<au::Pi>{} / au::mag<180>()"
        elif f == "180/pi":
            mg = "au::mag<180>() / au::Magnitude<au::Pi>{}"
        elif f in BIG_FLOAT_FACTORS:
            mg = BIG_FLOAT_FACTORS[f][0]
        else:
            mg = "au::mag<%dULL>() / au::mag<%dULL>()" % (f.numerator, f.denominator)
        blocks.append((k, "struct FB%d : au::UnitImpl<au::Length> {}; struct FA%d : decltype(FB%d{} * (%s)) {};\n"
                          "extern \"C\" %s fconv_%d(%s x) { return au::make_quantity<FA%d>(x).coerce_in(FB%d{}); }\n"
                          "extern \"C\" bool fovf_%d(%s x) { return au::will_conversion_overflow(au::make_quantity<FA%d>(x), FB%d{}); }\n"
                          "extern \"C\" bool ftrunc_%d(%s x) { return au::will_conversion_truncate(au::make_quantity<FA%d>(x), FB%d{}); }\n"
                          "extern \"C\" bool flossy_%d(%s x) { return au::is_conversion_lossy(au::make_quantity<FA%d>(x), FB%d{}); }"
                       % (k, k, k, mg, t, k, t, k, k, k, t, k, k, k, t, k, k, k, t, k, k)))
    mod, alive, dropped = irbuild.build_blocks(ctx, PRELUDE, blocks, "c04f", only=lambda n: n.startswith(("fconv_", "fovf_", "ftrunc_", "flossy_")))
    nob = ndis = ncell = 0
    PIV = Fraction(314159265358979323846264338327950288, 10 ** 35)
    for k in alive:
        t, f = insts[k]
        fe = PIV / 180 if f == "pi/180" else 180 / PIV if f == "180/pi" else BIG_FLOAT_FACTORS[f][1] if f in BIG_FLOAT_FACTORS else f
        key = "%s:%s" % (t, f)
        # (a divisor the rep cannot hold is divided in long double, which travels through memory in
        #  the IR: for those factors the conversion itself is taken from the exact model)
        big = f in BIG_FLOAT_FACTORS
        roots = {nm: dag.build(mod.funcs["%s_%d" % (nm, k)], mod).ret for nm in (("fovf", "ftrunc", "flossy") if big else ("fconv", "fovf", "ftrunc", "flossy"))}
        part, _ = fcells.analyse(roots, t)
        mx = fcells.fmax(t)
        for cell, rlo, rhi in part:
            ncell += 1
            if cell.special:
                continue
            for end, r, o in (("lo", rlo, cell.lo), ("hi", rhi, cell.hi)):
                x = fcells.ord_to_val(o, t)
                nob += 1
                ok = True
                if r["ftrunc"] != 0:
                    ctx.violation(key + "|float-truncates", "will_conversion_truncate is true for a floating rep (%s, x=%r)" % (key, float(x)))
                    ok = False
                if r["flossy"] != (r["fovf"] | r["ftrunc"]):
                    ctx.violation(key + "|disjunction", "is_conversion_lossy is not overflow || truncate for %s at x=%r" % (key, float(x)))
                    ok = False
                if big:
                    r = dict(r)
                    r["fconv"] = fcells.INF if abs(x) * fe > mx * (1 + Fraction(1, 2 ** 20)) else 0
                if not r["fovf"]:
                    if r["fconv"] in (fcells.INF, fcells.NINF, fcells.NAN):
                        ctx.violation(key + "|overflow-missed", "will_conversion_overflow is FALSE for %s x=%r although x times %s is %s (beyond the largest finite %s)"
                                      % (t, float(x), f, r["fconv"], t), "cell %r" % cell)
                        ok = False
                else:
                    # "safely below": the library pulls its bound back by one epsilon of the rep and
                    # rounds twice on the way; sixteen epsilons of the rep is a generous allowance
                    eps = Fraction(1, 2 ** (23 if t == "float" else 52))
                    pow2 = isinstance(fe, Fraction) and fe.numerator & (fe.numerator - 1) == 0 and fe.denominator & (fe.denominator - 1) == 0
                    if pow2 and abs(x) * fe <= mx:
                        # "no conversion whose exact result is representable and computable is ever reported lossy"
                        ctx.violation(key + "|overflow-false-positive-exact", "will_conversion_overflow is TRUE for %s x=%r although x times %s is exactly %r, a finite %s" % (t, float(x), f, float(x * fe), t), "cell %r" % cell)
                        ok = False
                    elif abs(x) * fe < mx * (1 - 16 * eps):
                        ctx.violation(key + "|overflow-false-positive", "will_conversion_overflow is TRUE for %s x=%r although |x| times %s is safely below the largest finite value" % (t, float(x), f), "cell %r" % cell)
                        ok = False
                ndis += ok
    ctx.require(len(alive) >= 20, "floating clause: only %d instances analysed" % len(alive))
    return dict(float_instances=len(alive), float_cells=ncell, float_obligations=nob, float_discharged=ndis, float_not_compiling=len(dropped))


def constexpr_clause(ctx, insts, rnd, hdrs):
    """The cell analysis reads the conversion as it is COMPILED: a branch on
    __builtin_is_constant_evaluated() / std::is_constant_evaluated() is folded away before the IR
    exists, so inside a constant expression the library could compute something else.  For a
    sample of the analysed instances, the same conversions are therefore put into constant
    expressions (both compilers) with operands whose exact image is an integer in range - a
    positive, a negative (signed reps) and the largest admissible one - and must yield exactly
    x * N / D, through coerce_in and through coerce_as, and the three checkers must clear them."""
    items = []
    pool = [i for i in insts if i.units is None and i.conv_compiles()]
    rnd2 = random.Random(rnd.random())
    picked = rnd2.sample(pool, min(len(pool), 160 if ctx.thorough else 48))
    # rational factors first: they have the widest arithmetic
    picked.sort(key=lambda i: (i.N == 1 or i.D == 1, i.key))
    for i in picked:
        T = i.T
        lo, hi = model.int_range(T)
        P = promoted(T)
        plo, phi = model.int_range(P)
        kmax = min(hi // i.D if i.D else hi, phi // (i.N * i.D) if i.N * i.D <= phi else 0, hi // i.N)
        if kmax < 1:
            continue
        ks = sorted({1, kmax, max(1, kmax // 3)})
        xs = [k * i.D for k in ks]
        if lo < 0:
            xs += [-k * i.D for k in ks]
        lines = ["struct B : au::UnitImpl<au::Length> {};", "struct A : decltype(B{} * %s / %s) {};" % (mag_expr(i.N), mag_expr(i.D)), "using T = %s;" % T]
        for x in xs:
            want = x * i.N // i.D
            if not (lo <= want <= hi) or not (lo <= x <= hi):
                continue
            lit = lambda v: "static_cast<T>(%dLL)" % v if abs(v) < (1 << 63) else "static_cast<T>(%dULL)" % v
            lines.append("static_assert(au::make_quantity<A>(%s).coerce_in(B{}) == %s, \"constant expression: %d x %d/%d is %d\");" % (lit(x), lit(want), x, i.N, i.D, want))
            lines.append("static_assert(au::make_quantity<A>(%s).coerce_as(B{}).in(B{}) == %s, \"constant expression, coerce_as\");" % (lit(x), lit(want)))
            lines.append("static_assert(!au::is_conversion_lossy(au::make_quantity<A>(%s), B{}) && !au::will_conversion_overflow(au::make_quantity<A>(%s), B{}) && !au::will_conversion_truncate(au::make_quantity<A>(%s), B{}), \"cleared in a constant expression\");" % (lit(x), lit(x), lit(x)))
        if len(lines) > 3:
            items.append(witness.Item("cx:%s" % i.key, "\n".join(lines), "accept", None,
                                      dict(desc="conversion %s inside constant expressions: exact images of %s" % (i.key, xs))))
    ctx.require(len(items) >= 20, "only %d constant-expression witnesses" % len(items))
    from vlib import cxx
    configs = cxx.configs_for(ctx.tier)
    results, stats = witness.judge(ctx, items, configs, prelude=witness.DEFAULT_PRELUDE + hdrs, batch=24, tag="cvcx")
    nbad = witness.report_mismatches(ctx, items, results, prelude=witness.DEFAULT_PRELUDE + hdrs)
    ctx.log("constant-expression witnesses: %d items, %d mismatching" % (len(items), nbad))
    return dict(constexpr_witnesses=len(items), constexpr_mismatches=nbad)


def run(ctx, prop):
    rnd = random.Random(ctx.seed)
    units = atoms.discover_units(ctx)
    hdrs = atoms.unit_includes(units)
    atoms.readout_units(ctx, units, witness.DEFAULT_PRELUDE + hdrs)
    insts = grid(ctx, units, rnd)
    nprobe, ninscope = probe_scope(ctx, insts, hdrs)
    ctx.log("%d instances (T, N/D); %d predicted outside the quantifier put to the compiler, %d of them compile after all" % (len(insts), nprobe, ninscope))
    chunks = [insts[i:i + 24] for i in range(0, len(insts), 24)]
    findings = []
    stats = dict(instances=0, dropped=0, without_conv=0, cells=0, obligations=0, discharged=0, functions=0)
    samples = []

    def do(arg):
        ci, chunk = arg
        mod, cur, wc, dropped = build_module(ctx, chunk, hdrs, "cv%d" % ci)
        out = []
        fs = []
        if mod is not None:
            for k, inst in enumerate(cur):
                if not wc[k]:
                    out.append((inst, False, 0, 0, 0))  # conversion does not compile: out of scope
                    continue
                cnt, ncell = analyse_instance(ctx, mod, k, inst, wc[k], fs)
                out.append((inst, wc[k], cnt[prop][0], cnt[prop][1], ncell))
        return out, dropped, fs

    from vlib import cxx
    for out, dropped, fs in cxx.pmap(do, list(enumerate(chunks))):
        stats["dropped"] += len(dropped)
        findings += fs
        for inst in dropped:
            # "every factor for which the conversion compiles": a checker the compiler refuses for
            # such a conversion is no answer at all
            inside, err = checker_refused(ctx, inst, hdrs)
            if inside:
                findings.append(("C04", "%s|checker-refused" % inst.key, "checker-refused", 0,
                                 "the conversion %s compiles, but will_conversion_truncate / will_conversion_overflow / is_conversion_lossy for it are rejected by clang++ -std=c++14: %s" % (inst.key, err)))
        for inst, hc, nob, ndis, ncell in out:
            stats["instances"] += 1
            stats["without_conv"] += 0 if hc else 1
            stats["cells"] += ncell
            stats["obligations"] += nob
            stats["discharged"] += ndis
            stats["functions"] += 5 if hc else 3
            if len(samples) < 5 and hc and rnd.random() < 0.05:
                samples.append(dict(instance=inst.key, source=inst.src, cells=ncell, obligations=nob))
    # "for which the conversion compiles" is asked of BOTH compilers: an instance the model expects to
    # compile and clang refuses is put to g++; accepted there, the two compilers disagree about a
    # program of the public API (and the instance silently left this check's scope)
    ref = {i.key: i for i in REFUSED_DESPITE_MODEL}
    nref_both = 0
    if ref:
        import os
        wd = ctx.sub("REFUSED2")

        def ask_gcc(inst):
            text, _ = render([inst], hdrs, [True])
            pth = os.path.join(wd, "g_%s.cc" % abs(hash(inst.key)))
            with open(pth, "w") as f:
                f.write(text)
            rc, so, se = cxx.run(["g++", "-std=c++14", "-fsyntax-only", "-w", "-I" + ir.AU_INC, "-I" + ir.VERIF_INC, pth])
            rc2, so2, se2 = cxx.run(["clang++", "-std=c++14", "-fsyntax-only", "-w", "-I" + ir.AU_INC, "-I" + ir.VERIF_INC, pth])
            d = cxx.parse_clang(se2)
            return inst, rc == 0, rc2 == 0, ("%s: %s" % (d[0].where(), d[0].msg[:160])) if d else se2[-160:]
        for inst, gcc_ok, clang_ok, err in cxx.pmap(ask_gcc, list(ref.values())):
            if gcc_ok and not clang_ok:
                findings.append((prop, "%s|compilers-disagree" % inst.key, "compilers-disagree", 0,
                                 "the conversion %s (coerce_in / coerce_as) is accepted by g++ and refused by clang++ (-std=c++14): %s" % (inst.key, err)))
            elif not gcc_ok and not clang_ok:
                nref_both += 1
    stats["refused_by_both_despite_model"] = nref_both
    ctx.require(nref_both * 20 <= max(1, stats["instances"]), "%d instances whose conversion the model expects to compile are refused by both compilers (model out of date?)" % nref_both)
    ctx.require(stats["instances"] >= (200 if not ctx.thorough else 1500),
                "only %d instances analysed" % stats["instances"])
    # report only this property's findings; the other property's are counted
    if UNDECIDED_CONV:
        ctx.log("%d conversions compile but are outside the analysable IR fragment, first: %s" % (len(UNDECIDED_CONV), UNDECIDED_CONV[0]))
        if prop == "C03" and not [f for f in findings if f[0] == "C03"]:
            raise AnalysisBroken("%d conversions cannot be analysed (no verdict on exactness), first: %s: %s" % ((len(UNDECIDED_CONV),) + UNDECIDED_CONV[0]))
    mine = [f for f in findings if f[0] == prop]
    other = [f for f in findings if f[0] != prop]
    for (p, key, kind, x, what) in mine:
        ctx.violation(key, what, "instance %s, kind %s, example x=%s (the cell analysis covers every value of the type; the example is one member of the offending cell)" % (key.split("|")[0], kind, x),
                      artefact="property %s\ninstance %s\nkind %s\nexample x = %s\n%s\n" % (p, key, kind, x, what))
    if not samples:
        samples.append(dict(instance=insts[0].key))
    nmine_ob = stats["obligations"]
    ctx.coverage.update(dict(
        obligations=stats["obligations"], discharged=stats["discharged"] + 0,
        checker_cmd="bin/check %s --tier %s" % (prop, ctx.tier),
        trusted_base=["clang 14 lowering to LLVM IR (x86-64)", "opt-14 sroa/inline/simplifycfg",
                      "vlib/ir.py parser, vlib/dag.py, vlib/cells.py domains", "vlib/model.py closed forms"],
        evaluations=stats["instances"], distinct_nontrivial=stats["instances"],
        rule="instance = (integral rep T, reduced factor N/D); every instance is analysed for ALL values "
             "of T by exact cell partition; obligations are per cell (C04: truncate set, overflow set, "
             "disjunction, flagged=>really fails; C03: cleared=>defined, in range, exact)",
        samples=samples, exhaustive=False,
        instances_analysed=stats["instances"], instances_not_compiling=stats["dropped"],
        instances_checker_only=stats["without_conv"], conversions_refused_by_both_compilers_despite_model=stats.get("refused_by_both_despite_model", 0), cells=stats["cells"],
        ir_functions_analysed=stats["functions"],
        findings_for_other_property=len(other),
    ))
    if prop == "C03":
        ctx.coverage.update(constexpr_clause(ctx, insts, rnd, hdrs))
    if prop == "C04":
        fst = float_clause(ctx, rnd)
        ctx.coverage.update(fst)
        ctx.coverage["obligations"] += fst["float_obligations"]
        ctx.coverage["discharged"] += fst["float_discharged"]
    ctx.assumptions += ["value-level claims are about the source as lowered by clang 14 on x86-64/LP64",
                        "closed forms of vlib/model.py are the reading of the statement"]
    return stats
