"""C14 - products, quotients and powers combine values raw-wise and units algebraically  (W + I)."""
import random
import sys
from fractions import Fraction

from vlib import common, cxx, witness, atoms, model, ir, dag, irbuild
from vlib.common import AnalysisBroken

PROP = "C14"
REPS = ["int8_t", "uint8_t", "int16_t", "uint16_t", "int32_t", "uint32_t", "int64_t", "uint64_t", "float", "double"]
USING = "".join("using std::%s; " % t for t in REPS[:8]) + "\n"
PI_VALUE = Fraction(314159265358979, 10 ** 14)


def flat(pack, is_dim):
    """Expected auv::Dump order: dimensions by base index, magnitudes by base value (pi between 3 and 5)."""
    if is_dim:
        items = sorted(pack.items())
    else:
        items = sorted(pack.items(), key=lambda kv: (PI_VALUE if kv[0] == model.PI_ID else Fraction(kv[0])))
    out = ["0"]
    for b, e in items:
        bid = b if b >= 0 else b  # negative base-dim indices are written as signed literals
        out += ["%dLL" % bid if b < (1 << 63) else "static_cast<long long>(%dULL)" % b, "%dLL" % e.numerator, "%dLL" % e.denominator]
    return "{" + ", ".join(out) + "}"


def unit_assert(tname, dim, mag, what):
    return ("constexpr std::int64_t ed_%s[] = %s; constexpr std::int64_t em_%s[] = %s;\n"
            "static_assert(auv::same(auv::dim_of<%s>(), ed_%s), \"dimension of %s\");\n"
            "static_assert(auv::same(auv::mag_of<%s>(), em_%s), \"magnitude of %s\");"
            % (what, flat(dim, True), what, flat(mag, False), tname, what, what, tname, what, what))


class U:
    def __init__(self, expr, dim, mag):
        self.expr, self.dim, self.mag = expr, dim, mag


SAME_BASE_POWERS = [("au::pow<2>({x})", 2), ("au::pow<3>({x})", 3), ("au::pow<4>({x})", 4), ("au::root<2>({x})", Fraction(1, 2)), ("au::root<3>({x})", Fraction(1, 3)),
                    ("au::pow<3>(au::root<2>({x}))", Fraction(3, 2)), ("au::pow<2>(au::root<3>({x}))", Fraction(2, 3)), ("au::root<4>({x})", Fraction(1, 4))]
NAMED_COLLISIONS = {}  # unit expression -> id of its group of indistinguishable named units


def unit_pool(units, rnd, n):
    pool = [U("au::%s{}" % u.name, u.dim, u.mag) for u in units]
    groups = {}
    for u in units:
        groups.setdefault((model.key(u.dim), model.key(u.mag), u.has_origin, u.tiebreak), []).append(u.name)
    NAMED_COLLISIONS.clear()
    for gi, names in enumerate(groups.values()):
        if len(names) > 1 and not groups_have_origin(units, names):
            for nm in names:
                NAMED_COLLISIONS["au::%s{}" % nm] = gi
    by = {u.name: u for u in units}
    extra = []
    hz, s = by["Hertz"], by["Seconds"]
    extra.append(U("au::Milli<au::Seconds>{}", s.dim, model.mul(s.mag, model.mag_from_fraction(Fraction(1, 1000)))))
    extra.append(U("au::Kilo<au::Hertz>{}", hz.dim, model.mul(hz.mag, model.mag_from_fraction(1000))))
    pc = by["Percent"]
    extra.append(U("au::pow<-1>(au::Percent{})", model.inv(pc.dim), model.inv(pc.mag)))
    extra.append(U("(au::Meters{} / au::Seconds{})", model.div(by["Meters"].dim, s.dim), model.div(by["Meters"].mag, s.mag)))
    extra.append(U("au::pow<-1>(au::Radians{})", model.inv(by["Radians"].dim), {}))
    extra.append(U("(au::Seconds{} * au::mag<3>() / au::mag<7>())", s.dim, model.mul(s.mag, model.mag_from_fraction(Fraction(3, 7)))))
    extra.append(U("(au::Hertz{} * au::mag<7>() / au::mag<3>())", hz.dim, model.mul(hz.mag, model.mag_from_fraction(Fraction(7, 3)))))
    extra.append(U("au::UnitProductT<>{}", {}, {}))
    # powers and roots of ONE base, to be multiplied and divided with each other: the exponents of
    # the same base meet in the pack product with every pair of (numerator, denominator)
    for nm in ("Meters", "Feet"):
        b = by[nm]
        for spell, e in SAME_BASE_POWERS:
            extra.append(U(spell.format(x="au::%s{}" % nm), model.power(b.dim, e), model.power(b.mag, e)))
    return pool, extra


def groups_have_origin(units, names):
    by = {u.name: u for u in units}
    return any(by[n].has_origin for n in names)


def is_unitless(dim, mag):
    return not dim and not mag


def type_items(pool, extra, rnd, thorough):
    items = []
    pairs = []
    special = [("au::Hertz{}", "au::Becquerel{}"), ("au::Hertz{}", "au::Seconds{}"), ("au::Kilo<au::Hertz>{}", "au::Milli<au::Seconds>{}"), ("au::Hertz{}", "au::Milli<au::Seconds>{}"),
               ("au::Percent{}", "au::pow<-1>(au::Percent{})"), ("au::Radians{}", "au::pow<-1>(au::Radians{})"),
               ("(au::Seconds{} * au::mag<3>() / au::mag<7>())", "(au::Hertz{} * au::mag<7>() / au::mag<3>())"),
               ("au::Meters{}", "au::Meters{}"), ("au::Unos{}", "au::Unos{}"), ("au::Feet{}", "au::Inches{}")]
    byexpr = {u.expr: u for u in pool + extra}
    for a, b in special:
        pairs.append((byexpr[a], byexpr[b]))
    # the same unit under two spellings (different C++ types, equal dimension and magnitude): the
    # QUOTIENT cancels although the types differ
    def named(nm):
        return byexpr["au::%s{}" % nm]
    try:
        hz, sec, m, n_, kg_expr = named("Hertz"), named("Seconds"), named("Meters"), named("Newtons"), "au::Kilo<au::Grams>{}"
        g = named("Grams")
        kg = U(kg_expr, g.dim, model.mul(g.mag, model.mag_from_fraction(1000)))
        respelled = [
            (hz, U("au::pow<-1>(au::Seconds{})", model.inv(sec.dim), model.inv(sec.mag))),
            (named("Liters"), U("au::pow<3>(au::Deci<au::Meters>{})", model.power(m.dim, 3), model.power(model.mul(m.mag, model.mag_from_fraction(Fraction(1, 10))), 3))),
            (n_, U("(%s * au::Meters{} / au::pow<2>(au::Seconds{}))" % kg_expr, model.div(model.mul(kg.dim, m.dim), model.power(sec.dim, 2)), model.div(model.mul(kg.mag, m.mag), model.power(sec.mag, 2)))),
            (named("Joules"), U("(au::Newtons{} * au::Meters{})", model.mul(n_.dim, m.dim), model.mul(n_.mag, m.mag))),
            (U("au::Kilo<au::Hertz>{}", hz.dim, model.mul(hz.mag, model.mag_from_fraction(1000))), U("au::pow<-1>(au::Milli<au::Seconds>{})", model.inv(sec.dim), model.inv(model.mul(sec.mag, model.mag_from_fraction(Fraction(1, 1000)))))),
        ]
        for ua in [m, sec, named("Feet")] + rnd.sample(pool, 6 if thorough else 3):
            if ua.expr in NAMED_COLLISIONS:
                continue
            respelled.append((ua, U("(au::Unos{} * %s)" % ua.expr, ua.dim, ua.mag)))
            respelled.append((ua, U("(%s * au::Percent{} * au::mag<100>())" % ua.expr, ua.dim, ua.mag)))
        for a, b in respelled:
            assert model.key(a.dim) == model.key(b.dim) and model.key(a.mag) == model.key(b.mag), (a.expr, b.expr)
            pairs.append((a, b))
            pairs.append((b, a))
    except KeyError as e:
        raise AnalysisBroken("library unit missing for the respelled pairs: %s" % e)
    for nm in ("Meters", "Feet"):
        sp = [s_.format(x="au::%s{}" % nm) for s_, _ in SAME_BASE_POWERS]
        combos = [(a, b) for a in sp for b in sp if a != b]
        for a, b in (combos if thorough or nm == "Meters" else rnd.sample(combos, 12)):
            pairs.append((byexpr[a], byexpr[b]))
    allu = pool + extra
    for _ in range(300 if thorough else 40):
        pairs.append((rnd.choice(allu), rnd.choice(allu)))
    rep_pairs = [(a, b) for a in REPS for b in REPS]
    n = 0
    seen_pairs = set()
    for (ua, ub) in pairs:
        if (ua.expr, ub.expr) in seen_pairs:
            continue
        if ua.expr != ub.expr and ua.expr in NAMED_COLLISIONS and NAMED_COLLISIONS[ua.expr] == NAMED_COLLISIONS.get(ub.expr):
            continue  # two distinct named units of identical dimension, magnitude and origin in one product: documented limitation
        seen_pairs.add((ua.expr, ub.expr))
        rps = rep_pairs if thorough and n < 20 else rnd.sample(rep_pairs, 4)
        n += 1
        for (r1, r2) in rps:
            lines = ["using UA = decltype(%s); using UB = decltype(%s); using R1 = %s; using R2 = %s;" % (ua.expr, ub.expr, r1, r2),
                     "constexpr auto qa = au::make_quantity<UA>(R1{6}); constexpr auto qb = au::make_quantity<UB>(R2{3});"]
            intdiv = model.is_int(r1) and model.is_int(r2)
            equiv = model.key(ua.dim) == model.key(ub.dim) and model.key(ua.mag) == model.key(ub.mag)
            for opn, op, dim, mag in (("mul", "*", model.mul(ua.dim, ub.dim), model.mul(ua.mag, ub.mag)),
                                      ("div", "/", model.div(ua.dim, ub.dim), model.div(ua.mag, ub.mag))):
                if opn == "div" and intdiv and not equiv:
                    continue  # integer division guard: witness pairs below
                lines.append("using T_%s = decltype(qa %s qb);" % (opn, op))
                if is_unitless(dim, mag):
                    lines.append("static_assert(std::is_same<T_%s, decltype(R1{} %s R2{1})>::value, \"units cancel: %s must collapse to the raw number type\");" % (opn, op, opn))
                    lines.append("static_assert((qa %s qb) == (R1{6} %s R2{3}), \"value of the collapsed %s\");" % (op, op, opn))
                else:
                    lines.append("static_assert(std::is_same<typename T_%s::Rep, decltype(R1{} %s R2{1})>::value, \"rep of %s\");" % (opn, op, opn))
                    lines.append(unit_assert("typename T_%s::Unit" % opn, dim, mag, opn))
                    lines.append("static_assert((qa %s qb).in(typename T_%s::Unit{}) == (R1{6} %s R2{3}), \"value of %s\");" % (op, opn, op, opn))
            items.append(witness.Item("types:%s|%s|%s,%s" % (ua.expr, ub.expr, r1, r2), "\n".join(lines), "accept", None,
                                      dict(desc="type / unit / value of q1*q2 and q1/q2 for %s (%s) and %s (%s)" % (ua.expr, r1, ub.expr, r2))))
    # powers and roots
    for ua in rnd.sample(allu, 30 if thorough else 8):
        for r in (("int32_t", "double", "float", "int64_t") if thorough else ("int32_t", "double")):
            lines = ["using UA = decltype(%s); using R = %s; constexpr auto q = au::make_quantity<UA>(R{2});" % (ua.expr, r)]
            for e in range(-4, 5):
                if e < 0 and model.is_int(r):
                    continue
                dim, mag = model.power(ua.dim, e), model.power(ua.mag, e)
                nm = "p%s%d" % ("m" if e < 0 else "", abs(e))
                lines.append("using T_%s = decltype(au::int_pow<%d>(q));" % (nm, e))
                if is_unitless(dim, mag) and e != 0 and False:
                    pass
                lines.append("static_assert(std::is_same<typename T_%s::Rep, R>::value, \"rep of int_pow\");" % nm)
                lines.append(unit_assert("typename T_%s::Unit" % nm, dim, mag, nm))
            for fn, num, den in (("sqrt", 1, 2), ("cbrt", 1, 3)):
                dim, mag = model.power(ua.dim, Fraction(num, den)), model.power(ua.mag, Fraction(num, den))
                lines.append("using T_%s = decltype(au::%s(q)); static_assert(std::is_same<typename T_%s::Rep, decltype(std::%s(R{}))>::value, \"rep of %s\");" % (fn, fn, fn, fn, fn))
                lines.append(unit_assert("typename T_%s::Unit" % fn, dim, mag, fn))
            # scalar / quantity (floating scalar avoids the integer-division guard)
            lines.append("using T_inv = decltype(1.0 / q); static_assert(std::is_same<typename T_inv::Rep, decltype(1.0 / R{1})>::value, \"rep of 1/q\");")
            lines.append(unit_assert("typename T_inv::Unit", model.inv(ua.dim), model.inv(ua.mag), "inv"))
            items.append(witness.Item("powers:%s|%s" % (ua.expr, r), "\n".join(lines), "accept", None,
                                      dict(desc="unit and rep of int_pow<-4..4>, sqrt, cbrt, 1/q for %s (%s)" % (ua.expr, r))))
    return items


def all_pair_items(units, thorough):
    """Every PAIR of library units ("all pairs of units from the library"): the product and the
    quotient of two quantities exist and carry the model's dimension and magnitude (or collapse).
    One witness per first unit; a pair the library cannot order (two named units that tie on every
    criterion) is a hard error inside it and is reported with the pair."""
    items = []
    for i, a in enumerate(units):
        lines = ["constexpr auto qa = au::make_quantity<au::%s>(6.0);" % a.name]
        others = units[i:]
        for j, b in enumerate(others):
            lines.append("constexpr auto qb%d = au::make_quantity<au::%s>(3.0);" % (j, b.name))
            for opn, op, dim, mag in (("m", "*", model.mul(a.dim, b.dim), model.mul(a.mag, b.mag)), ("d", "/", model.div(a.dim, b.dim), model.div(a.mag, b.mag))):
                if is_unitless(dim, mag):
                    lines.append("static_assert(std::is_same<decltype(qa %s qb%d), const double>::value || std::is_same<decltype(qa %s qb%d), double>::value, \"%s %s %s collapses to a raw number\");" % (op, j, op, j, a.name, op, b.name))
                else:
                    lines.append(unit_assert("typename decltype(qa %s qb%d)::Unit" % (op, j), dim, mag, "%s%d" % (opn, j)))
        items.append(witness.Item("allpairs:%s" % a.name, "\n".join(lines), "accept", None,
                                  dict(desc="product and quotient of %s with each of the %d library units from it onwards" % (a.name, len(others)))))
    return items


def guard_items(rnd, thorough):
    items = []
    pre = "struct A : decltype(au::Meters{} * au::mag<3>()) {}; struct B : decltype(au::Seconds{} * au::mag<5>()) {}; struct A2 : decltype(au::Meters{} * au::mag<7>()) {}; struct AE : A { static constexpr auto origin() { return au::make_quantity<A>(5); } };\n"  # equivalent as a quantity unit, told apart by its origin (no ordering tie)
    ints = ["int", "uint8_t", "int64_t", "uint16_t"]
    for r1 in ints:
        for r2 in ints if thorough else ints[:2]:
            h = pre + "using R1 = %s; using R2 = %s;\n" % (r1, r2)
            mk = "auto a = au::make_quantity<A>(R1{6}); auto b = au::make_quantity<B>(R2{3}); auto a2 = au::make_quantity<A2>(R2{3}); auto ae = au::make_quantity<AE>(R2{3}); (void)a; (void)b; (void)a2; (void)ae;"
            for nm, code, exp in [
                ("q_div_q_otherdim", "(void)(a / b);", "reject"),
                ("q_div_q_samedim_nonequiv", "(void)(a / a2);", "reject"),
                ("q_div_q_equiv", "(void)(a / ae); (void)(a / a);", "accept"),
                ("int_div_q", "(void)(R1{6} / b);", "reject"),
                ("q_div_unblocked", "(void)(a / au::unblock_int_div(b)); (void)(a / au::unblock_int_div(a2));", "accept"),
                ("int_div_unblocked", "(void)(R1{6} / au::unblock_int_div(b));", "accept"),
                ("q_div_int", "(void)(a / R2{3});", "accept"),
                ("q_div_double_q", "(void)(a / au::make_quantity<B>(2.0)); (void)(au::make_quantity<A>(2.0) / b);", "accept"),
                ("double_div_q", "(void)(2.0 / b);", "accept"),
            ]:
                items.append(witness.Item("guard:%s/%s,%s" % (nm, r1, r2), h + "void w() { %s %s }" % (mk, code), exp, None,
                                          dict(desc="integer-division guard: `%s` with reps %s, %s" % (code, r1, r2))))
    # unblock_int_div when the units cancel: by the statement ("collapsing to a raw number exactly when
    # the units cancel") the result should be the raw quotient, as it is without the wrapper
    items.append(witness.Item("guard:unblock_collapse", pre + "static_assert(std::is_same<decltype(au::make_quantity<A>(6) / au::make_quantity<A>(2)), int>::value, \"plain division collapses\");\n"
                              "static_assert(std::is_same<decltype(au::make_quantity<A>(6) / au::unblock_int_div(au::make_quantity<A>(2))), int>::value, \"a / unblock_int_div(b) collapses when the units cancel\");",
                              "accept", None, dict(desc="a / unblock_int_div(b) with cancelling units is a raw number, like a / b")))
    # unblock_int_div: value and unit
    items.append(witness.Item("guard:unblock_value", pre + "constexpr auto r = au::make_quantity<A>(7) / au::unblock_int_div(au::make_quantity<B>(2));\n"
                              "static_assert(r.in(A{} / B{}) == 3, \"value of unblocked integer division\");\n"
                              "static_assert(au::are_units_quantity_equivalent(decltype(r)::unit, A{} / B{}), \"unit of unblocked integer division\");\n"
                              "constexpr auto r2 = 7 / au::unblock_int_div(au::make_quantity<B>(2)); static_assert(r2.in(au::pow<-1>(B{})) == 3, \"\");",
                              "accept", None, dict(desc="value and unit of a / unblock_int_div(b)")))
    # as_raw_number is the unit-only conversion to the unitless unit: accepted exactly when the
    # documented policy permits the factor for the rep - truncation half (integer factor) AND
    # overflow half (2147 * factor <= max) - over every integral rep and factors on both sides of its threshold
    for r in ("int8_t", "uint8_t", "int16_t", "uint16_t", "int32_t", "uint32_t", "int64_t", "uint64_t"):
        mx = int(model.type_max(r))
        ks = sorted(set(k for k in (2, 3, mx // 2147, mx // 2147 + 1, 1000, 10 ** 6 + 1, mx // 3, mx) if 2 <= k <= mx))
        for k in ks:
            exp = "accept" if model.implicit_ok(model.factor(k), r, r) else "reject"
            code = "using R = %s;\nvoid w() { (void)au::as_raw_number(au::make_quantity<decltype(au::Unos{} * au::mag<%dULL>())>(R{1})); }" % (r, k)
            items.append(witness.Item("raw:scaled_unos/%d/%s" % (k, r), code, exp, None, dict(desc="as_raw_number of a quantity of %d unos with rep %s (policy: %s)" % (k, r, exp))))
    for r in ("int", "double", "uint8_t"):
        h = "using R = %s;\n" % r
        cases = [
            ("unos", "au::make_quantity<au::Unos>(R{3})", "accept"),
            ("unitless_product", "au::make_quantity<au::UnitProductT<>>(R{3})", "accept"),
            ("dimensioned", "au::make_quantity<au::Meters>(R{3})", "reject"),
            ("percent", "au::make_quantity<au::Percent>(R{3})", "accept" if r == "double" else "reject"),
            ("kilo_unos", "au::make_quantity<au::Kilo<au::Unos>>(R{3})", "accept" if r != "uint8_t" else "reject"),
            ("rad_per_rad", "au::make_quantity<decltype(au::Radians{} / au::Radians{})>(R{3})", "accept"),
            ("deg_per_rad", "au::make_quantity<decltype(au::Degrees{} / au::Radians{})>(R{3})", "accept" if r == "double" else "reject"),
        ]
        for nm, ex, exp in cases:
            items.append(witness.Item("raw:%s/%s" % (nm, r), h + "void w() { (void)au::as_raw_number(%s); }" % ex, exp, None,
                                      dict(desc="as_raw_number(%s) with rep %s" % (ex, r))))
        items.append(witness.Item("raw:identity/%s" % r, h + "static_assert(au::as_raw_number(R{3}) == R{3} && std::is_same<decltype(au::as_raw_number(R{3})), R>::value, \"identity on non-quantities\");\n"
                                  "static_assert(au::as_raw_number(au::make_quantity<au::Unos>(R{3})) == R{3}, \"value\");", "accept", None, dict(desc="as_raw_number identity / value for %s" % r)))
    return items


def ir_pairs(pool, extra, rnd, thorough):
    blocks, meta = [], {}
    allu = pool + extra
    k = 0
    sel = [(rnd.choice(allu), rnd.choice(allu)) for _ in range(40 if thorough else 10)]
    sel = [(a, b) for (a, b) in sel if not (a.expr != b.expr and a.expr in NAMED_COLLISIONS and NAMED_COLLISIONS[a.expr] == NAMED_COLLISIONS.get(b.expr))]
    byexpr = {u.expr: u for u in allu}
    sel += [(byexpr["au::Hertz{}"], byexpr["au::Seconds{}"]), (byexpr["au::Percent{}"], byexpr["au::pow<-1>(au::Percent{})"])]
    rp = [("int32_t", "int32_t"), ("int8_t", "int8_t"), ("uint16_t", "int64_t"), ("double", "double"), ("float", "double"), ("int32_t", "double"),
          ("uint8_t", "uint8_t"), ("int64_t", "uint32_t"), ("float", "float"), ("uint64_t", "uint64_t")]
    for (ua, ub) in sel:
        for (r1, r2) in (rp if thorough else rnd.sample(rp, 4)):
            ls = ["using MA%d = decltype(%s); using MB%d = decltype(%s); using X%d = %s; using Y%d = %s;" % (k, ua.expr, k, ub.expr, k, r1, k, r2)]
            mulless = is_unitless(model.mul(ua.dim, ub.dim), model.mul(ua.mag, ub.mag))
            divless = is_unitless(model.div(ua.dim, ub.dim), model.div(ua.mag, ub.mag))
            qa, qb = "au::make_quantity<MA%d>(a)" % k, "au::make_quantity<MB%d>(b)" % k
            rtm = "decltype(X%d{} * Y%d{})" % (k, k)
            ls.append('extern "C" %s au_mul_%d(X%d a, Y%d b) { auto r = %s * %s; return %s; }' % (rtm, k, k, k, qa, qb, "r" if mulless else "r.in(decltype(r)::unit)"))
            ls.append('extern "C" %s ref_mul_%d(X%d a, Y%d b) { return a * b; }' % (rtm, k, k, k))
            names = ["mul"]
            intdiv = model.is_int(r1) and model.is_int(r2)
            equiv = model.key(ua.dim) == model.key(ub.dim) and model.key(ua.mag) == model.key(ub.mag)
            rtd = "decltype(X%d{} / Y%d{1})" % (k, k)
            if not intdiv or equiv:
                ls.append('extern "C" %s au_div_%d(X%d a, Y%d b) { auto r = %s / %s; return %s; }' % (rtd, k, k, k, qa, qb, "r" if divless else "r.in(decltype(r)::unit)"))
            else:
                ls.append('extern "C" %s au_div_%d(X%d a, Y%d b) { auto r = %s / au::unblock_int_div(%s); return r.in(decltype(r)::unit); }' % (rtd, k, k, k, qa, qb))
            ls.append('extern "C" %s ref_div_%d(X%d a, Y%d b) { return a / b; }' % (rtd, k, k, k))
            names.append("div")
            if not model.is_int(r1):
                ls.append('extern "C" auto au_sqrt_%d(X%d a) { auto r = au::sqrt(%s); return r.in(decltype(r)::unit); }' % (k, k, qa))
                ls.append('extern "C" auto ref_sqrt_%d(X%d a) { return std::sqrt(a); }' % (k, k))
                ls.append('extern "C" auto au_cbrt_%d(X%d a) { auto r = au::cbrt(%s); return r.in(decltype(r)::unit); }' % (k, k, qa))
                ls.append('extern "C" auto ref_cbrt_%d(X%d a) { return std::cbrt(a); }' % (k, k))
                ls.append('extern "C" auto au_inv_%d(X%d a) { auto r = 1.0 / %s; return r.in(decltype(r)::unit); }' % (k, k, qa))
                ls.append('extern "C" auto ref_inv_%d(X%d a) { return 1.0 / a; }' % (k, k))
                names += ["sqrt", "cbrt", "inv"]
            # scalar forms with a second rep
            ls.append('extern "C" %s au_smul_%d(X%d a, Y%d b) { auto r = %s * b; return r.in(decltype(r)::unit); }' % (rtm, k, k, k, qa))
            ls.append('extern "C" %s ref_smul_%d(X%d a, Y%d b) { return a * b; }' % (rtm, k, k, k))
            names.append("smul")
            blocks.append((k, "\n".join(ls)))
            meta[k] = (ua, ub, r1, r2, names)
            k += 1
    return blocks, meta


def monomial(n, memo):
    """(coefficient, degree) of a node that is a monomial c * x^k in the first parameter, built from
    multiplications, divisions and value-preserving casts; None otherwise."""
    if id(n) in memo:
        return memo[id(n)]
    r = None
    if n.op == "param":
        r = (Fraction(1), 1) if n.attr == 0 else None
    elif n.op == "const":
        v = n.cval()
        if isinstance(v, Fraction):
            r = (v, 0)
        elif n.ty in dag.INT_BITS:
            r = (Fraction(dag.as_signed(v, n.ty)), 0)
    elif n.op in ("fmul", "mul"):
        a, b = monomial(n.args[0], memo), monomial(n.args[1], memo)
        if a and b:
            r = (a[0] * b[0], a[1] + b[1])
    elif n.op in ("fdiv", "sdiv", "udiv"):
        a, b = monomial(n.args[0], memo), monomial(n.args[1], memo)
        if a and b and b[0] != 0:
            r = (a[0] / b[0], a[1] - b[1])
    elif n.op in ("sext", "zext", "trunc", "fpext", "fptrunc"):
        r = monomial(n.args[0], memo)
    memo[id(n)] = r
    return r


def _nodes(root):
    seen, out, todo = set(), [], [root]
    while todo:
        x = todo.pop()
        if id(x) in seen:
            continue
        seen.add(id(x))
        out.append(x)
        todo.extend(x.args)
    return out


def int_pow_values(ctx, ipre, rnd):
    """int_pow<N>(q) holds x^N: the recursive helper is unfolded on the constant exponent, the
    result must be the monomial 1 * x^N, and no intermediate may be a power of x beyond the result's
    (|k| <= |N|): an intermediate of higher degree overflows (or underflows to 0) for values whose
    N-th power is still representable, which no way of 'applying the raw operator' does."""
    reps = [("double", range(-4, 5)), ("float", range(-4, 5)), ("long double", ()), ("int32_t", range(0, 5)), ("int64_t", range(0, 5)),
            ("uint8_t", range(0, 5)), ("int16_t", range(0, 5)), ("uint64_t", range(0, 5))]
    blocks, meta = [], {}
    k = 0
    for r, exps in reps:
        for e in exps:
            for u in ("au::Meters", "decltype(au::Meters{} / au::Seconds{})"):
                blocks.append((k, 'extern "C" auto ipw_%d(%s x) { auto r = au::int_pow<%d>(au::make_quantity<%s>(x)); return r.in(decltype(r)::unit); }' % (k, r, e, u)))
                meta[k] = (r, e, u)
                k += 1
    pre = ipre + '#include "au/units/meters.hh"\n#include "au/units/seconds.hh"\n'
    mod, alive, dropped = irbuild.build_blocks(ctx, pre, blocks, "c14pow", only=lambda n: n.startswith("ipw_") or "int_pow_impl" in n)
    for kk, msg in dropped.items():
        ctx.violation("int_pow:compile|%s|%d" % meta[kk][:2], "int_pow<%d> on rep %s does not compile: %s" % (meta[kk][1], meta[kk][0], msg))
    n = 0
    for kk in alive:
        r, e, u = meta[kk]
        key = "int_pow:%s|%d|%s" % (r, e, u)
        n += 1
        d = dag.build(mod.funcs["ipw_%d" % kk], mod, unfold=12)
        memo = {}
        m = monomial(d.ret, memo)
        if m != (Fraction(1), e):
            ctx.violation(key + "|value", "int_pow<%d> of a %s quantity is not x^%d of the stored value: %s" % (e, r, e, "c=%s, degree %s" % m if m else "not a power of x"), d.ret.pretty())
            continue
        worst = None
        seen = set()

        def walk(x):
            nonlocal worst
            if id(x) in seen:
                return
            seen.add(id(x))
            mm = monomial(x, memo)
            if mm and abs(mm[1]) > abs(e) and (worst is None or abs(mm[1]) > abs(worst[1])):
                worst = (x, mm[1])
            for a in x.args:
                walk(a)
        walk(d.ret)
        # negative exponents (round 10, C14j): the raw expression is 1 / (x * ... * x) - one division, applied
        # last, so that the result is the correctly rounded reciprocal whenever the positive power is exact
        # (x = 3: 1/9).  A multiplication of already inverted values, (1/x)^N, has the same degree and the
        # same number of operations but rounds 1/x first and compounds that error N times.
        if e < 0:
            late = [x for x in _nodes(d.ret) if x.op in ("fmul", "mul") and any((monomial(a, memo) or (0, 0))[1] < 0 for a in x.args)]
            if late:
                ctx.violation(key + "|order", "int_pow<%d> of a %s quantity multiplies values that are already inverted ((1/x)^%d): it differs from the raw 1 / x^%d whenever 1/x is inexact (x = 3, 10, ...)"
                              % (e, r, -e, -e), "product of inverted values: %s\nresult: %s" % (late[0].pretty(), d.ret.pretty()))
                continue
        if worst is not None:
            ctx.violation(key + "|intermediate", "int_pow<%d> of a %s quantity forms x^%d on the way to x^%d: that intermediate overflows / underflows for values whose power %d is representable"
                          % (e, r, worst[1], e, e), "intermediate: %s\nresult: %s" % (worst[0].pretty(), d.ret.pretty()))
    ctx.require(n >= 80, "only %d int_pow wrappers analysed" % n)
    return n


def body(ctx):
    rnd = random.Random(ctx.seed)
    configs = cxx.configs_for(ctx.tier)
    units = atoms.discover_units(ctx)
    hdrs = atoms.unit_includes(units)
    prelude = witness.DEFAULT_PRELUDE + USING + hdrs
    atoms.readout_units(ctx, units, prelude)
    pool, extra = unit_pool(units, rnd, 0)
    items = type_items(pool, extra, rnd, ctx.thorough) + guard_items(rnd, ctx.thorough) + all_pair_items(units, ctx.thorough)
    results, stats = witness.judge(ctx, items, configs, prelude=prelude, batch=40, tag="c14")
    nbad = witness.report_mismatches(ctx, items, results, prelude=prelude)
    ctx.log("W: %d items, %d mismatching" % (len(items), nbad))

    blocks, meta = ir_pairs(pool, extra, rnd, ctx.thorough)
    ipre = "#include <cstdint>\n#include <cmath>\n#include \"au/au.hh\"\n#include \"au/math.hh\"\n" + USING + hdrs
    chunks = [blocks[i:i + 16] for i in range(0, len(blocks), 16)]
    nob = [0, 0]
    dropped_all = {}

    def do(arg):
        ci, ch = arg
        mod, alive, dropped = irbuild.build_blocks(ctx, ipre, ch, "c14i%d" % ci, only=lambda n: n.startswith(("au_", "ref_")))
        fs = []
        n = nd = 0
        for k in alive:
            ua, ub, r1, r2, names = meta[k]
            for nm in names:
                n += 1
                da = dag.build(mod.funcs["au_%s_%d" % (nm, k)], mod)
                dr = dag.build(mod.funcs["ref_%s_%d" % (nm, k)], mod)
                if da.ret == dr.ret:
                    nd += 1
                else:
                    fs.append(("value:%s|%s|%s|%s,%s" % (nm, ua.expr, ub.expr, r1, r2),
                               "%s of quantities of %s (%s) and %s (%s) does not apply the raw operator / std function to the stored values" % (nm, ua.expr, r1, ub.expr, r2),
                               "Au:  %s\nraw: %s" % (da.ret.pretty(), dr.ret.pretty())))
        return n, nd, fs, {k: (meta[k], v) for k, v in dropped.items()}

    for n, nd, fs, dropped in cxx.pmap(do, list(enumerate(chunks))):
        nob[0] += n
        nob[1] += nd
        for key, what, detail in fs:
            ctx.violation(key, what, detail)
        dropped_all.update(dropped)
    for k, (m, msg) in dropped_all.items():
        ctx.violation("value:compile|%s|%s|%s,%s" % (m[0].expr, m[1].expr, m[2], m[3]), "product / quotient wrappers do not compile: %s" % msg)
    ctx.require(nob[0] >= 100, "only %d value wrappers analysed" % nob[0])
    npow = int_pow_values(ctx, ipre, rnd)
    ctx.coverage.update(dict(
        evaluations=len(items) * len(configs) + nob[0], distinct_nontrivial=len(items) + nob[0],
        rule="W item per (unit pair, rep pair) asserting result type, collapse-to-raw-number iff the model product/quotient is unitless (also for a unit divided by a differently spelled equal unit: Hz / s^-1, L / dm^3, N / (kg m / s^2), u / (unos * u)), unit exponents, rep and a constant value; per (unit, rep) for int_pow<-4..4>, sqrt, cbrt, 1/q; witness pairs for the integer-division guard and as_raw_number; IR wrapper pair per (operation, unit pair, rep pair) compared by DAG equality with the raw operator; int_pow<N> per (rep, N): recursive helper unfolded on the constant exponent, result is the monomial x^N, no intermediate has higher degree, and for N < 0 no multiplication has an inverted operand (division last)",
        samples=[dict(key=items[0].key), dict(key=items[-1].key, code=items[-1].code)],
        exhaustive=False, w_items=len(items), w_mismatches=nbad, ir_pairs=nob[0], ir_equal=nob[1], configs=[c.name for c in configs], engine_stats=stats,
        int_pow_wrappers=npow,
        not_decided="rounding of int_pow beyond 'it is the power x^N formed from powers of no higher degree, and for N < 0 the one division is applied last'"))
    ctx.assumptions += ["unblock_int_div path: acceptance, value and unit are checked; that it does not collapse to a raw number when the units cancel is a listed known finding"]


def main(argv=None):
    return common.run_check(PROP, "exploration", body, argv)


if __name__ == "__main__":
    sys.exit(main())
