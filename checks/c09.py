"""C09 - QuantityPoint obeys exact affine semantics  (I + W).

With every point unit modelled as (m, o) = (size, position of its zero) in base units:
  conversion   value_out = (x*m1 + o1 - o2) / m2    -- checked as the exact quasi-affine form of the
               IR on a cell partition of the whole source range (integral reps) or as the real affine
               form of the floating DAG with correctly rounded constants;
  p - p'       (x*m1 + o1 - y*m2 - o2) / mR  in the unit R of the result (read out of the type);
  p +- q       (x*m1 + o1 +- y*v - oR) / mR;
  comparisons  truth table over the orderings of two atoms that are positions on one common scale.
W: operations without affine meaning are compile-fail witnesses.
"""
import random
import sys
from fractions import Fraction

from vlib import common, cxx, witness, model, ir, dag, cells, irbuild, ordering, extract
from vlib.common import AnalysisBroken
from checks import points

PROP = "C09"
USING = "".join("using std::%s; " % t for t in ["int8_t", "uint8_t", "int16_t", "uint16_t", "int32_t", "uint32_t", "int64_t", "uint64_t"]) + "\n"
CMPS = [("eq", "=="), ("ne", "!="), ("lt", "<"), ("le", "<="), ("gt", ">"), ("ge", ">=")]
EXPECT = {"eq": (0, 1, 0), "ne": (1, 0, 1), "lt": (1, 0, 0), "le": (1, 1, 0), "gt": (0, 0, 1), "ge": (0, 1, 1)}


def make_units(ctx, rnd):
    lib = points.read_library(ctx)
    gens = []
    n = 24 if ctx.thorough else 8
    base = "au::Kelvins"
    for i in range(n):
        m = Fraction(rnd.randrange(1, 1000), rnd.randrange(1, 1000)) if i % 3 else Fraction(rnd.choice([1, 2, 5, 10, 1000]))
        kind = i % 4
        if kind == 0:
            g = points.generated("c9_%d" % i, base, m, None, None)
        else:
            ou = Fraction(rnd.randrange(1, 200), rnd.randrange(1, 200)) if i % 2 else Fraction(1, rnd.choice([1, 10, 100]))
            ov = rnd.randrange(1, 50000) * (1 if kind != 3 else -1)
            g = points.generated("c9_%d" % i, base, m, ou, ov)
        gens.append(g)
    return lib, gens


def safe_bound(s, d, x, rep):
    """True if every intermediate any reasonable evaluation order could form is far inside `rep`."""
    F = Fraction(1)
    from math import gcd
    vals = [s.m, d.m] + [u.o_unit for u in (s, d) if u.o_unit is not None]
    # finest unit: gcd of the rationals
    num = 0
    den = 1
    for v in vals:
        den = den * v.denominator // gcd(den, v.denominator)
    for v in vals:
        num = gcd(num, int(v * den))
    F = Fraction(num, den)
    mag = (abs(x) * s.m + abs(s.o) + abs(d.o)) / F
    scale = max(s.m, d.m, *(u.o_unit for u in (s, d) if u.o_unit is not None)) / F
    lim = model.type_max(rep)
    return mag * scale * 4 <= lim


def conv_blocks(pairs, reps):
    blocks, meta = [], {}
    k = 0
    for (s, d) in pairs:
        for (r1, t) in reps:
            defs = "\n".join(x for x in (s.defs, d.defs) if x)
            txt = (defs + "\n" if defs else "") + \
                'extern "C" %s cv_%d(%s x) { return au::make_quantity_point<%s>(x).coerce_in<%s>(%s{}); }\n' % (t, k, r1, s.cpp, t, d.cpp) + \
                'extern "C" %s ca_%d(%s x) { return au::make_quantity_point<%s>(x).as<%s>(%s{}).in(%s{}); }' % (t, k, r1, s.cpp, t, d.cpp, d.cpp)
            blocks.append((k, txt))
            meta[k] = (s, d, r1, t)
            k += 1
    return blocks, meta


def dedupe_defs(blocks_text):
    """Generated unit structs may be needed by several blocks: emit each definition once."""
    seen = set()
    out = []
    for line in blocks_text.split("\n"):
        if line.startswith("struct G") and line in seen:
            continue
        if line.startswith("struct G"):
            seen.add(line)
        out.append(line)
    return "\n".join(out)


def analyse_conv(ctx, mod, k, s, d, r1, t, findings):
    key = "conv:%s->%s:%s->%s" % (s.name, d.name, r1, t)
    fc, fa = mod.funcs["cv_%d" % k], mod.funcs["ca_%d" % k]
    dc, da = dag.build(fc, mod), dag.build(fa, mod)
    nob = ndis = 0
    nob += 1
    if dc.ret != da.ret:
        findings.append((key + "|as-vs-coerce", "as<T>(u).in(u) and coerce_in<T>(u) compute different things for %s" % key,
                         "coerce_in: %s\nas.in:     %s" % (dc.ret.pretty(), da.ret.pretty())))
    else:
        ndis += 1
    A = s.m / d.m
    Bc = (s.o - d.o) / d.m
    if model.is_int(r1) and model.is_int(t):
        bits, signed = model.INT_TYPES[model.canon(t)]
        lo, hi = model.int_range(r1)
        part = cells.analyse({"v": dc.ret}, lo, hi, ret_views={"v": (bits, signed)}, arith={"v": dc.arith})
        # model form: trunc((P x + Q)/D)
        from math import gcd
        D = A.denominator * Bc.denominator // gcd(A.denominator, Bc.denominator)
        want = cells.Form("tr", int(A * D), int(Bc * D), D)
        calc = model.common_type(r1, t)
        # the library's documented rule (quantity_point.hh, IntermediateRep): a signed destination makes the
        # calculation rep the signed version of the common type, whatever the widths of the two reps
        if model.INT_TYPES[model.canon(t)][1] and not model.INT_TYPES[model.canon(calc)][1]:
            calc = "int%d_t" % model.INT_TYPES[model.canon(calc)][0]
        clo, chi = model.int_range(calc)
        for cell, res in part:
            v = res["v"]
            if res.get("!v") is not None and not isinstance(v, cells.Bad):
                v = res["!v"]
            nob += 1
            f, l = cell.first(), cell.last()
            tlo, thi = model.int_range(t)
            # premise of the statement: the intermediate displacement is representable in the
            # calculation rep (an unsigned rep cannot hold a negative displacement: the library then
            # relies on modular arithmetic and nothing is claimed)
            disp_ok = model.INT_TYPES[model.canon(calc)][1] or d.o >= s.o
            if isinstance(v, cells.Form):
                ok = True
                for x in (f, l, cell.example()):
                    exact = A * x + Bc
                    if not (tlo <= exact <= thi) or not disp_ok or not (clo <= x <= chi):
                        continue  # true result not representable in the target rep (or the input not in the calculation rep): nothing is claimed
                    got = Fraction(v.at(x))
                    tr = Fraction(cells.tdiv(exact.numerator, exact.denominator))
                    if got != tr and got != exact:
                        ok = False
                        findings.append((key + "|value", "point conversion %s: x=%d gives %s, the affine map (x*%s + %s - %s)/%s = %s" % (key, x, got, s.m, s.o, d.o, d.m, exact),
                                         "form on cell %r: %r, expected %r" % (cell, v, want)))
                        break
                inrange = [x for x in (f, l) if tlo <= A * x + Bc <= thi and clo <= x <= chi]
                if ok and disp_ok and len(inrange) == 2 and not ((v.p, v.q, v.d) == (want.p, want.q, want.d) or v.is_const() and f == l):
                    # same values at three points of a monotone quasi-affine form with another shape
                    if not (v.kind == "aff" and Fraction(v.p, v.d) == A and Fraction(v.q, v.d) == Bc):
                        findings.append((key + "|form", "point conversion %s: form %r differs from the model map %r on cell %r" % (key, v, want, cell), ""))
                        ok = False
                ndis += ok
            elif isinstance(v, cells.Bad):
                bad_x = None
                for x in (f, l, cell.example()):
                    exact = A * x + Bc
                    if disp_ok and tlo <= exact <= thi and clo <= x <= chi and safe_bound(s, d, x, calc) and safe_bound(s, d, x, r1):
                        bad_x = x
                if bad_x is not None:
                    findings.append((key + "|overflow", "point conversion %s: %s at %s for x=%d although the result %s and every intermediate are far inside the reps"
                                     % (key, v.kind, mod.where(v.node.dbg) if v.node is not None and v.node.dbg else "?", bad_x, A * bad_x + Bc), ""))
                else:
                    ndis += 1
            else:
                raise AnalysisBroken("%s not analysable on %r: %r" % (key, cell, v))
    else:
        nob += 1
        fa2 = dag.fp_affine(dc.ret)
        node = dc.ret
        # a final fptosi / fptoui around the floating computation
        if fa2 is None and node.op in ("fptosi", "fptoui"):
            fa2 = dag.fp_affine(node.args[0])
        if fa2 is None:
            findings.append((key + "|fpform", "floating point conversion %s is not an affine chain of IEEE operations" % key, dc.ret.pretty()))
        else:
            coef, c0, ops = fa2
            a = coef.get(0, Fraction(0))
            prec = 24 if "float" in (r1, t) and "double" not in (r1, t) and "long double" not in (r1, t) else 53
            tol = Fraction(1, 2 ** (prec - 4))
            okA = abs(a - A) <= tol * abs(A)
            okB = abs(c0 - Bc) <= tol * max(abs(Bc), abs(s.o / d.m), abs(d.o / d.m), Fraction(1, 10 ** 9)) * 4
            nfl = sum(1 for o in ops if o.op in ("fadd", "fsub", "fmul", "fdiv"))
            if not (okA and okB):
                findings.append((key + "|fpvalue", "floating point conversion %s computes %s*x + %s, the affine map is %s*x + %s" % (key, float(a), float(c0), float(A), float(Bc)), dc.ret.pretty()))
            elif nfl > 4:
                findings.append((key + "|fpsteps", "floating point conversion %s takes %d rounding steps" % (key, nfl), dc.ret.pretty()))
            else:
                ndis += 1
    return nob, ndis


def twoparam_blocks(pairs, reps):
    blocks, meta = [], {}
    k = 0
    for (s, d) in pairs:
        for (r1, r2) in reps:
            defs = "\n".join(x for x in (s.defs, d.defs) if x)
            P1 = "au::make_quantity_point<%s>(x)" % s.cpp
            P2 = "au::make_quantity_point<%s>(y)" % d.cpp
            Q2 = "au::make_quantity<%s>(y)" % d.cpp
            ls = [defs] if defs else []
            for nm, op in CMPS:
                ls.append('extern "C" bool t_%s_%d(%s x, %s y) { return %s %s %s; }' % (nm, k, r1, r2, P1, op, P2))
            ls.append('extern "C" auto t_diff_%d(%s x, %s y) { auto r = %s - %s; return r.in(decltype(r)::unit); }' % (k, r1, r2, P1, P2))
            ls.append('extern "C" auto t_pplusq_%d(%s x, %s y) { auto r = %s + %s; return r.in(decltype(r)::unit); }' % (k, r1, r2, P1, Q2))
            ls.append('extern "C" auto t_qplusp_%d(%s x, %s y) { auto r = %s + %s; return r.in(decltype(r)::unit); }' % (k, r1, r2, Q2, P1))
            ls.append('extern "C" auto t_pminusq_%d(%s x, %s y) { auto r = %s - %s; return r.in(decltype(r)::unit); }' % (k, r1, r2, P1, Q2))
            blocks.append((k, "\n".join(ls)))
            meta[k] = (s, d, r1, r2)
            k += 1
    return blocks, meta


def readout_result_units(ctx, meta, alive, prelude_defs, tag="c09units"):
    """(m, o) of the unit of p-p', p+q, p-q results and of the common point unit."""
    ex = extract.Extractor(ctx, prelude=witness.DEFAULT_PRELUDE + USING + points.TEMP_HDRS + prelude_defs, tag=tag)
    for k in alive:
        s, d, r1, r2 = meta[k]
        P1 = "std::declval<au::QuantityPoint<%s, %s>>()" % (s.cpp, r1)
        P2 = "std::declval<au::QuantityPoint<%s, %s>>()" % (d.cpp, r2)
        Q2 = "std::declval<au::Quantity<%s, %s>>()" % (d.cpp, r2)
        for nm, ex_ in (("diff", "%s - %s" % (P1, P2)), ("pplusq", "%s + %s" % (P1, Q2)), ("pminusq", "%s - %s" % (P1, Q2))):
            U = "typename decltype(%s)::Unit" % ex_
            ex.add("um_%s_%d" % (nm, k), "auv::Flat", "auv::flat(auv::mag_of<%s>())" % U)
            if nm != "diff":
                ex.add("uo_%s_%d" % (nm, k), "long long", "auv::origin_val<%s>()" % U)
                ex.add("uu_%s_%d" % (nm, k), "auv::Flat", "auv::origin_unit_mag<%s>()" % U)
        C = "au::CommonPointUnitT<%s, %s>" % (s.cpp, d.cpp)
        ex.add("um_c_%d" % k, "auv::Flat", "auv::flat(auv::mag_of<%s>())" % C)
        ex.add("uo_c_%d" % k, "long long", "auv::origin_val<%s>()" % C)
        ex.add("uu_c_%d" % k, "auv::Flat", "auv::origin_unit_mag<%s>()" % C)
    vals = ex.run()
    out = {}

    def frac(v):
        if v[0] == "error":
            raise AnalysisBroken("unit read-out failed: %s" % v[1])
        return model.mag_to_fraction(dict(extract.flat_to_pack(v)))

    def sll(v):
        if v[0] == "error":
            raise AnalysisBroken("unit read-out failed: %s" % v[1])
        x = v[2]
        return x - (1 << 64) if x >= 1 << 63 else x

    for k in alive:
        o = {}
        o["diff"] = (frac(vals["um_diff_%d" % k]), None)
        for nm in ("pplusq", "pminusq", "c"):
            o[nm] = (frac(vals["um_%s_%d" % (nm, k)]), frac(vals["uu_%s_%d" % (nm, k)]) * sll(vals["uo_%s_%d" % (nm, k)]))
        out[k] = o
    return out


def find_atoms(node):
    out = []
    seen = set()

    def walk(n):
        if id(n) in seen:
            return
        seen.add(id(n))
        if n.op == "icmp":
            a, b = dag.affine(n.args[0]), dag.affine(n.args[1])
            if a is not None and b is not None and a.div is None and b.div is None:
                ka, kb = set(a.coef), set(b.coef)
                if ka == {0} and kb == {1}:
                    out.append((n.args[0], n.args[1], a, b))
                elif ka == {1} and kb == {0}:
                    out.append((n.args[1], n.args[0], b, a))
        for c in n.args:
            walk(c)
    walk(node)
    return out


def audit_common_rep(premises, r1, r2):
    """Both points are first brought to the common rep and only then to the common unit: no
    arithmetic step and no narrowing may happen in a type narrower than the (promoted) common rep.
    (Scaling an operand in its own narrower rep gives the same affine form on paper, but wraps or
    truncates for values the common rep holds easily.)  Returns a complaint or None."""
    rc = model.canon(model.common_type(r1, r2))
    bits = model.INT_TYPES[rc][0]
    pbits = max(bits, 32)
    for p in premises:
        w = dag.INT_BITS.get(p.ty)
        if w is None:
            continue
        if p.op == "trunc" and w < bits:
            return "a value is narrowed to %s although the common rep of (%s, %s) is %s" % (p.ty, r1, r2, rc)
        if p.op in ("mul", "add", "sub", "sdiv", "udiv") and w < pbits:
            return "%s is carried out in %s although the common rep of (%s, %s) is %s" % (p.op, p.ty, r1, r2, rc)
    return None


def analyse_two(ctx, mod, k, s, d, r1, r2, units, findings):
    nob = ndis = 0
    base = "two:%s,%s:%s,%s" % (s.name, d.name, r1, r2)
    # premise of the statement: the displacement between the two origins, counted in the common
    # point unit, is representable in the common rep (otherwise nothing is claimed)
    mC = units["c"][0]
    rc = model.canon(model.common_type(r1, r2))
    lo, hi = model.int_range(rc)
    if not (lo <= (s.o - d.o) / mC <= hi and lo <= (d.o - s.o) / mC <= hi) or not (s.m / mC <= hi and d.m / mC <= hi):
        return 0, 0
    # comparisons
    for nm, op in CMPS:
        nob += 1
        dd = dag.build(mod.funcs["t_%s_%d" % (nm, k)], mod)
        atoms = find_atoms(dd.ret)
        if not atoms:
            findings.append((base + "|" + nm, "point comparison %s of %s does not compare one affine image of x with one of y" % (op, base), dd.ret.pretty()))
            continue
        A, B, fa, fb = atoms[0]
        a, b = fa.coef[0], fb.coef[1]
        ok = a > 0 and b > 0 and a / s.m == b / d.m and (fa.c - fb.c) == (a / s.m) * (s.o - d.o)
        if not ok:
            findings.append((base + "|" + nm, "point comparison %s of %s compares %r with %r: not the two positions x*%s+%s and y*%s+%s on one scale"
                             % (op, base, fa, fb, s.m, s.o, d.m, d.o), dd.ret.pretty()))
            continue
        why = audit_common_rep(fa.premises + fb.premises, r1, r2)
        if why:
            findings.append((base + "|" + nm + "|rep", "point comparison %s of %s: %s" % (op, base, why), dd.ret.pretty()))
            continue
        classify = lambda n, A=A, B=B: "A" if n == A else "B" if n == B else None
        try:
            got = ordering.table(dd.ret, classify)
        except ordering.NotDecidable as e:
            findings.append((base + "|" + nm, "point comparison %s of %s is not a function of the ordering of the two positions: %s" % (op, base, e), dd.ret.pretty()))
            continue
        if got != EXPECT[nm]:
            findings.append((base + "|" + nm, "point comparison %s of %s has truth table %s over (lt,eq,gt), expected %s" % (op, base, got, EXPECT[nm]), dd.ret.pretty()))
            continue
        ndis += 1
    # difference and shifts
    for nm, sign, kind in (("diff", -1, "diff"), ("pplusq", +1, "pplusq"), ("qplusp", +1, "pplusq"), ("pminusq", -1, "pminusq")):
        nob += 1
        dd = dag.build(mod.funcs["t_%s_%d" % (nm, k)], mod)
        a = dag.affine(dd.ret)
        mR, oR = units[kind]
        if nm == "diff":
            want = ({0: s.m / mR, 1: -d.m / mR}, (s.o - d.o) / mR)
        else:
            want = ({0: s.m / mR, 1: sign * d.m / mR}, (s.o - oR) / mR)
        if a is None or a.div is not None or not a.same(*want):
            findings.append((base + "|" + nm, "%s of %s computes %r, the affine meaning is %s*x %+d*%s*y + %s (result unit size %s%s)"
                             % (nm, base, a, want[0][0], sign, abs(want[0][1]), want[1], mR, "" if oR is None else ", origin %s" % oR), dd.ret.pretty()))
            continue
        why = audit_common_rep(a.premises, r1, r2)
        if why:
            findings.append((base + "|" + nm + "|rep", "%s of %s: %s" % (nm, base, why), dd.ret.pretty()))
            continue
        if nm != "diff" and oR != s.o:
            findings.append((base + "|" + nm + "|origin", "%s of %s: the result's origin is %s, not the point's origin %s" % (nm, base, oR, s.o), ""))
            continue
        ndis += 1
    return nob, ndis


def witnesses():
    pre = ("struct U : decltype(au::Kelvins{} * au::mag<3>()) {}; using R = %s;\n"
           "using P = au::QuantityPoint<U, R>; using Q = au::Quantity<U, R>;\nvoid takeq(Q); void takep(P);\n")
    forms = [
        ("p_plus_p", "(void)(p + p2);", "reject"), ("p_pluseq_p", "p += p2;", "reject"),
        ("scalar_times_p", "(void)(2 * p);", "reject"), ("p_times_scalar", "(void)(p * 2);", "reject"),
        ("p_times_p", "(void)(p * p2);", "reject"), ("p_div_scalar", "(void)(p / 2);", "reject"),
        ("p_from_zero_brace", "P z{au::ZERO}; (void)z;", "reject"), ("p_from_zero_copy", "P z = au::ZERO; (void)z;", "reject"),
        ("q_from_p", "Q x = p; (void)x;", "reject"), ("call_q_with_p", "takeq(p);", "reject"),
        ("maker_q_of_p", "(void)au::make_quantity<U>(p);", "reject"), ("q_lt_p", "(void)(q < p);", "reject"),
        ("q_eq_p", "(void)(q == p);", "reject"), ("min_q_p", "(void)min(q, p);", "reject"),
        ("p_from_q", "P x = q; (void)x;", "reject"), ("call_p_with_q", "takep(q);", "reject"),
        ("maker_p_of_q", "(void)au::make_quantity_point<U>(q);", "reject"), ("p_as_q", "(void)p.as(q);", "reject"),
        ("neg_p", "(void)(-p);", "reject"), ("q_minus_p", "(void)(q - p);", "reject"),
        # ... and EXPLICITLY: no spelling of a construction turns the one into the other (the only
        # doors are the makers with a raw number, and point - point / point +- quantity)
        ("p_brace_q", "P x{q}; (void)x;", "reject"), ("p_paren_q", "P x(q); (void)x;", "reject"), ("p_cast_q", "(void)static_cast<P>(q);", "reject"),
        ("p_functional_q", "(void)P(q);", "reject"), ("p_brace_q_other_unit", "(void)au::QuantityPoint<au::Celsius, double>{au::kelvins(3)};", "reject"),
        ("p_brace_constant", "(void)au::QuantityPoint<au::Kelvins, double>{au::make_constant(au::kelvins)};", "reject"),
        ("p_brace_raw", "P x{R{3}}; (void)x;", "reject"), ("p_assign_q", "p = q;", "reject"),
        ("q_brace_p", "Q x{p}; (void)x;", "reject"), ("q_paren_p", "Q x(p); (void)x;", "reject"), ("q_cast_p", "(void)static_cast<Q>(p);", "reject"), ("q_assign_p", "q = p;", "reject"),
        ("traits_never", "static_assert(!std::is_constructible<P, Q>::value && !std::is_constructible<Q, P>::value && !std::is_convertible<Q, P>::value && !std::is_convertible<P, Q>::value"
                         " && !std::is_assignable<P &, Q>::value && !std::is_assignable<Q &, P>::value && !std::is_constructible<P, R>::value && !std::is_constructible<P, au::Quantity<au::Kelvins, double>>::value, \"neither class is constructible, convertible or assignable from the other\");", "accept"),
        # controls: the affine operations compile
        ("ctl_p_minus_p", "(void)(p - p2);", "accept"), ("ctl_p_plus_q", "(void)(p + q); (void)(q + p); (void)(p - q);", "accept"),
        ("ctl_pluseq_q", "p += q; p -= q;", "accept"), ("ctl_cmp", "(void)(p < p2); (void)(p == p2);", "accept"),
        ("ctl_calls", "takep(p); takeq(q); takeq(p - p2);", "accept"),
    ]
    items = []
    for r in ("int", "double", "uint8_t", "int64_t"):
        for nm, code, exp in forms:
            body_ = pre % r + "void w() { P p = au::make_quantity_point<U>(R{5}); P p2 = au::make_quantity_point<U>(R{3}); Q q = au::make_quantity<U>(R{2}); (void)p; (void)p2; (void)q; %s }" % code
            items.append(witness.Item("w:%s/%s" % (nm, r), body_, exp, None, dict(desc="%s with rep %s: `%s`" % (nm, r, code))))
    # direct access trusts the unit label instead of converting: a unit of the same size but another
    # zero point must be refused for a POINT (it is the same unit for a quantity), through every
    # access path and slot spelling
    opre = ("struct U : decltype(au::Kelvins{} * au::mag<3>()) {};\n"
            "struct V : decltype(au::Kelvins{} * au::mag<3>()) { static constexpr auto origin() { return au::make_quantity<au::Kelvins>(12); } };\n"
            "struct W : U {};\nusing R = %s; using P = au::QuantityPoint<U, R>; using Q = au::Quantity<U, R>;\n")
    oforms = [
        ("data_in_unit", "(void)p.data_in(V{});", "reject"), ("data_in_maker", "(void)p.data_in(au::QuantityPointMaker<V>{});", "reject"),
        ("data_in_unit_const", "const P &cp = p; (void)cp.data_in(V{});", "reject"), ("data_in_maker_const", "const P &cp = p; (void)cp.data_in(au::QuantityPointMaker<V>{});", "reject"),
        ("data_in_write", "p.data_in(V{}) = R{1};", "reject"),
        ("ctl_data_in_own", "(void)p.data_in(U{}); (void)p.data_in(au::QuantityPointMaker<U>{}); const P &cp = p; (void)cp.data_in(U{}); (void)cp.data_in(au::QuantityPointMaker<W>{});", "accept"),
        ("ctl_quantity_data_in", "(void)q.data_in(V{}); (void)q.data_in(au::QuantityMaker<V>{});", "accept"),
        ("lib_celsius_in_kelvins", "auto c = au::celsius_pt(R{20}); (void)c.data_in(au::kelvins_pt);", "reject"),
        ("lib_celsius_in_kelvins_unit", "const auto c = au::celsius_pt(R{20}); (void)c.data_in(au::Kelvins{});", "reject"),
        ("ctl_lib_celsius", "auto c = au::celsius_pt(R{20}); (void)c.data_in(au::celsius_pt); (void)c.data_in(au::Celsius{});", "accept"),
    ]
    for r in ("int", "double"):
        for nm, code, exp in oforms:
            body_ = opre % r + "void w() { P p = au::make_quantity_point<U>(R{5}); Q q = au::make_quantity<U>(R{2}); (void)p; (void)q; %s }" % code
            items.append(witness.Item("w:origin:%s/%s" % (nm, r), body_, exp, None, dict(desc="unit of equal size but another origin, %s with rep %s: `%s`" % (nm, r, code))))
    # "a point where a quantity is required or vice versa", one level up: what NAMES a unit for
    # quantities (quantity maker, symbol, singular name, constant) is refused wherever a point asks
    # for its unit, and a point maker wherever a quantity asks; units and same-flavour makers pass
    spre = ("struct U : decltype(au::Kelvins{} * au::mag<3>()) {}; struct T : decltype(au::Kelvins{} * au::mag<6>()) {}; using R = %s;\n"
            "using P = au::QuantityPoint<T, R>; using Q = au::Quantity<T, R>;\n")
    qslots = [("qmaker", "au::QuantityMaker<U>{}"), ("symbol", "au::SymbolFor<U>{}"), ("singular", "au::SingularNameFor<U>{}"), ("constant", "au::Constant<U>{}"),
              ("lib_kelvins", "au::kelvins"), ("lib_symbol_K", "au::symbols::K"), ("quantity", "q")]
    pslots = [("pmaker", "au::QuantityPointMaker<U>{}"), ("lib_kelvins_pt", "au::kelvins_pt"), ("point", "p")]
    members = [("in", "%s.in(%s)"), ("as", "%s.as(%s)"), ("in_rep", "%s.template in<long>(%s)"), ("as_rep", "%s.template as<long>(%s)"),
               ("coerce_in", "%s.coerce_in(%s)"), ("coerce_as", "%s.coerce_as(%s)"), ("coerce_in_rep", "%s.template coerce_in<long>(%s)"),
               ("coerce_as_rep", "%s.template coerce_as<long>(%s)")]
    for r in ("int", "double"):
        def add(nm, code, exp):
            body_ = spre % r + "void w() { P p = au::make_quantity_point<T>(R{5}); Q q = au::make_quantity<T>(R{2}); (void)p; (void)q; %s }" % code
            items.append(witness.Item("w:slot:%s/%s" % (nm, r), body_, exp, None, dict(desc="unit slot of the other flavour, %s with rep %s: `%s`" % (nm, r, code))))
        for mn, mf in members:
            for sn, sl in qslots:
                add("p_%s_%s" % (mn, sn), "(void)%s;" % (mf % ("p", sl)), "reject")
            for sn, sl in pslots:
                add("q_%s_%s" % (mn, sn), "(void)%s;" % (mf % ("q", sl)), "reject")
            add("ctl_p_%s" % mn, "(void)%s; (void)%s; (void)%s;" % (mf % ("p", "U{}"), mf % ("p", pslots[0][1]), mf % ("p", "au::kelvins_pt")), "accept")
            add("ctl_q_%s" % mn, "(void)%s; (void)%s; (void)%s; (void)%s;" % (mf % ("q", "U{}"), mf % ("q", qslots[0][1]), mf % ("q", qslots[1][1]), mf % ("q", "au::kelvins")), "accept")
        for sn, sl in qslots:
            add("p_data_in_%s" % sn, "(void)p.data_in(%s);" % sl.replace("<U>", "<T>"), "reject")
            add("common_point_unit_%s" % sn, "(void)au::common_point_unit(%s, au::Celsius{});" % sl, "reject")
            add("make_quantity_point_of_%s" % sn, "(void)au::QuantityPointMaker<U>{}(%s);" % sl, "reject")
        add("q_data_in_pmaker", "(void)q.data_in(au::QuantityPointMaker<T>{});", "reject")
        add("ctl_data_in", "(void)p.data_in(T{}); (void)p.data_in(au::QuantityPointMaker<T>{}); (void)q.data_in(T{}); (void)q.data_in(au::QuantityMaker<T>{});", "accept")
        add("ctl_common_point_unit", "(void)au::common_point_unit(au::QuantityPointMaker<U>{}, au::Celsius{}, au::kelvins_pt);", "accept")
        add("lib_celsius_pt_in_kelvins", "(void)au::celsius_pt(R{20}).in(au::kelvins);", "reject")
        add("lib_celsius_pt_as_kelvins", "(void)au::celsius_pt(R{20}).as(au::kelvins);", "reject")
        add("lib_celsius_qty_in_kelvins_pt", "(void)au::celsius_qty(R{20}).in(au::kelvins_pt);", "reject")
    # C++20: <=> on points is the comparison of absolute positions, like < == > (not the sign of a
    # difference, which need not be representable): unsigned reps, boundary values, sub-int reps,
    # infinities, mixed units and reps
    ss = ("#include <climits>\n#include <limits>\n"
          "static_assert((au::kelvins_pt(3u) <=> au::kelvins_pt(5u)) < 0 && (au::kelvins_pt(5u) <=> au::kelvins_pt(3u)) > 0 && (au::kelvins_pt(5u) <=> au::kelvins_pt(5u)) == 0, \"unsigned, same type\");\n"
          "static_assert((au::celsius_pt(0u) <=> au::kelvins_pt(300u)) < 0 && (au::kelvins_pt(300u) <=> au::celsius_pt(0u)) > 0, \"unsigned, different origins\");\n"
          "static_assert((au::kelvins_pt(std::uint64_t{3}) <=> au::milli(au::kelvins_pt)(5000u)) < 0, \"unsigned, mixed reps and units\");\n"
          "static_assert((au::kelvins_pt(INT_MIN) <=> au::kelvins_pt(INT_MAX)) < 0 && (au::kelvins_pt(INT_MAX) <=> au::kelvins_pt(-1)) > 0, \"boundary values\");\n"
          "static_assert((au::celsius_pt(std::int8_t{100}) <=> au::celsius_pt(std::int8_t{-100})) > 0 && (au::celsius_pt(std::int8_t{-100}) <=> au::celsius_pt(std::int8_t{100})) < 0, \"sub-int rep\");\n"
          "static_assert((au::celsius_pt(20) <=> au::kelvins_pt(300)) < 0 && (au::celsius_pt(100) <=> au::fahrenheit_pt(212)) == 0 && (au::celsius_pt(20.5) <=> au::kelvins_pt(293)) > 0, \"ordinary values\");\n"
          "static_assert((au::celsius_pt(std::numeric_limits<double>::infinity()) <=> au::kelvins_pt(std::numeric_limits<double>::infinity())) == 0, \"equal infinities are equivalent\");\n"
          "static_assert(std::is_same<decltype(au::kelvins_pt(1) <=> au::kelvins_pt(2)), std::strong_ordering>::value && std::is_same<decltype(au::kelvins_pt(1.0) <=> au::celsius_pt(2)), std::partial_ordering>::value, \"category of the common rep\");")
    items.append(witness.Item("w:spaceship", ss, "accept", {"c++20"}, dict(desc="C++20 <=> on points orders by absolute position (unsigned, boundary, sub-int, infinite, mixed operands)")))
    return items


def body(ctx):
    rnd = random.Random(ctx.seed)
    configs = cxx.configs_for(ctx.tier)
    lib, gens = make_units(ctx, rnd)
    units = lib + gens
    pairs = [(a, b) for a in units for b in units if a is not b]
    rnd.shuffle(pairs)
    libpairs = [(a, b) for a in lib[:6] for b in lib[:6] if a is not b]
    pairs = libpairs[:(30 if ctx.thorough else 8)] + pairs[:(150 if ctx.thorough else 22)]
    conv_reps = [("int32_t", "int32_t"), ("int64_t", "int64_t"), ("int32_t", "int64_t"), ("uint32_t", "uint32_t"),
                 ("int64_t", "int32_t"), ("double", "double"), ("float", "float"), ("int32_t", "double"), ("double", "int32_t")]
    # reps of different signedness (round 10, C09j): an unsigned source with a signed destination that is
    # narrower / as wide / wider, and the reverse direction - the signed calculation rep must not depend on widths
    sign_reps = [("uint64_t", "int32_t"), ("uint32_t", "int16_t"), ("uint32_t", "int32_t"), ("uint32_t", "int64_t"),
                 ("int32_t", "uint32_t"), ("uint16_t", "int64_t"), ("uint64_t", "int64_t"), ("int64_t", "uint32_t")]
    if not ctx.thorough:
        conv_reps = conv_reps[:2] + [conv_reps[3], conv_reps[5], conv_reps[6], conv_reps[7]]
        sign_reps = sign_reps[:3]
    conv_reps = conv_reps + sign_reps
    prelude = "#include <cstdint>\n#include <type_traits>\n#include \"au/au.hh\"\n" + points.TEMP_HDRS + USING
    gdefs = "\n".join(sorted({u.defs for u in units if u.defs}))
    findings = []
    tot = [0, 0, 0]
    dropped_n = [0]

    def strip_defs(blocks):
        return [(k, "\n".join(l for l in t.split("\n") if not l.startswith("struct G"))) for k, t in blocks]

    # ---- conversions
    blocks, meta = conv_blocks(pairs, conv_reps)
    blocks = strip_defs(blocks)
    chunks = [blocks[i:i + 30] for i in range(0, len(blocks), 30)]

    undecided = []

    def do_conv(arg):
        ci, ch = arg
        mod, alive, dropped = irbuild.build_blocks(ctx, prelude + gdefs + "\n", ch, "c09c%d" % ci, only=lambda n: n.startswith(("cv_", "ca_")))
        fs = []
        nob = ndis = 0
        for k in alive:
            s, d, r1, t = meta[k]
            try:
                a, b = analyse_conv(ctx, mod, k, s, d, r1, t, fs)
            except AnalysisBroken as e:
                # no verdict for this instance: fatal unless other instances show real violations
                undecided.append(str(e))
                continue
            nob += a
            ndis += b
        return nob, ndis, len(alive), fs, dropped

    for nob, ndis, n, fs, dropped in cxx.pmap(do_conv, list(enumerate(chunks))):
        tot[0] += nob
        tot[1] += ndis
        tot[2] += n
        findings += fs
        dropped_n[0] += len(dropped)
        # (an explicit-rep conversion that is rejected by the policy check on the library's internal
        #  mixed-unit subtraction is outside the statement: counted, not reported)
    nconv = tot[2]
    ctx.log("conversions: %d wrappers pairs analysed" % nconv)

    # ---- two-parameter operations (integral reps of one width)
    tp_pairs = pairs[:(60 if ctx.thorough else 14)]
    blocks2, meta2 = twoparam_blocks(tp_pairs, [("int64_t", "int64_t"), ("int32_t", "int64_t"), ("int64_t", "int16_t")]
                                     + ([("int32_t", "int32_t"), ("uint32_t", "int64_t"), ("int16_t", "int32_t"), ("uint16_t", "uint64_t")] if ctx.thorough else []))
    blocks2 = strip_defs(blocks2)
    chunks2 = [blocks2[i:i + 12] for i in range(0, len(blocks2), 12)]
    ntwo = [0]
    uncompilable = [0]

    def do_two(arg):
        ci, ch = arg
        mod, alive, dropped = irbuild.build_blocks(ctx, prelude + gdefs + "\n", ch, "c09t%d" % ci, only=lambda n: n.startswith("t_"), std="c++14")
        fs = []
        nob = ndis = 0
        if alive:
            ru = readout_result_units(ctx, meta2, alive, gdefs + "\n", tag="c09units%d" % ci)
            for k in alive:
                s, d, r1, r2 = meta2[k]
                a, b = analyse_two(ctx, mod, k, s, d, r1, r2, ru[k], fs)
                nob += a
                ndis += b
        return nob, ndis, len(alive), fs, dropped

    for nob, ndis, n, fs, dropped in cxx.pmap(do_two, list(enumerate(chunks2)), workers=8):
        tot[0] += nob
        tot[1] += ndis
        ntwo[0] += n
        findings += fs
        uncompilable[0] += len(dropped)  # implicit policy may forbid some pairs (C06's business)
    ctx.log("two-parameter operations: %d unit/rep pairs analysed, %d not permitted by the implicit policy" % (ntwo[0], uncompilable[0]))
    ctx.require(nconv >= 100, "only %d conversion wrappers analysed" % nconv)
    # (on the tree as it is none of these is refused in the quick tier; the policy may refuse a few of
    #  the thorough tier's pairs - a quarter of them refused means the scope has shrunk, not the policy)
    ctx.require(dropped_n[0] * 4 <= max(4, nconv + dropped_n[0]), "%d of %d conversion wrapper pairs do not compile" % (dropped_n[0], nconv + dropped_n[0]))
    ctx.require(uncompilable[0] * 4 <= max(4, ntwo[0] + uncompilable[0]), "%d of %d two-parameter blocks do not compile" % (uncompilable[0], ntwo[0] + uncompilable[0]))
    ctx.require(ntwo[0] >= 5, "only %d two-parameter blocks analysed" % ntwo[0])
    for key, what, detail in findings:
        ctx.violation(key, what, detail)
    if undecided:
        ctx.log("%d conversion instance(s) without a verdict, first: %s" % (len(undecided), undecided[0]))
        if not findings:
            raise AnalysisBroken("%d conversion instance(s) not analysable, first: %s" % (len(undecided), undecided[0]))

    # ---- W
    items = witnesses()
    wprel = witness.DEFAULT_PRELUDE + USING + points.TEMP_HDRS
    results, stats = witness.judge(ctx, items, configs, prelude=wprel, batch=60, tag="c09")
    nbad = witness.report_mismatches(ctx, items, results, prelude=wprel)
    ctx.coverage.update(dict(
        obligations=tot[0] + len(items), discharged=tot[1] + len(items) - nbad,
        checker_cmd="bin/check C09 --tier %s" % ctx.tier,
        trusted_base=["clang 14 lowering to IR", "opt-14 sroa/inline/simplifycfg", "vlib cells / affine / ordering domains",
                      "(m, o) of library temperature units read from the compiler's constant evaluator; generated units known by construction"],
        evaluations=nconv + ntwo[0] * 10 + len(items), distinct_nontrivial=nconv + ntwo[0] * 10 + len(items),
        rule="conversion wrapper per (ordered unit pair, rep pair) analysed on a cell partition of the whole source range (integral) or as real affine form (floating); 10 two-parameter wrappers per (unit pair, rep pair); compile-fail witnesses for the non-affine forms named in the statement, for direct access through a unit of equal size but another origin, and for unit slots of the other flavour (a quantity maker / symbol / singular name / constant / quantity in every unit-taking member of a point, a point maker / point in every one of a quantity; units and same-flavour makers are the accepted controls)",
        samples=[dict(units=[repr(u) for u in units[:4]]), dict(pair="%s -> %s" % (pairs[0][0].name, pairs[0][1].name))],
        exhaustive=False, point_units=len(units), unit_pairs=len(pairs), conversion_wrappers=nconv, two_param_blocks=ntwo[0],
        two_param_not_permitted=uncompilable[0], w_items=len(items), w_mismatches=nbad, engine_stats=stats))
    ctx.assumptions += ["truncation toward zero at the final step is the library's documented integer behaviour; exactness is claimed when the affine result is an integer"]


def main(argv=None):
    return common.run_check(PROP, "proof", body, argv)


if __name__ == "__main__":
    sys.exit(main())
