"""C20 - independence of packaging, language standard and compiler  (S + W + I).

S  structural necessary conditions for "single file == header tree" (include guards, header set ==
   exported CMake header lists, include form / resolvability / acyclicity, no concatenation-sensitive
   constructs, fwd/definition agreement, reviewed table of conditional-compilation blocks).
W  every public header alone / twice / all together in random orders, in every configuration.
   The single-file generator is run as a build step for seeded selections; its output is compiled
   with an empty include path, included twice, and in two TUs whose IR is linked (ODR).
I  an API-surface TU is lowered once against the single file and once against the tree: the IR of
   every wrapper must be identical; and identical across -std=c++14/17/20.
"""
import os
import random
import re
import sys

from vlib import common, cxx, witness, atoms, srclint, ir, dag
from vlib.common import AU_DIR, AU_INC, REPO, AnalysisBroken

PROP = "C20"

# reviewed conditional-compilation blocks: (file, directive text) -> reason
REVIEWED_CONDITIONALS = {
    ("au/quantity.hh", "#if defined(__cpp_impl_three_way_comparison) && __cpp_impl_three_way_comparison >= 201907L"):
        "adds operator<=> under C++20 only; agreement with the six comparisons is C08's obligation",
    ("au/quantity_point.hh", "#if defined(__cpp_impl_three_way_comparison) && __cpp_impl_three_way_comparison >= 201907L"):
        "adds operator<=> for points under C++20 only",
    ("au/magnitude.hh", "#ifndef PI"): "uses a user-environment macro: omits the deprecated PI constant when a framework defines PI",
    ("au/units/pascals.hh", "#ifndef pascal"): "uses a user-environment macro: omits the singular name when `pascal` is a macro (MSVC)",
}


def is_test_header(rel):
    b = os.path.basename(rel)
    return "/test/" in "/" + rel or b.endswith("_test.hh") or b.startswith("fwd_test_lib")


def list_headers():
    out = []
    for root, dirs, files in os.walk(AU_DIR):
        for f in sorted(files):
            if f.endswith(".hh"):
                rel = os.path.relpath(os.path.join(root, f), AU_INC)
                if not is_test_header(rel):
                    out.append(rel)
    return sorted(out)


def cmake_header_sets():
    txt = open(os.path.join(AU_DIR, "CMakeLists.txt")).read()
    txt = re.sub(r"#[^\n]*", "", txt)
    out = {}
    for m in re.finditer(r"header_only_library\s*\((.*?)\)", txt, flags=re.S):
        body = m.group(1)
        nm = re.search(r"\bNAME\s+(\S+)", body)
        hm = re.search(r"\bHEADERS\s+(.*?)(?:\bDEPS\b|\bINTERNAL_ONLY\b|$)", body, flags=re.S)
        if nm and hm:
            out[nm.group(1)] = ["au/" + h for h in hm.group(1).split()]
    return out


def strip_comments_keep_lines(text):
    def repl(m):
        return re.sub(r"[^\n]", " ", m.group(0))
    text = re.sub(r"/\*.*?\*/", repl, text, flags=re.S)
    text = re.sub(r"//[^\n]*", "", text)
    return text


def structural_rules(ctx, headers):
    inst = {}
    # ---- R1 include guards
    n = 0
    for h in headers:
        txt = strip_comments_keep_lines(open(os.path.join(AU_INC, h)).read())
        first = [l.strip() for l in txt.split("\n") if l.strip()]
        guarded = bool(first) and (first[0].startswith("#pragma once") or
                                   (len(first) > 1 and first[0].startswith("#ifndef") and first[1].startswith("#define")))
        n += 1
        if not guarded:
            ctx.violation("R1:%s" % h, "header %s has no include guard: a second inclusion (e.g. through two user headers) is a redefinition error on the tree, while the single file de-duplicates" % h,
                          "first directive/declaration: %r" % (first[0] if first else ""))
    inst["R1_headers"] = n
    ctx.require(n >= 150, "R1: only %d non-test headers found (floor 150)" % n)

    # ---- R2 header set == CMake lists
    sets = cmake_header_sets()
    ctx.require("au" in sets and len(sets) >= 3, "R2: header_only_library targets not found in au/code/au/CMakeLists.txt (%s)" % sorted(sets))
    listed = set()
    for k, v in sets.items():
        listed |= set(v)
    disk = set(headers)
    for h in sorted(disk - listed):
        ctx.violation("R2:unlisted:%s" % h, "header %s exists on disk but is in no header_only_library HEADERS list: it is not installed, so tree users and single-file users see different packages" % h)
    for h in sorted(listed - disk):
        ctx.violation("R2:missing:%s" % h, "CMake lists header %s which does not exist" % h)
    for h in sorted(disk):
        if (h.startswith("au/units/") or h.startswith("au/constants/")) and h not in set(sets["au"]):
            ctx.violation("R2:notinau:%s" % h, "unit/constant header %s is not part of the exported `au` target" % h)
    inst["R2_listed"] = len(listed)

    # ---- R3 include form / resolvability / acyclicity (pattern read from the generator)
    gen = open(os.path.join(REPO, "tools", "bin", "make-single-file")).read()
    m = re.search(r"re\.match\(r'([^']*)', line\)", gen)
    ctx.require(m is not None, "R3: include pattern not found in tools/bin/make-single-file")
    gen_pat = re.compile(m.group(1))
    graph = {}
    ninc = 0
    for h in headers:
        raw = open(os.path.join(AU_INC, h)).read()
        txt = strip_comments_keep_lines(raw)
        depth = 0
        graph[h] = []
        for ln, line in enumerate(txt.split("\n"), 1):
            s = line.strip()
            if re.match(r"#\s*(if|ifdef|ifndef)\b", s):
                depth += 1
            elif re.match(r"#\s*endif\b", s):
                depth -= 1
            im = re.match(r"#\s*include\s*([<\"])([^>\"]+)[>\"]", s)
            if not im:
                continue
            tgt = im.group(2)
            if tgt.startswith("au/") or im.group(1) == '"' and os.path.exists(os.path.join(AU_INC, tgt)):
                ninc += 1
                gm = gen_pat.match(line)
                if not gm or gm.group(1) != tgt or im.group(1) != '"':
                    ctx.violation("R3:form:%s:%d" % (h, ln), "project include in %s:%d is not in the form the single-file generator recognises (`#include \"au/...\"` at column 0): it would be copied verbatim into the single file" % (h, ln), line)
                if depth > 0:
                    ctx.violation("R3:conditional:%s:%d" % (h, ln), "project include in %s:%d is inside a conditional block: the generator hoists it unconditionally" % (h, ln), line)
                if not os.path.exists(os.path.join(AU_INC, tgt)):
                    ctx.violation("R3:dangling:%s:%d" % (h, ln), "%s:%d includes %s which does not exist" % (h, ln, tgt))
                graph[h].append(tgt)
    # acyclic
    state = {}

    def dfs(u, path):
        state[u] = 1
        for v in graph.get(u, []):
            if state.get(v) == 1:
                ctx.violation("R3:cycle:%s" % v, "project include cycle through %s" % " -> ".join(path + [u, v]))
            elif v not in state and v in graph:
                dfs(v, path + [u])
        state[u] = 2

    for h in headers:
        if h not in state:
            dfs(h, [])
    inst["R3_project_includes"] = ninc
    ctx.require(ninc >= 300, "R3: only %d project includes seen (floor 300)" % ninc)

    # ---- R4 concatenation-sensitive constructs
    nr4 = 0
    for h in headers:
        txt = strip_comments_keep_lines(open(os.path.join(AU_INC, h)).read())
        for ln, line in enumerate(txt.split("\n"), 1):
            s = line.strip()
            nr4 += 1
            if re.match(r"#\s*(define|undef)\b", s):
                ctx.violation("R4:macro:%s:%d" % (h, ln), "%s:%d defines/undefines a macro: its scope changes under concatenation into one file" % (h, ln), s)
            if re.search(r"\b(__FILE__|__LINE__|__COUNTER__|__INCLUDE_LEVEL__|__has_include)\b", s):
                ctx.violation("R4:position:%s:%d" % (h, ln), "%s:%d uses a file/position dependent preprocessor feature" % (h, ln), s)
            if re.match(r"^namespace\s*\{", line) or re.match(r"^static\s+(?!constexpr|const\b|inline)", line):
                ctx.violation("R4:internal:%s:%d" % (h, ln), "%s:%d has file-scope internal linkage (anonymous namespace / static function): one copy per header on the tree, merged in the single file" % (h, ln), s)
            if re.match(r"^using\s+namespace\b", line):
                ctx.violation("R4:usingns:%s:%d" % (h, ln), "%s:%d has a file-scope using-directive" % (h, ln), s)
    inst["R4_lines"] = nr4

    # ---- R5 fwd first / fwd agreement
    nr5 = 0
    for h in headers:
        if h.endswith("_fwd.hh") or h == "au/fwd.hh":
            continue
        fwd = h[:-3] + "_fwd.hh"
        if fwd in disk:
            nr5 += 1
            g = graph[h]
            if not g or g[0] != fwd:
                ctx.violation("R5:fwdfirst:%s" % h, "%s does not include its forward header %s as its first project include" % (h, fwd))
    inst["R5_fwd_pairs"] = nr5
    ctx.require(nr5 >= 57, "R5: only %d header/fwd pairs (floor 57)" % nr5)

    # ---- R6 conditional blocks are reviewed
    nr6 = 0
    for h in headers:
        txt = strip_comments_keep_lines(open(os.path.join(AU_INC, h)).read())
        lines = [l.strip() for l in txt.split("\n")]
        start = 0
        # skip a classic include guard
        for ln, s in enumerate(lines, 1):
            if re.match(r"#\s*(if|ifdef|ifndef|elif)\b", s):
                key = (h, re.sub(r"\s+", " ", s))
                nr6 += 1
                if key not in REVIEWED_CONDITIONALS:
                    ctx.violation("R6:%s:%s" % key, "unreviewed configuration dependence in %s:%d: `%s` - behaviour may now differ between standards / compilers / packagings" % (h, ln, s))
    inst["R6_conditionals"] = nr6
    ctx.require(nr6 >= 4, "R6: only %d conditional blocks seen (floor 4: the reviewed table)" % nr6)
    return inst, graph


def fwd_agreement(ctx, headers):
    """clang-query: every record (template) declared in a forward header is defined by the library."""
    fwds = [h for h in headers if h.endswith("_fwd.hh") or h == "au/fwd.hh"]
    gt = gtest_flags()
    rest = [h for h in headers if h not in fwds and (gt or not needs_gtest(h))]
    tu = "".join('#include "%s"\n' % h for h in fwds + rest)
    ms = [
        ("fwd_records", 'cxxRecordDecl(isExpansionInFileMatching("(_fwd|/fwd)[.]hh"), unless(isImplicit()), unless(hasParent(classTemplateDecl())), unless(classTemplateSpecializationDecl()), unless(isDefinition()))'),
        ("fwd_undefined", 'cxxRecordDecl(isExpansionInFileMatching("(_fwd|/fwd)[.]hh"), unless(isImplicit()), unless(hasParent(classTemplateDecl())), unless(classTemplateSpecializationDecl()), unless(isDefinition()), unless(hasDefinition()))'),
        ("ctl_any_undefined", 'cxxRecordDecl(unless(isImplicit()), unless(hasParent(classTemplateDecl())), unless(classTemplateSpecializationDecl()), unless(isDefinition()), unless(hasDefinition()))'),
    ]
    tu += "namespace auv_ctl { struct NeverDefined; }\n"
    wd = ctx.sub("S")
    cmd_extra = gt
    # srclint.clang_query has fixed flags; add gtest include through a wrapper TU instead
    res = srclint.clang_query(ctx, tu, ms, tag="c20fwd") if not gt else clang_query_with(ctx, tu, ms, gt)
    n_fwd = res["fwd_records"][0]
    ctx.require(res["ctl_any_undefined"][0] >= 1, "R5: control (an undefined record) not matched")
    ctx.require(n_fwd >= 57, "R5: only %d forward-declared records seen (floor 57)" % n_fwd)
    for f, l in res["fwd_undefined"][1]:
        rel = f.split("/au/code/", 1)[-1]
        ctx.violation("R5:undefined:%s:%d" % (rel, l), "record forward-declared in %s:%d is never defined by the library (name typo in the forward header?)" % (rel, l))
    return dict(fwd_records=n_fwd, fwd_undefined=res["fwd_undefined"][0])


def clang_query_with(ctx, tu, ms, extra):
    # same as srclint.clang_query but with extra flags
    wd = ctx.sub("S")
    src = os.path.join(wd, "c20fwd.cc")
    with open(src, "w") as f:
        f.write(tu)
    cmd = ["clang-query-14", "-c", "set output diag", "-c", "set bind-root true"]
    for name, m in ms:
        cmd += ["-c", "match " + m]
    cmd += [src, "--", "-std=c++14", "-I" + AU_INC, "-w"] + list(extra)
    rc, so, se = cxx.run(cmd)
    results, cur = [], []
    for ln in so.splitlines():
        m = re.match(r"^(\d+) match(es)?\.$", ln.strip())
        if m:
            results.append((int(m.group(1)), cur))
            cur = []
            continue
        lm = re.match(r'^(\S+?):(\d+):(\d+): note: "root" binds here', ln)
        if lm:
            cur.append((lm.group(1), int(lm.group(2))))
    if len(results) != len(ms):
        raise AnalysisBroken("clang-query: %d result blocks for %d matchers: %s" % (len(results), len(ms), (so + se)[-600:]))
    return {name: r for (name, _), r in zip(ms, results)}


def needs_gtest(h):
    txt = open(os.path.join(AU_INC, h)).read()
    return "gtest/" in txt or "gmock/" in txt


def gtest_flags():
    base = os.path.join(REPO, "_build", "_deps", "googletest-src")
    inc = [os.path.join(base, "googletest", "include"), os.path.join(base, "googlemock", "include")]
    if all(os.path.isdir(i) for i in inc):
        return ["-I" + i for i in inc]
    return []


def compile_matrix(ctx, headers, configs, rnd):
    gt = gtest_flags()
    items = []
    skipped = []
    wd = ctx.sub("M")
    jobs = []
    for h in headers:
        if needs_gtest(h) and not gt:
            skipped.append(h)
            continue
        jobs.append(("alone:%s" % h, '#include "%s"\nint main() { return 0; }\n' % h))
        jobs.append(("twice:%s" % h, '#include "%s"\n#include "%s"\nint main() { return 0; }\n' % (h, h)))
    usable = [h for h in headers if not (needs_gtest(h) and not gt)]
    for k in range(6 if ctx.thorough else 2):
        order = usable[:]
        rnd.shuffle(order)
        jobs.append(("all:%d" % k, "".join('#include "%s"\n' % h for h in order) + "int main() { return 0; }\n"))
    extra = ["-Wall", "-Wextra"] + gt
    tasks = []
    for cfg in configs:
        for key, text in jobs:
            tasks.append((cfg, key, text))

    def do(t):
        cfg, key, text = t
        path = os.path.join(wd, "%s_%s_%s.cc" % (re.sub(r"[^A-Za-z0-9]", "_", key), cfg.cc.replace("+", "p"), cfg.std.replace("+", "p")))
        with open(path, "w") as f:
            f.write(text)
        rc, diags, se = cxx.compile_syntax(cfg, path, extra=[x for x in extra])
        return cfg, key, text, rc, diags

    n = 0
    for cfg, key, text, rc, diags in cxx.pmap(do, tasks):
        n += 1
        if rc != 0:
            d = diags[0]
            ctx.violation("matrix:%s" % key, "%s does not compile under %s: %s: %s" % (key, cfg.name, d.where(), d.msg[:200]),
                          text, artefact="// expected: accept\n" + text, ext="cc")
    return dict(programs=n, jobs=len(jobs), skipped_need_gtest=skipped)


def run_generator(ctx, args, out_path):
    cmd = [sys.executable, os.path.join(REPO, "tools", "bin", "make-single-file"), "--version-id", "verif"] + args
    rc, so, se = cxx.run(cmd, cwd=REPO)
    if rc != 0:
        return None, se
    with open(out_path, "w") as f:
        f.write(so)
    return out_path, se


API_SURFACE = r"""
using namespace au;
template <class U> struct Probe {
    static int i(int x) { return (make_quantity<U>(x) + make_quantity<U>(x)).in(U{}) * 2; }
};
extern "C" int s_add(int a, int b) { return (meters(a) + meters(b)).in(meters); }
extern "C" bool s_lt(int a, long b) { return meters(a) < (meters * mag<3>())(b); }
extern "C" double s_conv(double x) { return meters(x).in(meters / mag<1000>()); }
extern "C" int s_convi(int x) { return meters(x).in(meters / mag<1000>()); }
extern "C" bool s_lossy(short x) { return is_conversion_lossy(meters(x), meters * mag<7>() / mag<3>()); }
extern "C" double s_ratio(double a, double b) { return meters(a) / meters(b); }
extern "C" double s_pt(double x) { return meters_pt(x).coerce_in(meters_pt / mag<100>()); }
extern "C" signed char s_mod(signed char a, signed char b) { return static_cast<signed char>((meters(a) % meters(b)).in(meters)); }
extern "C" int s_neg(short a) { return (-meters(a)).in(meters); }
extern "C" double s_round(double x) { return round_in(meters * mag<3>(), meters(x)); }
extern "C" int s_inv(int x) { return inverse_in(seconds / mag<1000000>(), (hertz)(x)); }
extern "C" bool s_zero(double x) { return meters(x) > ZERO; }
extern "C" unsigned s_label() { return sizeof(unit_label(meters / seconds)); }
"""


def single_file_checks(ctx, configs, rnd, units, consts):
    wd = ctx.sub("SF")
    unames = sorted(os.path.basename(u.header)[:-3] for u in units)
    cnames = sorted(c[0] for c in consts)
    sels = [
        ("empty", []),
        ("all_io", ["--all-units", "--all-constants"]),
        ("all_noio", ["--all-units", "--all-constants", "--noio"]),
        ("surface_io", ["--units", "meters", "seconds", "hertz"]),
        ("surface_noio", ["--units", "meters", "seconds", "hertz", "--noio"]),
    ]
    for k in range(60 if ctx.thorough else 3):
        us = rnd.sample(unames, rnd.randrange(1, 9))
        cs = rnd.sample(cnames, rnd.randrange(0, 4))
        a = ["--units"] + us
        if cs:
            a += ["--constants"] + cs
        if rnd.random() < 0.5:
            a.append("--noio")
        sels.append(("rand%d" % k, a))
    stats = dict(selections=len(sels), programs=0, ir_functions_compared=0)
    gen = {}
    for name, args in sels:
        d = os.path.join(wd, name)
        os.makedirs(d, exist_ok=True)
        p, se = run_generator(ctx, args, os.path.join(d, "au.hh"))
        ctx.require(p is not None, "single-file generator failed for %s: %s" % (args, se[-400:]))
        gen[name] = (d, args)
    tasks = []
    for name, (d, args) in gen.items():
        us = []
        if "--units" in args:
            i = args.index("--units") + 1
            while i < len(args) and not args[i].startswith("--"):
                us.append(args[i])
                i += 1
        if "--all-units" in args:
            us = unames
        use = ""
        umap = {os.path.basename(u.header)[:-3]: u for u in units}
        for j, un in enumerate(us):
            u = umap[un]
            if u.maker:
                use += "extern \"C\" double use_%d(double x) { return au::%s(x).in(au::%s); }\n" % (j, u.maker, u.maker)
        tu1 = '#include "au.hh"\n#include "au.hh"\n' + use + "int main() { return 0; }\n"
        tu2 = '#include "au.hh"\n' + use.replace("use_", "use2_") + "int other() { return 1; }\n"
        for fn, text in (("a.cc", tu1), ("b.cc", tu2)):
            with open(os.path.join(d, fn), "w") as f:
                f.write(text)
        for cfg in configs:
            tasks.append((name, d, cfg))

    def do(t):
        name, d, cfg = t
        out = []
        for fn in ("a.cc", "b.cc"):
            cmd = [cfg.cc, "-std=" + cfg.std, "-fsyntax-only", "-Wall", "-Wextra", "-I" + d, os.path.join(d, fn)]
            rc, so, se = cxx.run(cmd)
            out.append((fn, rc, se))
        return name, d, cfg, out

    for name, d, cfg, out in cxx.pmap(do, tasks):
        for fn, rc, se in out:
            stats["programs"] += 1
            if rc != 0:
                first = [l for l in se.splitlines() if "error" in l][:1]
                ctx.violation("single:%s:%s" % (name, fn), "generated single-file header (selection %s %s) is not self-contained / not re-includable under %s: %s"
                              % (name, gen[name][1], cfg.name, first[0][:300] if first else se[-300:]))
    # ODR: two TUs linked at IR level (clang only)
    for name, (d, args) in gen.items():
        objs = []
        ok = True
        for fn in ("a.cc", "b.cc"):
            o = os.path.join(d, fn + ".ll")
            rc, so, se = cxx.run(["clang++", "-std=c++14", "-O0", "-S", "-emit-llvm", "-w", "-I" + d, os.path.join(d, fn), "-o", o])
            if rc != 0:
                ok = False
                break
            objs.append(o)
        if ok:
            rc, so, se = cxx.run(["llvm-link-14", "-S", "-o", os.path.join(d, "linked.ll")] + objs)
            stats["programs"] += 1
            if rc != 0:
                ctx.violation("single:link:%s" % name, "two translation units including the generated single file (selection %s) do not link: %s" % (name, se[-300:]))
    # IR identity: API surface against single file vs against the tree, and across standards
    surf_sf = '#include "au.hh"\n' + API_SURFACE
    surf_tree = '#include "au/au.hh"\n#include "au/io.hh"\n#include "au/units/meters.hh"\n#include "au/units/seconds.hh"\n#include "au/units/hertz.hh"\n' + API_SURFACE
    surf_tree_noio = surf_tree.replace('#include "au/io.hh"\n', "")

    def lower(text, incs, std, tag):
        p = os.path.join(wd, tag + ".cc")
        with open(p, "w") as f:
            f.write(text)
        o = os.path.join(wd, tag + ".ll")
        cmd = ["clang++", "-std=" + std, "-O1", "-Xclang", "-disable-llvm-passes", "-S", "-emit-llvm", "-w"] + incs + [p, "-o", o]
        rc, so, se = cxx.run(cmd)
        if rc != 0:
            raise AnalysisBroken("API-surface TU does not compile (%s): %s" % (tag, se[-500:]))
        o2 = os.path.join(wd, tag + ".opt.ll")
        rc, so, se = cxx.run(["opt-14", "-S", "-inline-threshold=1000000", "-passes=" + ir.OPT_PASSES, o, "-o", o2])
        if rc != 0:
            raise AnalysisBroken("opt failed on %s" % tag)
        return ir.parse_module(o2, only=lambda n: n.startswith("s_"))

    def dags_of(mod):
        return {n: dag.build(f, mod).ret for n, f in mod.funcs.items()}

    ref = dags_of(lower(surf_tree, ["-I" + AU_INC], "c++14", "surf_tree14"))
    ctx.require(len(ref) >= 12, "API-surface: only %d wrappers lowered" % len(ref))
    comps = [("single-file(io) vs tree", dags_of(lower(surf_sf, ["-I" + gen["surface_io"][0]], "c++14", "surf_sf_io"))),
             ("single-file(noio) vs tree", dags_of(lower(surf_sf, ["-I" + gen["surface_noio"][0]], "c++14", "surf_sf_noio"))),
             ("tree without io vs tree", dags_of(lower(surf_tree_noio, ["-I" + AU_INC], "c++14", "surf_tree_noio"))),
             ("tree c++17 vs c++14", dags_of(lower(surf_tree, ["-I" + AU_INC], "c++17", "surf_tree17"))),
             ("tree c++20 vs c++14", dags_of(lower(surf_tree, ["-I" + AU_INC], "c++20", "surf_tree20"))),
             ("single-file c++20 vs tree c++14", dags_of(lower(surf_sf, ["-I" + gen["surface_io"][0]], "c++20", "surf_sf20")))]
    for what, other in comps:
        for n, r in ref.items():
            stats["ir_functions_compared"] += 1
            if n not in other:
                ctx.violation("ir:%s:%s" % (what, n), "API-surface function %s missing (%s)" % (n, what))
            elif other[n] != r:
                ctx.violation("ir:%s:%s" % (what, n), "API-surface function %s computes something different (%s)" % (n, what),
                              "reference: %s\nother:     %s" % (r.pretty(), other[n].pretty()))
    return stats


CONSTEXPR_USES = [
    # mixed-unit operators (quantity and point), same-unit operators, scalars
    "feet(4) + inches(10)", "feet(4) - inches(10)", "feet(4) % inches(10)", "feet(4) == inches(48)", "feet(4) != inches(10)",
    "feet(4) < inches(10)", "feet(4) <= inches(10)", "feet(4) > inches(10)", "feet(4) >= inches(10)",
    "feet(4.0) + inches(10.0f)", "feet(std::int16_t{4}) % inches(std::int16_t{10})", "feet(4u) % inches(10u)",
    "meters(7) % meters(3)", "meters(7) + meters(3)", "-meters(7)", "+meters(7)", "meters(7) * 3", "3 * meters(7)", "meters(7.0) / 2", "12.0 / seconds(4.0)",
    "meters(6) * seconds(2)", "meters(6.0) / seconds(2.0)", "meters(6) / unblock_int_div(seconds(2))", "meters(6) / meters(2)",
    "meters_pt(5) - meters_pt(3)", "meters_pt(5) + meters(3)", "meters(3) + meters_pt(5)", "meters_pt(5) - meters(3)",
    "meters_pt(5) < (meters_pt / mag<100>())(300)", "meters_pt(5) == meters_pt(5)", "celsius_pt(20) < kelvins_pt(300)", "celsius_pt(20.0) - kelvins_pt(290.0)",
    # conversions and casts
    "feet(4).as(inches)", "feet(4).in(inches)", "inches(48).as<double>(feet)", "inches(50).coerce_in(feet)", "inches(50).coerce_as<std::int8_t>(feet)",
    "rep_cast<double>(feet(4))", "meters_pt(5).as(meters_pt / mag<100>())", "celsius_pt(20).coerce_in<int>(kelvins_pt)",
    "will_conversion_overflow(feet(1.0f), meters)", "will_conversion_overflow(feet(1.0), meters)", "will_conversion_overflow(inches(2.0), feet)",
    "will_conversion_overflow(feet(2.0f), inches)", "is_conversion_lossy(feet(1.0), meters)", "will_conversion_overflow<double>(feet(3), meters)",
    "is_conversion_lossy(feet(4), inches)", "will_conversion_overflow(feet(std::int8_t{40}), inches)", "will_conversion_truncate(inches(50), feet)",
    # math helpers that are constexpr
    "min(feet(4), inches(10))", "max(feet(4), inches(10))", "clamp(feet(4), inches(10), inches(20))", "int_pow<3>(meters(2))", "int_pow<-1>(meters(2.0))",
    "inverse_as(seconds / mag<1000000>(), hertz(5))", "inverse_in<double>(seconds, hertz(5.0))",
    # zero, constants, magnitudes, unit algebra, labels, chrono
    "meters(5) > ZERO", "ZERO < feet(4.0)", "Quantity<Meters, int>{ZERO}", "make_constant(meters / seconds * mag<299792458>()).as<int>(meters / seconds)",
    "make_constant(meters / seconds * mag<299792458>()) * seconds(2)", "get_value<int>(mag<6>() * mag<7>())", "get_value<double>(Magnitude<Pi>{} / mag<180>())",
    "representable_in<std::uint8_t>(mag<256>())", "unit_ratio(Feet{}, Inches{}) == mag<12>()", "is_integer(mag<3>() / mag<4>())", "mag<12>() * mag<5>() == mag<60>()",
    "sizeof(unit_label(meters / seconds))", "unit_label(Feet{})[0]", "as_quantity(std::chrono::milliseconds{5})", "as_quantity(std::chrono::milliseconds{5}) + seconds(1)",
    "seconds(1) < std::chrono::milliseconds{5}", "std::chrono::nanoseconds(seconds(1)).count()", "are_units_quantity_equivalent(Feet{} * mag<3>(), Yards{})",
    "has_same_dimension(Feet{}, Meters{})", "squared(meters)(3).in(squared(meters))",
]


# Which entry of the table exercises which public constexpr member of the main class templates
# (file, member) -> a fragment that must occur in the table.  The member list is read from the tree
# with clang-query on every run: a constexpr member that has no line here fails the check as
# analysis-broken, so the table cannot silently fall behind the API.
PARITY_COVER = {
    ("quantity.hh", "as"): "feet(4).as(inches)", ("quantity.hh", "in"): "feet(4).in(inches)",
    ("quantity.hh", "coerce_as"): "coerce_as<std::int8_t>(feet)", ("quantity.hh", "coerce_in"): "inches(50).coerce_in(feet)",
    ("quantity.hh", "operator*"): "meters(6) * seconds(2)", ("quantity.hh", "operator/"): "meters(6.0) / seconds(2.0)",
    ("quantity.hh", "operator+="): "cx_pluseq(", ("quantity.hh", "operator-="): "cx_minuseq(", ("quantity.hh", "operator*="): "cx_muleq(", ("quantity.hh", "operator/="): "cx_diveq(",
    ("quantity.hh", "operator+"): "+meters(7)", ("quantity.hh", "operator-"): "-meters(7)",
    ("quantity.hh", "operator Rep"): "static_cast<int>(make_quantity<UnitProductT<>>(3))", ("quantity.hh", "operator T"): "std::chrono::duration<int>(seconds(3))",
    ("quantity.hh", "operator NTTP"): "::NTTP>(meters(5))", ("quantity.hh", "perform_shorthand_checks"): "cx_muleq(",
    ("quantity_point.hh", "as"): "meters_pt(5).as(", ("quantity_point.hh", "in"): "meters_pt(5).in(", ("quantity_point.hh", "coerce_as"): "meters_pt(5).coerce_as(",
    ("quantity_point.hh", "coerce_in"): "celsius_pt(20).coerce_in<int>(kelvins_pt)", ("quantity_point.hh", "operator+="): "cx_ppluseq(", ("quantity_point.hh", "operator-="): "cx_pminuseq(",
    ("constant.hh", "as"): ").as<int>(meters / seconds)", ("constant.hh", "in"): ").in<int>(meters / seconds)", ("constant.hh", "coerce_as"): ").coerce_as<int>(", ("constant.hh", "coerce_in"): ").coerce_in<int>(",
    ("constant.hh", "can_store_value_in"): "can_store_value_in<int>(", ("constant.hh", "operator Quantity<U, R>"): "Quantity<Meters, int>(make_constant(",
    ("constant.hh", "operator T"): "std::chrono::duration<int>(make_constant(",
    ("zero.hh", "operator T"): "static_cast<int>(ZERO)", ("zero.hh", "operator std::chrono::duration<Rep, Period>"): "std::chrono::milliseconds(ZERO)",
}
PARITY_HELPERS = """
constexpr auto cx_pluseq(Quantity<Meters, int> a, Quantity<Meters, int> b) { a += b; return a; }
constexpr auto cx_minuseq(Quantity<Meters, int> a, Quantity<Meters, int> b) { a -= b; return a; }
constexpr auto cx_muleq(Quantity<Meters, int> a, int s) { a *= s; return a; }
constexpr auto cx_diveq(Quantity<Meters, double> a, double s) { a /= s; return a; }
constexpr auto cx_ppluseq(QuantityPoint<Meters, int> p, Quantity<Meters, int> q) { p += q; return p; }
constexpr auto cx_pminuseq(QuantityPoint<Meters, int> p, Quantity<Meters, int> q) { p -= q; return p; }
"""
CONSTEXPR_USES_MEMBERS = [
    "cx_pluseq(meters(1), meters(2))", "cx_minuseq(meters(1), meters(2))", "cx_muleq(meters(4), 3)", "cx_diveq(meters(4.0), 8.0)",
    "cx_ppluseq(meters_pt(1), meters(2))", "cx_pminuseq(meters_pt(1), meters(2))",
    "static_cast<int>(make_quantity<UnitProductT<>>(3))", "std::chrono::duration<int>(seconds(3)).count()",
    "static_cast<Quantity<Meters, int>::NTTP>(meters(5))", "from_nttp(static_cast<Quantity<Meters, int>::NTTP>(meters(5)))",
    "meters_pt(5).in(meters_pt / mag<100>())", "meters_pt(5).coerce_as(meters_pt * mag<100>())",
    "make_constant(meters / seconds * mag<299792458>()).in<int>(meters / seconds)", "make_constant(meters / seconds * mag<299792458>()).coerce_as<int>(meters / seconds * mag<1000>())",
    "make_constant(meters / seconds * mag<299792458>()).coerce_in<int>(meters / seconds * mag<1000>())",
    "decltype(make_constant(meters * mag<5>()))::can_store_value_in<int>(meters)", "Quantity<Meters, int>(make_constant(meters * mag<5>()))",
    "std::chrono::duration<int>(make_constant(seconds * mag<5>())).count()", "static_cast<int>(ZERO)", "std::chrono::milliseconds(ZERO).count()",
]


# Free constexpr functions of namespace au (names read from the tree on every run): every name must
# occur in the table or be listed here with the reason why a constant-expression use is not offered.
FREE_NOT_IN_TABLE = {
    "isnan": "wraps std::isnan: usable in constant expressions only where the compiler treats <cmath> as builtin (g++), not a library promise",
    "copysign": "wraps std::copysign (same)",
    "can_scale_without_overflow": "helper of the conversion policy, exercised through implicit_rep_permitted_from_source_to_target",
    "make_quantity_unless_unitless": "helper of operator* / operator/",
    "fits_in_unit_slot": "helper of the unit-slot overloads",
    "is_forward_declared_unit_valid": "used by the library's own static_asserts in the unit headers",
    "integer_quotient": "deprecated spelling kept for compatibility: use is a deprecation warning, not part of the promise",
}
CONSTEXPR_USES_FREE = [
    "are_units_point_equivalent(Celsius{}, Kelvins{})", "as_chrono_duration(seconds(std::int64_t{3})).count()", "as_raw_number(meters(6.0) / (meters * mag<2>())(1.0))",
    "unit_ratio(associated_unit(meters), Meters{}) == mag<1>()", "unit_ratio(associated_unit_for_points(meters_pt), Meters{}) == mag<1>()", "unit_ratio(cbrt(cubed(Meters{})), Meters{}) == mag<1>()", "unit_ratio(sqrt(squared(Meters{})), Meters{}) == mag<1>()",
    "common_magnitude(mag<6>(), mag<4>()) == mag<2>()", "unit_ratio(common_point_unit(Celsius{}, Kelvins{}), common_point_unit(Kelvins{}, Celsius{})) == mag<1>()",
    "unit_ratio(common_unit(Feet{}, Inches{}), Inches{}) == mag<1>()", "cubed(meters)(2).in(cubed(meters))", "numerator(mag<6>() / mag<4>()) == mag<3>()", "denominator(mag<6>() / mag<4>()) == mag<2>()",
    "integer_part(mag<7>() / mag<2>()) == mag<3>()", "is_rational(mag<3>() / mag<4>())", "is_dimensionless(Feet{} / Inches{})", "is_unit(Feet{})",
    "is_unitless_unit(Feet{} / Feet{})", "unit_ratio(inverse(Hertz{}), Seconds{}) == mag<1>()", "mag<5>() == mag<5>()", "mag_label(mag<12>())[0]",
    "make_common(feet, inches)(3).in(inches)", "make_common_point(celsius_pt, kelvins_pt)(3).in(make_common_point(celsius_pt, kelvins_pt))",
    "make_quantity<Meters>(3).in(meters)", "make_quantity_point<Meters>(3).in(meters_pt)", "origin_displacement(Kelvins{}, Celsius{}) == origin_displacement(Kelvins{}, Celsius{})",
    "pow<2>(meters)(3).in(squared(meters))", "unit_ratio(root<2>(squared(Meters{})), Meters{}) == mag<1>()", "symbol_for(meters) * 3 == meters(3)", "implicit_rep_permitted_from_source_to_target<int>(Feet{}, Inches{})",
]


# every rep narrower than int (arithmetic happens in int: a brace-initialised or implicitly narrowed
# result is an error for one compiler and a warning for the other) x the conversion paths
CONSTEXPR_USES_SUBINT = [e % dict(R=r) for r in ("std::int8_t", "std::uint8_t", "std::int16_t", "std::uint16_t") for e in (
    "inches(%(R)s{10}).coerce_in(centi(meters))", "inches(%(R)s{10}).coerce_as(centi(meters))", "yards(%(R)s{100}).template coerce_in<%(R)s>(meters)",
    "inches(%(R)s{24}).coerce_in(feet)", "feet(%(R)s{3}).coerce_in(inches)", "feet(%(R)s{3}).template as<%(R)s>(yards)",
    "will_conversion_truncate(inches(%(R)s{25}), feet)", "is_conversion_lossy(inches(%(R)s{24}), feet)", "will_conversion_overflow(feet(%(R)s{30}), inches)",
    "is_conversion_lossy(inches(%(R)s{10}), centi(meters))", "is_conversion_lossy<%(R)s>(inches(10), feet)",
    "feet(%(R)s{25}) %% feet(%(R)s{7})", "feet(%(R)s{1}) + feet(%(R)s{3})", "-feet(%(R)s{1})", "feet(%(R)s{6}) * %(R)s{2}", "feet(%(R)s{6}) / %(R)s{2}",
    "feet(%(R)s{6}) / feet(%(R)s{2})", "meters_pt(%(R)s{1}).coerce_in(centi(meters_pt))", "rep_cast<%(R)s>(feet(300)).in(feet)")]


def deduced_template_template_params(ctx, headers):
    """A partial specialisation that DEDUCES a template template parameter with a fixed parameter list
    from a type (`template <template <class> class P, class U> struct X<P<U>>`) matches different
    sets of types under different compilers and standards: since P0522 (g++ from C++17 on) `P` also
    binds to templates with defaulted or variadic parameters, g++ in C++14 and clang 14 refuse that.
    The same program is then accepted under one configuration and refused - or given another
    type - under another (F-27).  S rule over a TU of every public header: every class template
    partial specialisation with a template template parameter is listed; one whose parameter list
    has no pack AND whose name is applied to arguments in the specialisation's own argument list is
    reported.  (A variadic `template <class...> class Pack` matches every class template alike, and
    a template template parameter that is only passed along by name is not deduced from a type.)"""
    tu = "".join('#include "%s"\n' % h for h in headers if not needs_gtest(h))
    res = srclint.clang_query(ctx, tu, [("ps", 'classTemplatePartialSpecializationDecl(hasDescendant(templateTemplateParmDecl()), isExpansionInFileMatching("/au/code/au/"))')], tag="c20ttp")
    n, locs = res["ps"]
    ctx.require(n >= 5, "only %d partial specialisations with template template parameters found (the pack utilities alone have more)" % n)
    cache = {}
    bad = []
    seen = set()
    for (f, l) in locs:
        if (f, l) in seen:
            continue
        seen.add((f, l))
        if f not in cache:
            cache[f] = open(f).read().splitlines()
        L = cache[f]
        # the declaration: from the `template <` line(s) above the struct keyword to the `{` / `;`
        a = l - 1
        while a > 0 and not re.match(r"^\s*template\s*<", L[a]):
            a -= 1
        b = l - 1
        while b < len(L) - 1 and "{" not in L[b] and not L[b].rstrip().endswith(";"):
            b += 1
        text = " ".join(L[a:b + 1])
        for m in re.finditer(r"template\s*<([^<>]*)>\s*class\s+(\w+)", text):
            plist, name = m.group(1), m.group(2)
            if "..." in plist:
                continue
            # the specialisation's own argument list: `struct Name< ... >` up to the matching bracket
            hm = re.search(r"\b(?:struct|class)\s+\w+\s*<", text[m.end():])
            if not hm:
                continue
            i0 = m.end() + hm.end()
            depth, i = 1, i0
            while i < len(text) and depth:
                depth += {"<": 1, ">": -1}.get(text[i], 0)
                i += 1
            head = text[i0:i]
            if re.search(r"\b%s\s*<" % re.escape(name), head):
                bad.append((f, l, name, plist.strip()))
    for (f, l, name, plist) in bad:
        rel = os.path.relpath(f, AU_INC)
        ctx.violation("ttp-deduction:%s:%s" % (rel, name),
                      "%s:%d: a partial specialisation deduces the template template parameter `template <%s> class %s` from a type: whether it also binds templates with defaulted or "
                      "variadic parameters differs between g++ from C++17 on (P0522) and g++ C++14 / clang - the same program can be accepted under one and refused under the other" % (rel, l, plist, name))
    return dict(partial_specialisations_with_template_template_parameters=len(seen), deduced_fixed_arity=len(bad))


def odr_definitions(ctx, headers):
    """Before C++17 a static constexpr data member that is ODR-used (bound to a reference, passed to
    a `const T&` parameter) needs a definition at namespace scope; from C++17 on the in-class
    declaration is one.  A public member without it makes `q.data_in(decltype(q)::unit)` a link error
    under C++14 only - accepted under one standard, refused under another.
      S  over a TU of every public header (C++14): every static constexpr data member of a class
         outside namespace detail is paired, by (class, member), with an out-of-line definition;
         members of detail classes are counted and listed, not demanded (no program can name them)
      I  for the documented members (`::unit` of the four main templates, unit labels, prefix labels,
         numeric_limits<Quantity>) a C++14 -O0 IR module that binds each to a reference must DEFINE
         every au:: global it references (an `external` / `available_externally` global is what the linker would miss)."""
    tu = "".join('#include "%s"\n' % h for h in headers if not needs_gtest(h))
    in_class = ('varDecl(isStaticStorageClass(), isConstexpr(), hasParent(cxxRecordDecl(unless(isImplicit())).bind("cls")), '
                'isExpansionInFileMatching("/au/code/au/")%s)')
    det = 'hasAncestor(namespaceDecl(hasName("detail")))'
    ms = [("pub", in_class % (", unless(%s)" % det)), ("det", in_class % (", " + det)),
          ("def", 'varDecl(isDefinition(), hasDeclContext(cxxRecordDecl()), unless(hasParent(cxxRecordDecl())), isExpansionInFileMatching("/au/code/au/"))')]
    wd = ctx.sub("S")
    src = os.path.join(wd, "odr.cc")
    with open(src, "w") as f:
        f.write(tu)
    cmd = ["clang-query-14", "-c", "set output diag", "-c", "set bind-root true"] + [x for _, m in ms for x in ("-c", "match " + m)]
    cmd += [src, "--", "-std=c++14", "-I" + AU_INC, "-w"]
    rc, so, se = cxx.run(cmd)
    blocks = re.split(r"^\d+ match(?:es)?\.$", so, flags=re.M)
    if len(blocks) < 4:
        raise AnalysisBroken("clang-query (ODR rule) gave %d result blocks for 3 matchers: %s" % (len(blocks) - 1, (se or so)[-400:]))
    cache = {}

    def L(f):
        if f not in cache:
            cache[f] = open(f).read().splitlines()
        return cache[f]

    def member_name(f, l):
        t = " ".join(L(f)[l - 1:l + 2])
        m = re.search(r"static\s+constexpr\s+[^=;{]*?(\w+)\s*(?:\[[^\]]*\])?\s*(?:=|\{|;)", t)
        return m.group(1) if m else None

    def class_name(f, l):
        for k in range(l - 1, min(l + 6, len(L(f)))):
            m = re.search(r"\b(?:struct|class)\s+(\w+)", L(f)[k])
            if m:
                return m.group(1)
        return None

    def qual(t):
        t = re.sub(r"\s*=.*$", "", t.split(";")[0])
        m = re.search(r"::\s*(\w+)\s*(?:\[[^\]]*\])?\s*$", t)
        if not m:
            return ("?", t[:80])
        member, pre = m.group(1), t[:m.start()].rstrip()
        if pre.endswith(">"):
            depth, i = 0, len(pre) - 1
            while i >= 0:
                if pre[i] == ">":
                    depth += 1
                elif pre[i] == "<":
                    depth -= 1
                    if depth == 0:
                        break
                i -= 1
            pre = pre[:i].rstrip()
        m2 = re.search(r"(\w+)$", pre)
        return (m2.group(1) if m2 else "?", member)

    def need_of(block):
        out = {}
        for mb in re.split(r"^Match #\d+:$", block, flags=re.M):
            r = re.search(r'^(\S+?):(\d+):\d+: note: "root" binds here', mb, re.M)
            c = re.search(r'^(\S+?):(\d+):\d+: note: "cls" binds here', mb, re.M)
            if r and c:
                key = (class_name(c.group(1), int(c.group(2))), member_name(r.group(1), int(r.group(2))))
                out.setdefault(key, set()).add((r.group(1), int(r.group(2))))
        return out

    pub, deta = need_of(blocks[0]), need_of(blocks[1])
    have = {}
    for m in re.finditer(r'^(\S+?):(\d+):\d+: note: "root" binds here', blocks[2], re.M):
        f, l = m.group(1), int(m.group(2))
        t = ""
        for k in range(l - 1, min(l + 8, len(L(f)))):
            t += " " + L(f)[k]
            if ";" in L(f)[k]:
                break
        have.setdefault(qual(t), set()).add((f, l))
    ctx.require(len(pub) >= 100 and len(have) >= 100, "ODR rule: only %d public static constexpr members and %d out-of-line definitions found" % (len(pub), len(have)))
    ctx.require(all(k[0] and k[1] for k in pub), "ODR rule: a declaration could not be named: %s" % [k for k in pub if not (k[0] and k[1])][:3])
    missing = 0
    for k, locs in sorted(pub.items()):
        if len(have.get(k, ())) < len(locs):
            missing += 1
            f, l = sorted(locs)[0]
            ctx.violation("odr:%s::%s" % k, "%s::%s (%s:%d) is a public static constexpr data member without a definition at namespace scope: a C++14 program that binds it to a reference "
                          "(e.g. passes it to a `const T&` parameter) does not link, the same program builds under C++17 and C++20" % (k[0], k[1], os.path.relpath(f, AU_INC), l))
    undefined_detail = sorted("%s::%s" % k for k, locs in deta.items() if len(have.get(k, ())) < len(locs))
    # I: the linker's question, decided on the module
    uses = ["au::Quantity<au::Meters, int>::unit", "au::Quantity<au::Meters, double>::unit", "au::QuantityMaker<au::Meters>::unit", "au::QuantityPoint<au::Celsius, float>::unit",
            "au::QuantityPointMaker<au::Celsius>::unit", "au::Meters::label", "au::Kilo<au::Meters>::label", "au::Celsius::label", "au::Gibi<au::Bytes>::label",
            "std::numeric_limits<au::Quantity<au::Meters, int>>::digits", "std::numeric_limits<au::Quantity<au::Meters, float>>::has_infinity",
            "decltype(au::meters(1))::unit", "decltype(au::celsius_pt(1.0))::unit", "au::SPEED_OF_LIGHT", "au::ZERO", "au::ONE", "au::meters", "au::symbols::m", "au::meter"]
    text = ('#include "au/au.hh"\n#include "au/math.hh"\n#include "au/units/meters.hh"\n#include "au/units/celsius.hh"\n#include "au/units/bytes.hh"\n#include "au/constants/speed_of_light.hh"\n'
            "template <class T> const void *addr(const T &x) { return &x; }\n"
            + "".join('extern "C" const void *use_%d() { return addr(%s); }\n' % (i, u) for i, u in enumerate(uses)))
    isrc, ill = os.path.join(wd, "odr_ir.cc"), os.path.join(wd, "odr_ir.ll")
    with open(isrc, "w") as f:
        f.write(text)
    rc, so, se = cxx.run(["clang++", "-std=c++14", "-O0", "-S", "-emit-llvm", "-w", "-I" + AU_INC, isrc, "-o", ill])
    if rc != 0:
        raise AnalysisBroken("ODR rule: the reference-binding unit does not compile: %s" % se[-400:])
    ir_text = open(ill).read()
    ext = re.findall(r"^@(_ZN[^ ]*2au[^ ]*) = (?:external|available_externally) [^\n]*$", ir_text, re.M)
    ctx.require(len(re.findall(r"^define [^\n]*@use_\d+", ir_text, re.M)) == len(uses), "ODR rule: use functions missing from the IR")
    for sym in sorted(set(ext)):
        ctx.violation("odr-ir:" + sym, "under C++14 the global %s is referenced but never defined by the headers (`external` / `available_externally` in the module): the program does not link; the in-class declaration is a definition only from C++17 on" % sym)
    return dict(public_members=len(pub), detail_members=len(deta), out_of_line_definitions=len(have), public_without_definition=missing,
                detail_without_definition=undefined_detail, ir_reference_bindings=len(uses), ir_undefined_globals=len(set(ext)))


# call forms for every au function whose name std also declares (under some standard): {name: [expressions]}
# q / q2: two quantities of one type, p / p2: two points of one type, ang: an angle, sq: a squared unit
STD_COLLISION_CALLS = {
    "min": ["min(q, q2)", "min(p, p2)", "min(q, cm)", "min(p, cmp)"],
    "max": ["max(q, q2)", "max(p, p2)", "max(q, cm)", "max(p, cmp)"],
    "clamp": ["clamp(q, q2, q)", "clamp(p, p2, p)", "clamp(q, cm, q2)", "clamp(p, cmp, p2)"],
    "abs": ["abs(q)", "abs(qd)"],
    "sqrt": ["sqrt(sq)"], "cbrt": ["cbrt(cu)"],
    "hypot": ["hypot(qd, qd)", "hypot(qd, cmd)"],
    "fmod": ["fmod(qd, qd)", "fmod(qd, cmd)"], "remainder": ["remainder(qd, qd)", "remainder(qd, cmd)"],
    "copysign": ["copysign(qd, qd)", "copysign(qd, -1.0)", "copysign(1.0, qd)"],
    "isnan": ["isnan(qd)", "isnan(pd)"],
    "sin": ["sin(ang)"], "cos": ["cos(ang)"], "tan": ["tan(ang)"],
    "arcsin": ["arcsin(0.5)"], "arccos": ["arccos(0.5)"], "arctan": ["arctan(0.5)"], "arctan2": ["arctan2(qd, qd)", "arctan2(1.0, 2.0)"],
    "lerp": ["lerp(qd, qd, 0.5)", "lerp(pd, pd, 0.5)"], "mean": ["mean(q, q2)"],
    "pow": ["pow<2>(meters)", "pow<-1>(meters)(2.0)", "pow<2>(Meters{})", "pow<2>(mag<3>())", "pow<2>(symbols::m)"],
    "get": ["(void)0"], "swap": ["(void)0"],
}


def std_collisions(ctx):
    """`using namespace std; using namespace au;` is an ordinary way to use both.  The standard library
    grew between the standards (std::clamp and std::hypot(x, y, z) in C++17, std::lerp in C++20 ...):
    a call whose au overload is not more specialised than the std one is fine under one standard and
    ambiguous under the next.  Every function of namespace au whose NAME std also declares (decided
    by asking the compilers for `using std::NAME;` under C++14 and C++20) is called, under both
    using-directives, with operands of identical types and of mixed types; every call must be
    accepted under all six configurations.  A colliding name without call forms is analysis-broken."""
    tu = '#include "au/au.hh"\n#include "au/math.hh"\n'
    ms = [("f", 'functionDecl(hasParent(namespaceDecl(hasName("au"))), unless(cxxMethodDecl()))'),
          ("ft", 'functionTemplateDecl(hasParent(namespaceDecl(hasName("au"))))')]
    r = srclint.clang_query(ctx, tu, ms, tag="apiall")
    names = set()
    for k in ("f", "ft"):
        for f, l in r[k][1]:
            if "/au/code/au/" not in f:
                continue
            src = open(f).read().splitlines()
            txt = " ".join(src[l - 1:l + 4])
            txt = re.sub(r"^\s*template\s*<[^{;]*?>\s*(?=(?:constexpr|inline|auto|static|friend|\w))", "", txt)
            m = re.search(r"\b(operator\s*[^\s(]+|\w+)\s*\(", txt)
            if m and not m.group(1).startswith("operator") and m.group(1) not in ("decltype", "noexcept", "static_assert", "enable_if_t", "sizeof"):
                names.add(m.group(1))
    ctx.require(len(names) >= 60, "only %d function names found in namespace au" % len(names))
    probe_pre = "#include <algorithm>\n#include <cmath>\n#include <numeric>\n#include <utility>\n#include <tuple>\n#include <cstdlib>\n"
    probes = [witness.Item("std:%s" % n, "using std::%s;" % n, "accept", None, dict(name=n)) for n in sorted(names)]
    res, _ = witness.judge(ctx, probes, cxx.QUICK_CONFIGS, prelude=probe_pre, batch=200, tag="c20std")
    colliding = sorted(it.meta["name"] for it in probes if any(not v.rejected for v in res[it.key].values()))
    ctx.require(len(colliding) >= 8 and "clamp" in colliding and "min" in colliding, "std-collision probe found only %s" % colliding)
    missing = [n for n in colliding if n not in STD_COLLISION_CALLS]
    ctx.require(not missing, "functions of namespace au that std also declares, without call forms in STD_COLLISION_CALLS: %s" % missing)
    prelude = (witness.DEFAULT_PRELUDE + "#include <algorithm>\n#include <cmath>\n#include <numeric>\n#include \"au/math.hh\"\n#include \"au/units/meters.hh\"\n#include \"au/units/radians.hh\"\n#include \"au/units/degrees.hh\"\n")
    setup = ("using namespace std; using namespace au;\n"
             "void w() { auto q = meters(1); auto q2 = meters(2); auto cm = au::centi(meters)(3); auto qd = meters(1.5); auto cmd = au::centi(meters)(2.5);\n"
             "auto p = meters_pt(1); auto p2 = meters_pt(2); auto cmp = au::centi(meters_pt)(3); auto pd = meters_pt(1.5); auto ang = degrees(30.0); auto sq = squared(meters)(4.0); auto cu = cubed(meters)(8.0);\n"
             "(void)q; (void)q2; (void)cm; (void)qd; (void)cmd; (void)p; (void)p2; (void)cmp; (void)pd; (void)ang; (void)sq; (void)cu;\n(void)(%s); }")
    items = []
    for n in colliding:
        for e in STD_COLLISION_CALLS[n]:
            if e != "(void)0":
                items.append(witness.Item("stdns:%s:%s" % (n, e), setup % e, "accept", None, dict(desc="`%s` with `using namespace std; using namespace au;` in scope" % e)))
    results, stats = witness.judge(ctx, items, cxx.ALL_CONFIGS, prelude=prelude, batch=30, tag="c20ns")
    nbad = witness.report_mismatches(ctx, items, results, prelude=prelude)
    return dict(au_function_names=len(names), names_also_in_std=colliding, calls=len(items), configs=len(cxx.ALL_CONFIGS), mismatches=nbad)


def api_free_functions(ctx):
    tu = '#include "au/au.hh"\n#include "au/math.hh"\n'
    ms = [("f", 'functionDecl(isConstexpr(), hasParent(namespaceDecl(hasName("au"))), unless(cxxMethodDecl()))'),
          ("ft", 'functionTemplateDecl(hasParent(namespaceDecl(hasName("au"))), has(functionDecl(isConstexpr())))')]
    r = srclint.clang_query(ctx, tu, ms, tag="apif")
    names = set()
    for k in ("f", "ft"):
        for f, l in r[k][1]:
            if "/au/code/au/" not in f:
                continue
            src = open(f).read().splitlines()
            txt = " ".join(src[l - 1:l + 3])
            m = re.search(r"constexpr\s+[^;{]*?\b(operator\s*[^\s(]+|\w+)\s*\(", txt)
            if m and not m.group(1).startswith("operator"):
                names.add(m.group(1))
    return sorted(names)


def api_members(ctx):
    """Public constexpr member functions of Quantity, QuantityPoint, Constant and Zero (primary
    templates), read from the tree: [(file basename, member name)]."""
    tu = '#include "au/au.hh"\n'
    cls = 'cxxRecordDecl(hasAnyName("::au::Quantity", "::au::QuantityPoint", "::au::Constant", "::au::Zero"), unless(classTemplateSpecializationDecl()))'
    r = srclint.clang_query(ctx, tu, [("m", "cxxMethodDecl(ofClass(%s), isPublic(), unless(isImplicit()), unless(cxxConstructorDecl()), unless(cxxDestructorDecl()), unless(isDeleted()))" % cls)], tag="api")
    out = set()
    for f, l in r["m"][1]:
        line = open(f).read().splitlines()[l - 1]
        if "constexpr" not in line:
            continue  # (data_in hands out a reference to the stored value: not a constant-expression use)
        m = re.search(r"operator\s*(.+?)\s*\(", line)
        name = ("operator " + m.group(1) if re.match(r"[\w:]", m.group(1)) else "operator" + m.group(1)) if m else re.search(r"(\w+)\s*\(", line).group(1)
        out.add((os.path.basename(f), name))
    return sorted(out)


def constexpr_parity(ctx):
    """Every use of the API inside a constant expression is accepted (or refused) ALIKE by both
    compilers under C++14, C++17 and C++20.  (What a lambda, an `if`, a non-literal temporary may do
    inside a constant expression changed between the standards; the library promises C++14.)"""
    prelude = (witness.DEFAULT_PRELUDE + "#include <chrono>\n#include <cstdint>\n#include \"au/math.hh\"\n#include \"au/units/feet.hh\"\n#include \"au/units/inches.hh\"\n#include \"au/units/yards.hh\"\n"
               "#include \"au/units/meters.hh\"\n#include \"au/units/seconds.hh\"\n#include \"au/units/hertz.hh\"\n#include \"au/units/celsius.hh\"\n#include \"au/units/kelvins.hh\"\nusing namespace au;\n")
    uses = CONSTEXPR_USES + CONSTEXPR_USES_MEMBERS + CONSTEXPR_USES_FREE + CONSTEXPR_USES_SUBINT
    free = api_free_functions(ctx)
    ctx.require(len(free) >= 50, "only %d constexpr free functions found in namespace au" % len(free))
    tbl = "\n".join(uses)
    missing = [n for n in free if n not in FREE_NOT_IN_TABLE and not re.search(r"\b%s\s*[(<]" % re.escape(n), tbl)]
    ctx.require(not missing, "constexpr parity: constexpr free functions of namespace au without an entry in the table: %s" % missing)
    members = api_members(ctx)
    ctx.require(len(members) >= 25, "only %d public constexpr members found in the main class templates" % len(members))
    table = "\n".join(uses)
    uncovered = [m for m in members if m not in PARITY_COVER or PARITY_COVER[m] not in table]
    ctx.require(not uncovered, "constexpr parity: public constexpr members without an entry in the table: %s" % uncovered)
    prelude += PARITY_HELPERS
    items = [witness.Item("cx:%d:%s" % (i, e), "constexpr auto cxv_%d = (%s); static_assert(sizeof(cxv_%d) > 0, \"\");" % (i, e, i), "accept", None,
                          dict(desc="`constexpr auto v = %s;`" % e)) for i, e in enumerate(uses)]
    # the sub-int expressions also as ordinary (run-time) uses: what one compiler only warns about
    # outside a constant expression, the other refuses
    items += [witness.Item("use:%d:%s" % (i, e), "auto usev_%d() { return (%s); }" % (i, e), "accept", None,
                           dict(desc="`auto f() { return %s; }`" % e)) for i, e in enumerate(CONSTEXPR_USES_SUBINT)]
    results, stats = witness.judge(ctx, items, cxx.ALL_CONFIGS, prelude=prelude, batch=40, tag="c20cx")
    nacc = 0
    for it in items:
        rej = sorted(cn for cn, v in results[it.key].items() if v.rejected)
        acc = sorted(cn for cn, v in results[it.key].items() if not v.rejected)
        if rej and acc:
            mech = [m for cn, v in results[it.key].items() if v.rejected for m in v.mech][:4]
            ctx.violation("constexpr-parity:" + it.key.split(":", 2)[2], "%s is accepted under %s but rejected under %s" % (it.meta["desc"], ", ".join(acc), ", ".join(rej)),
                          "\n".join(mech), witness.render_solo(it, prelude), ext="cc")
        elif acc:
            nacc += 1
    # an expression that no configuration accepts is a slip in this table, not in the library
    dead = [it.meta["desc"] for it in items if all(v.rejected for v in results[it.key].values())]
    if not ctx.violations:
        ctx.require(not dead, "constexpr parity: %d expressions are rejected by every configuration, e.g. %s" % (len(dead), dead[:2]))
    ctx.require(nacc >= 100, "constexpr parity: only %d expressions accepted" % nacc)
    return dict(expressions=len(items), api_members_covered=len(members), api_free_functions_covered=len(free) - len([n for n in free if n in FREE_NOT_IN_TABLE]), api_free_functions_excused=sorted(n for n in free if n in FREE_NOT_IN_TABLE), accepted_everywhere=nacc, rejected_everywhere=dead, configs=len(cxx.ALL_CONFIGS))


def body(ctx):
    rnd = random.Random(ctx.seed)
    configs = cxx.configs_for(ctx.tier)
    headers = list_headers()
    inst, graph = structural_rules(ctx, headers)
    ctx.log("structural rules: %s" % inst)
    fa = fwd_agreement(ctx, headers)
    ctx.log("fwd agreement: %s" % fa)
    mat = compile_matrix(ctx, headers, configs, rnd)
    ctx.log("compile matrix: %d programs" % mat["programs"])
    units = atoms.discover_units(ctx, floor=40)
    consts = atoms.discover_constants(ctx, floor=5)
    sf = single_file_checks(ctx, configs, rnd, units, consts)
    ctx.log("single file: %s" % sf)
    cx = constexpr_parity(ctx)
    ctx.log("constexpr parity: %s" % cx)
    odr = odr_definitions(ctx, headers)
    ttp = deduced_template_template_params(ctx, headers)
    ctx.log("template template parameters: %s" % ttp)
    ctx.log("ODR definitions: %s" % odr)
    stdc = std_collisions(ctx)
    ctx.log("std collisions: %s" % stdc)
    total = sum(inst.values()) + fa["fwd_records"] + mat["programs"] + sf["programs"] + sf["ir_functions_compared"]
    ctx.coverage.update(dict(
        evaluations=total, distinct_nontrivial=total,
        rule="rule instances of R1..R6 over every non-test header (counted per header / include / line / conditional), "
             "forward-declared records matched by clang-query, one program per (header, alone|twice) and per random all-headers "
             "order per configuration, per generated single file: 2 TUs per configuration + IR link, and one DAG comparison per "
             "API-surface wrapper per packaging/standard pair; one constant-expression use per API operation judged under all six configurations (accepted / refused alike), the conversion paths and operators also for every rep narrower than int and also as ordinary run-time uses; every public static constexpr data member paired with its namespace-scope definition (C++14 ODR), and a C++14 module binding the documented ones to references must define every au:: global it references; every au function whose name std also declares called under both using-directives with identical and mixed operand types, all six configurations",
        samples=[dict(rule="R1", header=headers[0]), dict(matrix="alone:%s" % headers[3]),
                 dict(single_file_selection="surface_io", args=["--units", "meters", "seconds", "hertz"]),
                 dict(api_surface="s_lossy compared as normalised IR DAG between single file and tree")],
        exhaustive=False, structural=inst, fwd=fa, matrix=mat, single_file=sf, constexpr_parity=cx, odr_definitions=odr, template_template_deduction=ttp, std_collisions=stdc,
        reviewed_conditionals=["%s: %s" % k for k in REVIEWED_CONDITIONALS],
        configs=[c.name for c in configs]))
    ctx.assumptions += ["the single-file generator is run as a build step (python), its output is analysed, never executed",
                        "run-time equality between g++ and clang is decided only as identical accept/reject and identical constant expressions (W checks of the other properties run both compilers)"]


def main(argv=None):
    return common.run_check(PROP, "exploration", body, argv)


if __name__ == "__main__":
    sys.exit(main())
