"""C11 - magnitude evaluation and classification are exact  (W + model, constant extraction)."""
import random
import sys
from fractions import Fraction
from math import isqrt

from vlib import common, cxx, witness, model, extract
from vlib.common import AnalysisBroken
from checks.c07 import mag_cpp
from checks.c14 import flat

PROP = "C11"
INT_T = ["int8_t", "uint8_t", "int16_t", "uint16_t", "int32_t", "uint32_t", "int64_t", "uint64_t"]
FP_T = ["float", "double", "long double"]
USING = "".join("using std::%s; " % t for t in INT_T) + "\n"
PRIMES = [2, 3, 5, 7, 11, 13, 2 ** 31 - 1, 2 ** 61 - 1, 2 ** 64 - 59]
EXPS = [Fraction(x) for x in (1, -1, 2, -2, 3, -3, 7, 8, 15, 16, 31, 32, 63, 64)] + [Fraction(1, 2), Fraction(-1, 2), Fraction(1, 3), Fraction(-1, 3), Fraction(2, 3)]
PI200 = Fraction(int("31415926535897932384626433832795028841971693993751058209749445923078164062862089986280348253421170679821480865132823066470938446095505822317253594081284811174502841027019385211055596446229489549303819"), 10 ** 199)
KBITS = 400


def iroot(n, k):
    """floor(n ** (1/k)) for big integers."""
    if n < 2:
        return n
    x = 1 << ((n.bit_length() + k - 1) // k)
    while True:
        y = ((k - 1) * x + n // x ** (k - 1)) // k
        if y >= x:
            return x
        x = y


def real_value(m):
    """(Fraction approximation good to ~2^-300 relative, is_exact)."""
    v = Fraction(1)
    exact = True
    for b, e in m.items():
        base = PI200 if b == model.PI_ID else Fraction(b)
        if b == model.PI_ID:
            exact = False
        p = base ** abs(e.numerator)
        if e.denominator != 1:
            # root with KBITS fractional bits
            k = e.denominator
            scaled = (p.numerator << (k * KBITS)) // p.denominator
            r = iroot(scaled, k)
            if r ** k == scaled and p.denominator == 1 and (p.numerator << (k * KBITS)) % p.denominator == 0:
                pass
            p2 = Fraction(r, 1 << KBITS)
            if p2 ** k != p:
                exact = False
            p = p2
        v *= p if e > 0 else 1 / p
    return v, exact


def fp_round(v, t):
    """Round a positive Fraction to the floating type t (nearest-even).  Returns (value or 'inf', ulp)."""
    prec, emin, emax = model.FP_TYPES[t]
    if v == 0:
        return Fraction(0), Fraction(2) ** (emin - prec)
    # exponent e with 2^(e-1) <= v < 2^e
    e = v.numerator.bit_length() - v.denominator.bit_length()
    while Fraction(2) ** e <= v:
        e += 1
    while Fraction(2) ** (e - 1) > v:
        e -= 1
    e = max(e, emin)  # denormals share the exponent of the smallest normal
    ulp = Fraction(2) ** (e - prec)
    q = v / ulp
    n = q.numerator // q.denominator
    rem = q - n
    if rem > Fraction(1, 2) or (rem == Fraction(1, 2) and n % 2 == 1):
        n += 1
    r = n * ulp
    if r > model.fp_max(t):
        return "inf", ulp
    return r, ulp


def build_grid(ctx, rnd):
    mags = {}

    def add(m, why):
        m = model.norm(m)
        k = model.key(m)
        if k not in mags and len(m) <= 6:
            mags[k] = (m, why)

    add({}, "one")
    for p in PRIMES:
        for e in EXPS:
            add({p: e}, "prime power")
    # integers straddling each integer type's limits
    for t in INT_T:
        lo, hi = model.int_range(t)
        for n in (hi - 1, hi, hi + 1):
            if 1 <= n < 1 << 64:
                add(model.factor(n), "limit of %s" % t)
    add({2: Fraction(64)}, "2^64")
    add({2: Fraction(63)}, "2^63")
    # floating limits
    for t in FP_T:
        prec, emin, emax = model.FP_TYPES[t]
        add({2: Fraction(emax - 1)}, "2^(emax-1) of %s" % t)
        add({2: Fraction(emax)}, "2^emax of %s (just beyond max)" % t)
        add({2: Fraction(emin - 1)}, "smallest normal of %s" % t)
        add({2: Fraction(emin - prec)}, "smallest denormal of %s" % t)
        add({2: Fraction(emin - prec - 1)}, "half the smallest denormal of %s" % t)
        add({2: Fraction(emin - prec - 5)}, "below the denormals of %s" % t)
        add({2: Fraction(emax - 2), 3: Fraction(1)}, "1.5 * 2^(emax-1) of %s" % t)
    add({2: Fraction(-200)}, "2^-200")
    add({2: Fraction(-1100)}, "2^-1100")
    add({10: Fraction(1)} and {2: Fraction(38), 5: Fraction(38)}, "10^38")
    add({2: Fraction(39), 5: Fraction(39)}, "10^39")
    add({2: Fraction(308), 5: Fraction(308)}, "10^308")
    add({2: Fraction(309), 5: Fraction(309)}, "10^309")
    add({2: Fraction(-45), 5: Fraction(-45)}, "10^-45")
    add({2: Fraction(-46), 5: Fraction(-46)}, "10^-46")
    add({2: Fraction(-324), 5: Fraction(-324)}, "10^-324")
    # the primes next to 2^64 and 2^63 on their own: Prime<P> is only well-formed if the library's
    # own primality test agrees, and above 2^63 that test runs its modular helpers near wrap-around
    # (which branch of the strong-Lucas half is taken differs from prime to prime)
    def prev_prime0(n):
        while not model.is_prime(n):
            n -= 1
        return n
    q = 2 ** 64 - 1
    for _ in range(16 if ctx.thorough else 10):
        q = prev_prime0(q - 1)
        add({q: Fraction(1)}, "prime just below 2^64")
    q = 2 ** 63
    for _ in range(6 if ctx.thorough else 3):
        q += 1
        while not model.is_prime(q):
            q += 1
        add({q: Fraction(1)}, "prime just above 2^63")
    # two large primes that are close together in ONE magnitude: the ordering of bases must tell
    # them apart exactly (they coincide after rounding to double, or to float)
    def next_prime(n):
        while not model.is_prime(n):
            n += 1
        return n

    def prev_prime(n):
        while not model.is_prime(n):
            n -= 1
        return n
    near = []
    for start in (2 ** 53 + 1, 2 ** 60 + 1, 2 ** 63 + 1, 2 ** 24 + 1, 2 ** 31 + 1):
        a = next_prime(start)
        near.append((a, next_prime(a + 1)))
    a = prev_prime(2 ** 64 - 1)
    near.append((prev_prime(a - 1), a))
    for (a, b) in near:
        add({a: Fraction(1), b: Fraction(1)}, "product of neighbouring primes %d, %d" % (a, b))
        add({a: Fraction(1), b: Fraction(-1)}, "quotient of neighbouring primes %d, %d" % (a, b))
        add({a: Fraction(-1), b: Fraction(2)}, "q^2/p of neighbouring primes %d, %d" % (a, b))
    # products with pi and mixed exponents
    n = 400 if ctx.thorough else 60
    for _ in range(n):
        m = {}
        for _ in range(rnd.randrange(1, 4)):
            b = rnd.choice(PRIMES[:6] + [model.PI_ID] + PRIMES[6:])
            m[b] = m.get(b, 0) + rnd.choice(EXPS[:10] + EXPS[14:])
        add(m, "random product")
    for e in (1, 2, -1, Fraction(1, 2), 3):
        add({model.PI_ID: Fraction(e)}, "pi power")
        add({model.PI_ID: Fraction(e), 2: Fraction(1), 3: Fraction(-2)}, "pi product")
    return list(mags.values())


def model_repr(m, t):
    """(representable, expected exact int | expected rounded Fraction, ulp)."""
    v, exact = real_value(m)
    if model.is_int(t):
        if not model.mag_is_integer(m):
            return False, None, None
        iv = model.mag_to_fraction(m)
        lo, hi = model.int_range(t)
        return (lo <= iv <= hi), int(iv), None
    r, ulp = fp_round(v, t)
    if r == "inf":
        return False, None, ulp
    if r == 0:
        return False, None, ulp  # magnitudes are strictly positive: underflow to zero is not a representation
    # (a value in the subnormal band rounds to a strictly positive subnormal: it lies within the
    #  type's range like any other, and 'a few ulps' is measured in the subnormal spacing)
    return True, r, ulp


def fmax_of(t):
    prec, emin, emax = model.FP_TYPES[t]
    return (Fraction(2) ** prec - 1) * Fraction(2) ** (emax - prec)


def num_den_intpart(m):
    num = model.norm({b: e for b, e in m.items() if e > 0})
    den = model.norm({b: -e for b, e in m.items() if e < 0})
    ip = model.norm({b: Fraction(e.numerator // e.denominator) for b, e in m.items() if b != model.PI_ID and e >= 1})
    return num, den, ip


def c_lit(v, t):
    if model.is_int(t):
        return "%d%s" % (v, "ULL" if v >= 1 << 63 else "LL")
    # exact hex-float literal
    n, d = v.numerator, v.denominator
    e = 0
    while d > 1:
        d //= 2
        e -= 1
    while n % 2 == 0 and n:
        n //= 2
        e += 1
    assert n < 1 << 64
    return "auv::ld<%s>(%dULL, %d)" % (t, n, e)


def int_pow_rule(ctx):
    """checked_int_pow for the two integral types get_value ever evaluates in (Widen<T> = uintmax_t,
    intmax_t): for EVERY base >= 1 (<= INTMAX_MAX for the signed one) and EVERY exponent, no
    multiplication of the square-and-multiply loop wraps (unsigned) or overflows (signed: undefined
    behaviour) and no division divides by zero.  Decided by an inferred inductive invariant over the
    loop-carried values (candidates v >= 1, v <= INTMAX_MAX; vlib/loops.py) under which every
    operation of an arbitrary iteration is an obligation of the relational engine (vlib/linrel.py).
    That `ERR_CANNOT_FIT` is reported exactly when base^exp exceeds the type is NOT decided here (the
    grid below samples it)."""
    from vlib import ir, loops, linrel
    from vlib.linrel import var, K
    src = ('#include <cstdint>\n#include "au/magnitude.hh"\n'
           'extern "C" bool cip_u(std::uint64_t b, std::uint64_t e) { return au::detail::checked_int_pow<std::uint64_t>(b, e).outcome == au::detail::MagRepresentationOutcome::OK; }\n'
           'extern "C" bool cip_s(std::int64_t b, std::uint64_t e) { return au::detail::checked_int_pow<std::int64_t>(b, e).outcome == au::detail::MagRepresentationOutcome::OK; }\n')
    ll, err = ir.build_ir(ctx, src, "c11pow")
    if not ll:
        raise AnalysisBroken("checked_int_pow wrappers do not compile: %s" % err[-400:])
    mod = ir.parse_module(ll, only=lambda n: n in ("cip_u", "cip_s"))
    umax, smax = (1 << 64) - 1, (1 << 63) - 1
    out = {}
    undecided = []
    for fn, top in (("cip_u", umax), ("cip_s", smax)):
        try:
            pre = [K(1) - var("p0"), var("p0") - K(top), -var("p1"), var("p1") - K(umax)]
            r = loops.check_loop(mod.funcs[fn], mod, pre, [(">= 1", lambda v: K(1) - v), ("<= max", lambda v, top=top: v - K(top))])
            ctx.require(r["phis"] == 3 and r["obligations"] >= 6, "checked_int_pow (%s): %d loop-carried values, %d obligations (expected base, exponent, result; two products and two quotients)" % (fn, r["phis"], r["obligations"]))
            for what, node in r["failures"]:
                loc = ", inlined at ".join("%s:%s" % (f.split("/au/code/")[-1], l) for f, l in mod.loc_chain(node.dbg)) if getattr(node, "dbg", None) else "?"
                ctx.violation("int_pow:%s:%s" % (fn, what), "checked_int_pow<%s>: %s at %s (%s), for some base >= 1 and exponent, under the inferred invariant {%s}"
                              % ("std::uint64_t" if fn == "cip_u" else "std::int64_t", what, node.pretty()[:100], loc, ", ".join("%%%s %s" % x for x in r["invariant"])))
            out[fn] = dict(invariant=["%%%s %s" % x for x in r["invariant"]], obligations=r["obligations"], failures=len(r["failures"]), paths=r["paths"])
        except linrel.Failure as e:
            undecided.append("%s: %s" % (fn, e))
    if undecided and not ctx.violations:
        raise AnalysisBroken("checked_int_pow is outside the fragment of the relational engine: %s" % "; ".join(undecided))
    return out


def body(ctx):
    rnd = random.Random(ctx.seed)
    configs = cxx.configs_for(ctx.tier)
    ipr = int_pow_rule(ctx)
    ctx.log("checked_int_pow: %s" % ipr)
    grid = build_grid(ctx, rnd)
    prelude = witness.DEFAULT_PRELUDE + USING
    pairs = []
    for (m, why) in grid:
        ts = INT_T + FP_T
        if not ctx.thorough and len(grid) > 100:
            ts = rnd.sample(INT_T, 3) + FP_T if why in ("prime power", "random product") else ts
        for t in ts:
            pairs.append((m, why, t))
    ctx.log("%d magnitudes, %d (magnitude, type) pairs" % (len(grid), len(pairs)))
    ctx.require(len(pairs) >= 1000, "grid shrank to %d pairs" % len(pairs))
    # phase 1: constant extraction (clang)
    chunks = [pairs[i:i + 120] for i in range(0, len(pairs), 120)]

    def readout(arg):
        ci, ch = arg
        ex = extract.Extractor(ctx, prelude=prelude, tag="c11_%d" % ci)
        for j, (m, why, t) in enumerate(ch):
            e = mag_cpp(m)
            ex.add("r_%d_%d" % (ci, j), "bool", "au::representable_in<%s>(%s)" % (t, e), group=j)
            ex.add("o_%d_%d" % (ci, j), "int", "static_cast<int>(au::detail::get_value_result<%s>(%s).outcome)" % (t, e), group=j)
            ex.add("v_%d_%d" % (ci, j), t, "au::detail::get_value_result<%s>(%s).value" % (t, e), group=j)
        return ci, ex.run(batch=400)

    vals = {}
    for ci, v in cxx.pmap(readout, list(enumerate(chunks))):
        vals.update(v)
    items = []
    nob = ndis = 0
    for ci, ch in enumerate(chunks):
        for j, (m, why, t) in enumerate(ch):
            e = mag_cpp(m)
            key = "%s@%s" % (t, e)
            rv, ov, vv = vals["r_%d_%d" % (ci, j)], vals["o_%d_%d" % (ci, j)], vals["v_%d_%d" % (ci, j)]
            if "error" in (rv[0], ov[0], vv[0]):
                ctx.violation(key + "|hard-error", "representable_in / get_value_result<%s>(%s) is a hard error: %s" % (t, e, [x[1] for x in (rv, ov, vv) if x[0] == "error"][0]))
                continue
            rep, want, ulp = model_repr(m, t)
            got_rep = bool(rv[2])
            got_ok = ov[2] == 0
            nob += 1
            if got_rep != got_ok:
                ctx.violation(key + "|inconsistent", "representable_in<%s>(%s) is %s but get_value_result outcome is %s" % (t, e, got_rep, ov[2]))
                continue
            if rep == "either":
                rep = got_rep
            if got_rep != rep:
                v, _ = real_value(m)
                if t == "long double" and rep and 1 / v > fmax_of(t):
                    # one defect, one key: the value is computed as 1 / (reciprocal), and there is no
                    # wider type than long double in which the reciprocal could be held
                    ctx.violation("long double|value below 1/LDBL_MAX|representable",
                                  "representable_in<long double>(%s) is false (and get_value a compile error) although the exact value, about 2^%d, is a positive long double (%s): "
                                  "negative powers are computed as 1 / (positive power) and the positive power exceeds LDBL_MAX"
                                  % (e, v.numerator.bit_length() - v.denominator.bit_length(), why))
                    continue
                ctx.violation(key + "|representable", "representable_in<%s>(%s) is %s; the exact value %s %s representable in %s (%s)"
                              % (t, e, got_rep, ("~%.6e" % float(v)) if v < Fraction(10) ** 300 and v > Fraction(1, 10 ** 300) else "(2^%d-ish)" % (v.numerator.bit_length() - v.denominator.bit_length()), "IS" if rep else "is NOT", t, why))
                continue
            if rep:
                if model.is_int(t):
                    gv = vv[2]
                    bits, sg = model.INT_TYPES[t]
                    gv = gv & ((1 << bits) - 1)
                    if sg and gv >= 1 << (bits - 1):
                        gv -= 1 << bits
                    if gv != want:
                        ctx.violation(key + "|value", "get_value<%s>(%s) is %d, exact value %d" % (t, e, gv, want))
                        continue
                    items.append(witness.Item("val:" + key, "static_assert(au::get_value<%s>(%s) == %s, \"get_value\");\nstatic_assert(au::representable_in<%s>(%s), \"representable_in\");" % (t, e, c_lit(want, t), t, e),
                                              "accept", None, dict(desc="get_value<%s>(%s) == %d" % (t, e, want))))
                else:
                    gv = vv[2]
                    if not isinstance(gv, Fraction) or gv <= 0:
                        ctx.violation(key + "|value", "get_value<%s>(%s) is %s: must be a strictly positive finite value near %s (%s)" % (t, e, gv, float(want) if want < Fraction(10) ** 300 else "huge", why))
                        continue
                    v, _ = real_value(m)
                    # float / double are rounded once from an 11-bit wider intermediate; long double has no
                    # wider type: every multiplication of the power computation may add an ulp
                    tol = 4 if t != "long double" else max(4, 2 * sum(abs(x.numerator) + x.denominator for x in m.values()))
                    if abs(gv - v) > tol * ulp:
                        ctx.violation(key + "|value", "get_value<%s>(%s) is off by %.2f ulp (got %r, exact ~%r)" % (t, e, float(abs(gv - v) / ulp), float(gv), float(v)))
                        continue
                    items.append(witness.Item("val:" + key, "static_assert(au::get_value<%s>(%s) == %s, \"both compilers evaluate get_value alike\");" % (t, e, c_lit(gv, t)),
                                              "accept", None, dict(desc="get_value<%s>(%s) agrees between compilers" % (t, e))))
            else:
                items.append(witness.Item("rej:" + key, "void w() { (void)au::get_value<%s>(%s); }\nstatic_assert(!au::representable_in<%s>(%s), \"\");" % (t, e, t, e),
                                          "reject", None, dict(desc="get_value<%s>(%s) must be a compile error (%s)" % (t, e, why))))
            ndis += 1
    # classification
    for (m, why) in grid:
        e = mag_cpp(m)
        num, den, ip = num_den_intpart(m)
        lines = ["constexpr auto m = %s;" % e,
                 "static_assert(au::is_integer(m) == %s, \"is_integer\");" % ("true" if model.mag_is_integer(m) else "false"),
                 "static_assert(au::is_rational(m) == %s, \"is_rational\");" % ("true" if model.mag_is_rational(m) else "false"),
                 "constexpr std::int64_t en[] = %s; constexpr std::int64_t ed[] = %s; constexpr std::int64_t ei[] = %s; constexpr std::int64_t em[] = %s;" % (flat(num, False), flat(den, False), flat(ip, False), flat(m, False)),
                 "static_assert(auv::same(auv::dump(au::numerator(m)), en), \"numerator\");",
                 "static_assert(auv::same(auv::dump(au::denominator(m)), ed), \"denominator\");",
                 "static_assert(auv::same(auv::dump(au::integer_part(m)), ei), \"integer_part\");",
                 "static_assert(auv::same(auv::dump(m), em), \"canonical exponents\");",
                 "static_assert(m == au::numerator(m) / au::denominator(m) && !(m != m), \"equality\");",
                 "static_assert((m == au::mag<1>()) == %s && (m * au::mag<2>() != m), \"equality with one\");" % ("true" if not m else "false")]
        items.append(witness.Item("class:" + e, "\n".join(lines), "accept", None, dict(desc="classification of %s" % e)))
    results, stats = witness.judge(ctx, items, configs, prelude=prelude, batch=100, tag="c11")
    nbad = witness.report_mismatches(ctx, items, results, prelude=prelude)
    ctx.coverage.update(dict(
        evaluations=len(pairs) + len(items) * len(configs), distinct_nontrivial=len(pairs),
        rule="checked_int_pow<uintmax_t> and <intmax_t> (the two integral types get_value evaluates in): for every base >= 1 and every exponent no product of the square-and-multiply loop wraps / overflows and no quotient divides by zero, by an inferred inductive invariant over the loop-carried values; (magnitude, type) pairs: magnitudes prod p^(a/b) * pi^c over primes up to 2^64-59 and the bounded exponent set, integers max-1/max/max+1 of every integral type, floating limits (2^emax, smallest normal / denormal, below the denormals, powers of ten around FLT/DBL limits); representable_in, outcome and value extracted from clang's constant evaluator and compared with exact integer / 400-bit real arithmetic; accepted values re-asserted on both compilers, refused ones are compile-fail witnesses; classification items per magnitude",
        samples=[dict(magnitude=mag_cpp(grid[5][0]), why=grid[5][1])], exhaustive=False, checked_int_pow=ipr,
        magnitudes=len(grid), pairs=len(pairs), model_obligations=nob, model_discharged=ndis, w_items=len(items), w_mismatches=nbad,
        configs=[c.name for c in configs], engine_stats=stats))
    ctx.assumptions += ["'within T's range' for floating T is read with the statement's own 'strictly positive' clause: a value that rounds to zero is not representable",
                        "a few ulps = 4 ulp of the destination type (denormal ulp below the smallest normal)"]


def main(argv=None):
    return common.run_check(PROP, "exploration", body, argv)


if __name__ == "__main__":
    sys.exit(main())
