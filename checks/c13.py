"""C13 - Quantity / QuantityPoint are zero-overhead transparent wrappers (S + W + I).

S  shape rule on the two class templates (holds for every U, R at once): one data member, no base,
   no virtual, no user-provided copy/move/destructor, no specialisations.
W  layout traits + default construction for library + generated units x 11 reps; result types of
   same-unit operators; every operator accepted by both compilers (narrowing treated alike).
I  unit(x).in(unit) is the identity dataflow; each same-unit operator's DAG equals the DAG of the
   raw operator compiled next to it.
"""
import random
import sys

from vlib import common, cxx, witness, atoms, model, srclint, ir, dag
from vlib.common import AnalysisBroken

PROP = "C13"
REPS11 = ["int8_t", "uint8_t", "int16_t", "uint16_t", "int32_t", "uint32_t", "int64_t", "uint64_t",
          "float", "double", "long double"]
USING = "".join("using std::%s; " % t for t in REPS11[:8]) + "\n"

BIN_OPS = [("add", "+"), ("sub", "-"), ("mod", "%")]
CMP_OPS = [("eq", "=="), ("ne", "!="), ("lt", "<"), ("le", "<="), ("gt", ">"), ("ge", ">=")]
UNARY = [("uplus", "+"), ("uminus", "-")]
COMPOUND_Q = [("pluseq", "+="), ("minuseq", "-=")]
COMPOUND_S = [("muleq", "*="), ("diveq", "/=")]
SCALAR = [("q_mul_s", "q * s"), ("s_mul_q", "s * q"), ("q_div_s", "q / s")]


def shape_rule(ctx, units):
    hs = srclint.all_headers_tu(ctx)
    tu = "".join('#include "%s"\n' % h for h in hs if not h.startswith("au/fwd_test"))
    ms = []
    for cls in ("Quantity", "QuantityPoint"):
        X = '"::au::%s"' % cls
        prim = 'cxxRecordDecl(hasName(%s), unless(classTemplateSpecializationDecl()), isDefinition())' % X
        ms += [
            (cls + ":fields", "fieldDecl(hasParent(%s))" % prim),
            (cls + ":bases", "cxxRecordDecl(hasName(%s), unless(classTemplateSpecializationDecl()), isDefinition(), hasAnyBase(cxxBaseSpecifier()))" % X),
            (cls + ":virtual", "cxxMethodDecl(ofClass(%s), isVirtual())" % prim),
            (cls + ":copymove_ctor", "cxxConstructorDecl(ofClass(%s), anyOf(isCopyConstructor(), isMoveConstructor()), isUserProvided())" % prim),
            (cls + ":copymove_assign", "cxxMethodDecl(ofClass(%s), anyOf(isCopyAssignmentOperator(), isMoveAssignmentOperator()), isUserProvided())" % prim),
            (cls + ":dtor", "cxxDestructorDecl(ofClass(%s), isUserProvided())" % prim),
            (cls + ":partial_spec", "classTemplatePartialSpecializationDecl(hasName(%s))" % X),
            (cls + ":explicit_spec", "classTemplateSpecializationDecl(hasName(%s), isExplicitTemplateSpecialization())" % X),
            (cls + ":ctl_userctor", "cxxConstructorDecl(ofClass(%s), isUserProvided())" % prim),
            (cls + ":ctl_primary", prim),
        ]
    ms.append(("ctl_bases", 'cxxRecordDecl(hasName("::au::ScaledUnit"), isDefinition(), hasAnyBase(cxxBaseSpecifier()))'))
    res = srclint.clang_query(ctx, tu, ms, tag="c13shape")
    # positive controls
    ctx.require(res["ctl_bases"][0] >= 1, "shape rule: control matcher for base classes matched nothing")
    inst = 0
    for cls in ("Quantity", "QuantityPoint"):
        ctx.require(res[cls + ":ctl_primary"][0] == 1, "shape rule: primary template au::%s not found exactly once (%d)" % (cls, res[cls + ":ctl_primary"][0]))
        ctx.require(res[cls + ":ctl_userctor"][0] >= 1, "shape rule: control matcher isUserProvided() matched nothing on au::%s" % cls)
        n, locs = res[cls + ":fields"]
        inst += 1
        if n != 1:
            ctx.violation("shape:%s:fields" % cls, "au::%s has %d non-static data members (must be exactly one: the rep)" % (cls, n),
                          "\n".join("%s:%d" % l for l in locs))
        for rule, msg in (("bases", "has a base class"), ("virtual", "has a virtual member function"),
                          ("copymove_ctor", "has a user-provided copy/move constructor"),
                          ("copymove_assign", "has a user-provided copy/move assignment"),
                          ("dtor", "has a user-provided destructor"),
                          ("partial_spec", "has a partial specialisation"),
                          ("explicit_spec", "has an explicit specialisation")):
            n, locs = res["%s:%s" % (cls, rule)]
            inst += 1
            if n != 0:
                ctx.violation("shape:%s:%s" % (cls, rule), "au::%s %s - size/alignment/triviality no longer follow for every U, R" % (cls, msg),
                              "\n".join("%s:%d" % l for l in locs))
    return dict(rule_instances=inst, headers_in_tu=len(hs),
                member=["%s:%d" % l for l in res["Quantity:fields"][1] + res["QuantityPoint:fields"][1]])


def gen_units(units, rnd, n):
    out = ["au::%s{}" % u.name for u in units]
    names = [u.name for u in units]
    for _ in range(n):
        k = rnd.randrange(6)
        a, b = rnd.choice(names), rnd.choice(names)
        if k == 0:
            out.append("(au::%s{} * au::%s{})" % (a, b))
        elif k == 1:
            out.append("(au::%s{} / au::%s{})" % (a, b))
        elif k == 2:
            out.append("au::pow<%d>(au::%s{})" % (rnd.choice([2, 3, -1, -2]), a))
        elif k == 3:
            out.append("au::root<%d>(au::%s{})" % (rnd.choice([2, 3]), a))
        elif k == 4:
            out.append("(au::%s{} * au::mag<%d>() / au::mag<%d>())" % (a, rnd.randrange(1, 1000), rnd.randrange(1, 1000)))
        else:
            out.append("au::%s<au::%s>{}" % (rnd.choice(atoms.PREFIXES_SI + atoms.PREFIXES_BIN), a))
    seen = set()
    out = [x for x in out if not (x in seen or seen.add(x))]
    return out


def layout_items(uexprs):
    items = []
    for i, ue in enumerate(uexprs):
        lines = ["using U = decltype(%s);" % ue,
                 # default-INITIALISATION (`T x;`, a member of a default-initialised aggregate, an array
                 # element) is not value-initialisation (`T{}`): read inside a constant expression, it is
                 # only accepted if the default constructor really initialises the value
                 "template <class T> constexpr auto dflt_local() { T x; return x.in(U{}); }",
                 "template <class T> struct Holder { T member; int other = 1; };",
                 "template <class T> constexpr auto dflt_member() { Holder<T> h; return h.member.in(U{}); }",
                 "template <class T> constexpr auto dflt_array() { T a[2]; return a[1].in(U{}); }"]
        for j, r in enumerate(REPS11):
            lines.append("using R%d = %s; using Q%d = au::Quantity<U, R%d>; using P%d = au::QuantityPoint<U, R%d>;" % (j, r, j, j, j, j))
            for X in ("Q", "P"):
                lines.append(
                    "static_assert(sizeof({X}{j}) == sizeof({r}) && alignof({X}{j}) == alignof({r}), \"size/alignment of {X}<U,{r}>\");\n"
                    "static_assert(std::is_trivially_copyable<{X}{j}>::value && std::is_trivially_destructible<{X}{j}>::value && std::is_standard_layout<{X}{j}>::value, \"triviality/layout of {X}<U,{r}>\");\n"
                    "static_assert({X}{j}{{}}.in(U{{}}) == R{j}{{}}, \"default construction of {X}<U,{r}> yields {r}{{}}\");\n"
                    "static_assert({X}{j}().in(U{{}}) == R{j}{{}}, \"value-initialisation {X}<U,{r}>() yields {r}{{}}\");\n"
                    "static_assert(dflt_local<{X}{j}>() == R{j}{{}} && dflt_member<{X}{j}>() == R{j}{{}} && dflt_array<{X}{j}>() == R{j}{{}}, \"default-INITIALISED {X}<U,{r}> (local, member, array element) holds {r}{{}}\");"
                    .format(X=X, j=j, r=r))
        # the round trip performs NO arithmetic on the value: clang's constant evaluator refuses any
        # operation that produces a NaN, so a NaN handed through `.in(unit)` inside a constant
        # expression is accepted exactly when the value is only copied (x * 1 would quiet a
        # signalling NaN in an unoptimised build, x + 0 loses the sign of zero)
        for j, r in enumerate(REPS11):
            if r in ("float", "double", "long double"):
                lines.append("constexpr R{j} nan{j} = std::numeric_limits<R{j}>::quiet_NaN(); constexpr R{j} ninf{j} = -std::numeric_limits<R{j}>::infinity();\n"
                             "constexpr R{j} qn{j} = au::make_quantity<U>(nan{j}).in(U{{}}); constexpr R{j} pn{j} = au::make_quantity_point<U>(nan{j}).in(U{{}});\n"
                             "static_assert(qn{j} != qn{j} && pn{j} != pn{j}, \"a NaN round-trips through Quantity / QuantityPoint {r} in a constant expression\");\n"
                             "static_assert(au::make_quantity<U>(ninf{j}).in(U{{}}) == ninf{j} && au::make_quantity_point<U>(ninf{j}).in(U{{}}) == ninf{j}, \"-inf round-trips\");".format(j=j, r=r))
        items.append(witness.Item("layout:%s" % ue, "\n".join(lines), "accept", None,
                                  dict(desc="layout facts of Quantity / QuantityPoint of %s for 11 reps" % ue)))
    return items


def op_items():
    """One W item per (rep, operator): must compile everywhere and have the raw operator's type."""
    items = []
    head = "struct U : decltype(au::UnitImpl<au::Length>{} * au::mag<3>()) {};\n"
    for r in REPS11:
        isint = model.is_int(r)
        pre = head + "using R = %s;\nconstexpr auto mq(R x) { return au::make_quantity<U>(x); }\n" % r
        for nm, op in BIN_OPS:
            if nm == "mod" and not isint:
                continue
            code = pre + ("void w() { R a{5}, b{3}; auto r = mq(a) %s mq(b);\n"
                          "static_assert(std::is_same<decltype(r), au::Quantity<U, decltype(a %s b)>>::value, \"result type of q %s q\"); (void)r; }" % (op, op, op))
            items.append(witness.Item("op:%s/%s" % (nm, r), code, "accept", None, dict(desc="same-unit `q %s q` for rep %s" % (op, r))))
        for nm, op in UNARY:
            code = pre + ("void w() { R a{5}; auto r = %smq(a);\n"
                          "static_assert(std::is_same<decltype(r), au::Quantity<U, decltype(%sa)>>::value, \"result type of %sq\"); (void)r; }" % (op, op, op))
            items.append(witness.Item("op:%s/%s" % (nm, r), code, "accept", None, dict(desc="unary `%sq` for rep %s" % (op, r))))
        for nm, op in COMPOUND_Q:
            code = pre + "void w() { R a{5}, b{3}; auto q = mq(a); q %s mq(b);\nstatic_assert(std::is_same<decltype(q %s mq(b)), au::Quantity<U, R> &>::value, \"\"); }" % (op, op)
            items.append(witness.Item("op:%s/%s" % (nm, r), code, "accept", None, dict(desc="`q %s q` for rep %s" % (op, r))))
        for nm, op in COMPOUND_S:
            code = pre + "void w() { R a{5}, s{3}; auto q = mq(a); q %s s; }" % op
            items.append(witness.Item("op:%s/%s" % (nm, r), code, "accept", None, dict(desc="`q %s s` for rep %s" % (op, r))))
        for nm, ex in SCALAR:
            raw = ex.replace("q", "a")
            code = pre + ("void w() { R a{5}, s{3}; auto q = mq(a); auto r = %s;\n"
                          "static_assert(std::is_same<decltype(r), au::Quantity<U, decltype(%s)>>::value, \"result type of %s\"); (void)r; }" % (ex, raw, ex))
            items.append(witness.Item("op:%s/%s" % (nm, r), code, "accept", None, dict(desc="`%s` for rep %s" % (ex, r))))
        for nm, op in CMP_OPS:
            code = pre + "void w() { R a{5}, b{3}; static_assert(std::is_same<decltype(mq(a) %s mq(b)), bool>::value, \"\"); (void)a; (void)b; }" % op
            items.append(witness.Item("op:%s/%s" % (nm, r), code, "accept", None, dict(desc="`q %s q` for rep %s" % (op, r))))
    return items


def ctype(t):
    return t


REPS_I = REPS11[:10]  # long double values travel through memory (x87 padding): W-level only


def op_wrappers(skip):
    """IR wrappers: Au operator next to the raw reference.  skip: set of 'nm/rep' clang rejects."""
    lines = []
    pairs = []  # (name, au fn, ref fn)
    k = 0
    for r in REPS_I:
        isint = model.is_int(r)
        rt = "decltype(R%d{} + R%d{})" % (k, k)
        pre = "using R{k} = {r}; struct U{k} : decltype(au::UnitImpl<au::Length>{{}} * au::mag<3>()) {{}};\nstatic constexpr auto mq{k}(R{k} x) {{ return au::make_quantity<U{k}>(x); }}".format(k=k, r=r)
        lines.append(pre)
        R, U, mq = "R%d" % k, "U%d" % k, "mq%d" % k

        def emit(nm, ret, params, au_body, ref_body):
            if "%s/%s" % (nm, r) in skip:
                return
            an, rn = "au_%s_%d" % (nm.replace(":", "__"), k), "ref_%s_%d" % (nm.replace(":", "__"), k)
            lines.append('extern "C" %s %s(%s) { %s }' % (ret, an, params, au_body))
            lines.append('extern "C" %s %s(%s) { %s }' % (ret, rn, params, ref_body))
            pairs.append(("%s/%s" % (nm, r), an, rn))

        for nm, op in BIN_OPS:
            if nm == "mod" and not isint:
                continue
            emit(nm, "decltype(%s{} %s %s{1})" % (R, op, R), "%s a, %s b" % (R, R),
                 "return (%s(a) %s %s(b)).in(%s{});" % (mq, op, mq, U), "return a %s b;" % op)
        for nm, op in UNARY:
            emit(nm, "decltype(%s%s{})" % (op, R), "%s a" % R, "return (%s%s(a)).in(%s{});" % (op, mq, U), "return %sa;" % op)
        for nm, op in COMPOUND_Q:
            emit(nm, R, "%s a, %s b" % (R, R), "auto q = %s(a); q %s %s(b); return q.in(%s{});" % (mq, op, mq, U),
                 "%s x = a; x %s b; return x;" % (R, op))
        for nm, op in COMPOUND_S:
            emit(nm, R, "%s a, %s s" % (R, R), "auto q = %s(a); q %s s; return q.in(%s{});" % (mq, op, U),
                 "%s x = a; x %s s; return x;" % (R, op))
        for nm, ex in SCALAR:
            raw = ex.replace("q", "a")
            emit(nm, "decltype(%s{} * %s{})" % (R, R), "%s a, %s s" % (R, R),
                 "auto q = %s(a); return (%s).in(%s{});" % (mq, ex, U), "return %s;" % raw)
        for nm, op in CMP_OPS:
            emit(nm, "bool", "%s a, %s b" % (R, R), "return %s(a) %s %s(b);" % (mq, op, mq), "return a %s b;" % op)
        # scalars of ANOTHER type than the rep: the raw operator brings both operands to their
        # common type, computes there and (for op=) narrows the result - never the scalar first
        others = [t for t in (("int", "unsigned", "int64_t", "uint64_t", "uint8_t", "int16_t") if isint else ("double", "float", "int", "int64_t")) if model.canon(t) != model.canon(r)]
        for S in others:
            tag = S.replace(" ", "_")
            if isint == model.is_int(S) or not isint:
                for nm, op in COMPOUND_S:
                    emit("%s:%s" % (nm, tag), R, "%s a, %s s" % (R, S), "auto q = %s(a); q %s s; return q.in(%s{});" % (mq, op, U),
                         "%s x = a; x %s s; return x;" % (R, op))
            for nm, ex in SCALAR:
                raw = ex.replace("q", "a")
                emit("%s:%s" % (nm, tag), "decltype(%s{} * %s{})" % (R, S), "%s a, %s s" % (R, S),
                     "auto q = %s(a); return (%s).in(%s{});" % (mq, ex, U), "return %s;" % raw)
        k += 1
    return "\n".join(lines) + "\n", pairs


def roundtrip_wrappers(units, uexprs):
    lines = []
    names = []
    k = 0
    for ue in uexprs:
        for r in REPS_I:
            lines.append("using RU%d = decltype(%s);" % (k, ue))
            forms = [
                ("in", "return au::make_quantity<RU%d>(x).in(RU%d{});" % (k, k)),
                ("coerce_in", "return au::make_quantity<RU%d>(x).coerce_in(RU%d{});" % (k, k)),
                ("as_in", "return au::make_quantity<RU%d>(x).as(RU%d{}).in(RU%d{});" % (k, k, k)),
                ("data_in", "auto q = au::make_quantity<RU%d>(x); return q.data_in(RU%d{});" % (k, k)),
                ("pt_in", "return au::make_quantity_point<RU%d>(x).in(RU%d{});" % (k, k)),
                ("pt_data_in", "auto p = au::make_quantity_point<RU%d>(x); return p.data_in(RU%d{});" % (k, k)),
                ("rep_cast", "return au::rep_cast<%s>(au::make_quantity<RU%d>(x)).in(RU%d{});" % (r, k, k)),
            ]
            for nm, bodytxt in forms:
                fn = "rt_%s_%d" % (nm, k)
                lines.append('extern "C" %s %s(%s x) { %s }' % (r, fn, r, bodytxt))
                names.append(("%s/%s/%s" % (nm, r, ue), fn))
            k += 1
    # maker spelling for library units
    for u in units:
        if not u.maker:
            continue
        for r in ("int32_t", "double", "uint8_t", "float"):
            fn = "rt_maker_%d" % k
            lines.append('extern "C" %s %s(%s x) { return au::%s(x).in(au::%s); }' % (r, fn, r, u.maker, u.maker))
            names.append(("maker/%s/%s" % (r, u.maker), fn))
            k += 1
    return "\n".join(lines) + "\n", names


def body(ctx):
    rnd = random.Random(ctx.seed)
    units = atoms.discover_units(ctx)
    hdrs = atoms.unit_includes(units)
    prelude = witness.DEFAULT_PRELUDE + USING + hdrs
    configs = cxx.configs_for(ctx.tier)

    # ---- S
    shape = shape_rule(ctx, units)
    ctx.log("shape rule: %d instances" % shape["rule_instances"])

    # ---- W layout + operator acceptance / types
    uexprs = gen_units(units, rnd, 200 if ctx.thorough else 25)
    items = layout_items(uexprs) + op_items()
    results, stats = witness.judge(ctx, items, configs, prelude=prelude, batch=40, tag="c13")
    nbad = witness.report_mismatches(ctx, items, results, prelude=prelude)
    ctx.log("W: %d items judged, %d mismatching" % (len(items), nbad))

    # ---- I operators
    skip = set()
    for it in items:
        if it.key.startswith("op:"):
            v = results[it.key].get("clang++/c++14")
            if v is not None and v.rejected:
                skip.add(it.key[3:])
    text, pairs = op_wrappers(skip)
    src = "#include <cstdint>\n#include \"au/au.hh\"\n" + USING + text
    path, se = ir.build_ir(ctx, src, "c13ops")
    ctx.require(path is not None, "operator wrapper TU does not compile: %s" % (se or "")[-600:])
    mod = ir.parse_module(path, only=lambda n: n.startswith(("au_", "ref_")))
    nob = ndis = 0
    sample_dag = None
    for key, an, rn in pairs:
        nob += 1
        da, dr = dag.build(mod.funcs[an], mod), dag.build(mod.funcs[rn], mod)
        if da.ret == dr.ret:
            ndis += 1
            if sample_dag is None and "mod" in key:
                sample_dag = dict(op=key, dag=da.ret.pretty())
        else:
            ctx.violation("opdag:" + key,
                          "same-unit operator %s does not compute what the raw operator computes" % key,
                          "Au:  %s\nraw: %s" % (da.ret.pretty(), dr.ret.pretty()),
                          artefact="operator %s\nAu  DAG: %s\nraw DAG: %s\n" % (key, da.ret.pretty(), dr.ret.pretty()))
    ctx.require(nob >= 150, "only %d operator wrappers analysed (floor 150)" % nob)

    # ---- I round trip
    rt_units = rnd.sample(uexprs, 50 if ctx.thorough else 8)
    text, names = roundtrip_wrappers(units if ctx.thorough else rnd.sample(units, 12), rt_units)
    src = "#include <cstdint>\n#include \"au/au.hh\"\n" + USING + hdrs + text
    path, se = ir.build_ir(ctx, src, "c13rt")
    ctx.require(path is not None, "round-trip wrapper TU does not compile: %s" % (se or "")[-600:])
    mod2 = ir.parse_module(path, only=lambda n: n.startswith("rt_"))
    nrt = 0
    for key, fn in names:
        nob += 1
        nrt += 1
        d = dag.build(mod2.funcs[fn], mod2)
        if d.ret.op == "param" and d.ret.attr == 0:
            ndis += 1
        else:
            ctx.violation("roundtrip:" + key, "unit(x).in(unit) is not the identity dataflow for %s" % key,
                          "returned value: %s (expected: the parameter itself, bit for bit)" % d.ret.pretty())
    ctx.require(nrt >= 300, "only %d round-trip wrappers analysed (floor 300)" % nrt)

    nW = len(items)
    ctx.coverage.update(dict(
        obligations=nob + nW + shape["rule_instances"],
        discharged=ndis + (nW - nbad) + shape["rule_instances"] - sum(1 for v in ctx.violations if v["key"].startswith("shape:")),
        checker_cmd="bin/check C13 --tier %s" % ctx.tier,
        trusted_base=["clang 14 / g++ 12 front ends", "clang-query-14 AST matchers", "clang lowering to LLVM IR; opt-14 sroa/inline/simplifycfg",
                      "vlib/ir.py, vlib/dag.py normalisation rules (commutative order, compare direction, bool round trips)"],
        evaluations=nob + nW, distinct_nontrivial=nob + nW,
        rule="shape rule instances (AST) + one W item per (unit, 11 reps) layout block (size, alignment, triviality; value-initialisation with {} and (), and DEFAULT-initialisation of a local, a member of a default-initialised aggregate and an array element, each read inside a constant expression, all yield R{}) and per (rep, operator) + one IR wrapper pair per (rep, operator) + one identity-dataflow wrapper per (form, rep, unit)",
        samples=[dict(shape_member=shape["member"]), sample_dag or {},
                 dict(layout_item=items[0].key), dict(roundtrip=names[0][0])],
        exhaustive=False,
        shape=shape, w_items=nW, w_mismatches=nbad, operator_pairs=len(pairs), operators_skipped_in_ir=sorted(skip),
        roundtrip_wrappers=nrt, units_layout=len(uexprs), configs=[c.name for c in configs], engine_stats=stats,
    ))
    ctx.assumptions += ["language rules: a class with one member of type R, no base, no virtual and defaulted special members has R's size, alignment and triviality",
                        "DAG equality of normalised IR implies equal results for every input (NaN payloads, signed zeros included)"]


def main(argv=None):
    return common.run_check(PROP, "proof", body, argv)


if __name__ == "__main__":
    sys.exit(main())
