"""Point units for C09 / C10: library temperature units (scale and origin read out of the tree) and
generated units with rational scale and rational origin (known by construction)."""
from fractions import Fraction

from vlib import extract, model, witness
from vlib.common import AnalysisBroken

TEMP_HDRS = '#include "au/units/kelvins.hh"\n#include "au/units/celsius.hh"\n#include "au/units/fahrenheit.hh"\n'
LIB_EXPRS = ["au::Kelvins", "au::Celsius", "au::Fahrenheit", "au::Milli<au::Kelvins>", "au::Centi<au::Celsius>",
             "au::Kilo<au::Kelvins>", "au::Milli<au::Celsius>", "au::Deci<au::Fahrenheit>", "au::Micro<au::Kelvins>"]


class PUnit:
    def __init__(self, name, cpp_type, defs, m, o, o_unit=None, o_val=None, o_rep="int"):
        self.name = name  # key fragment
        self.cpp = cpp_type  # C++ type name usable after `defs`
        self.defs = defs  # C++ definitions needed (may be empty)
        self.m = Fraction(m)  # magnitude relative to the base unit
        self.o = Fraction(o)  # origin in base units
        self.o_unit = o_unit  # Fraction magnitude of the unit the origin is expressed in (None = ZERO)
        self.o_val = o_val
        self.o_rep = o_rep

    def __repr__(self):
        return "PUnit(%s m=%s o=%s)" % (self.name, self.m, self.o)


def mexpr(fr):
    fr = Fraction(fr)
    s = "au::mag<%dULL>()" % fr.numerator
    return s + (" / au::mag<%dULL>()" % fr.denominator if fr.denominator != 1 else "")


def generated(tag, base, m, o_unit, o_val, unsigned_origin=False, int_origin=False):
    """struct deriving from base*m with origin() = o_val * (base * o_unit); the origin's rep is
    long long, or unsigned (o_val >= 0 only) - a user is free to write `kelvins(5u)`."""
    name = "G%s" % tag
    if o_unit is None:
        defs = "struct %s : decltype(%s{} * (%s)) {};" % (name, base, mexpr(m))
        return PUnit(name, name, defs, m, 0)
    assert not (unsigned_origin and o_val < 0)
    defs = ("struct %s : decltype(%s{} * (%s)) { static constexpr auto origin() { return au::make_quantity<decltype(%s{} * (%s))>(%d%s); } };"
            % (name, base, mexpr(m), base, mexpr(o_unit), o_val, "u" if unsigned_origin else "" if int_origin else "LL"))
    pu = PUnit(name, name, defs, m, Fraction(o_unit) * o_val, Fraction(o_unit), o_val, "unsigned" if unsigned_origin else "int" if int_origin else "long long")
    return pu


def read_library(ctx):
    """(m, o) of the library's temperature point units, from the compiler's constant evaluator."""
    pre = witness.DEFAULT_PRELUDE + TEMP_HDRS
    ex = extract.Extractor(ctx, prelude=pre, tag="ptatoms")
    for i, e in enumerate(LIB_EXPRS):
        ex.add("pm_%d" % i, "auv::Flat", "auv::flat(auv::mag_of<%s>())" % e)
        ex.add("ph_%d" % i, "bool", "au::stdx::experimental::is_detected<au::detail::OriginMemberType, %s>::value" % e)
    vals = ex.run()
    out = []
    ex2 = extract.Extractor(ctx, prelude=pre, tag="ptatoms2")
    for i, e in enumerate(LIB_EXPRS):
        for k in ("pm_%d" % i, "ph_%d" % i):
            if vals[k][0] == "error":
                raise AnalysisBroken("read-out of %s failed: %s" % (e, vals[k][1]))
        if vals["ph_%d" % i][2]:
            ex2.add("pv_%d" % i, "long long", "static_cast<long long>(%s::origin().in(decltype(%s::origin())::unit))" % (e, e))
            ex2.add("pu_%d" % i, "auv::Flat", "auv::flat(auv::mag_of<typename decltype(%s::origin())::Unit>())" % e)
            ex2.add("pi_%d" % i, "bool", "std::is_integral<typename decltype(%s::origin())::Rep>::value" % e)
    v2 = ex2.run() if ex2.items else {}
    for i, e in enumerate(LIB_EXPRS):
        m = model.mag_to_fraction(dict(extract.flat_to_pack(vals["pm_%d" % i])))
        if vals["ph_%d" % i][2]:
            for k in ("pv_%d" % i, "pu_%d" % i, "pi_%d" % i):
                if v2[k][0] == "error":
                    raise AnalysisBroken("origin read-out of %s failed: %s" % (e, v2[k][1]))
            if not v2["pi_%d" % i][2]:
                raise AnalysisBroken("origin of %s is not integral: model cannot read it exactly" % e)
            ou = model.mag_to_fraction(dict(extract.flat_to_pack(v2["pu_%d" % i])))
            ov = v2["pv_%d" % i][2]
            if ov >= 1 << 63:
                ov -= 1 << 64
            out.append(PUnit(e.replace("au::", ""), e, "", m, ou * ov, ou, ov))
        else:
            out.append(PUnit(e.replace("au::", ""), e, "", m, 0))
    return out
