"""C12 - factorisation, primality and modular helpers  (I: relational proofs of the modular helpers, typestate rule; W: type-level witnesses)

What is DECIDED here, and what is not (DESIGN.md 3.12):
  proof        add_mod, sub_mod, half_mod_odd: for ALL 64-bit operands that satisfy the documented
               preconditions, no unsigned operation that contributes to the result wraps, the result
               lies in [0, n) and is congruent to a+b / a-b / a*2^-1 (linear relational analysis with
               path partitioning, vlib/linrel.py).  add_mod is proved under the WEAKER precondition
               a <= n, which is what mul_mod's own call relies on (chunk_result may equal n).
               mul_mod: the full inductive argument for ALL operand triples with a < n, b < n - no wrap
               and no division by zero, the recursive call meets the same precondition with a strictly
               smaller first operand, the result lies in [0, n) and result - a*b is a polynomial multiple
               of n (products and quotients as axiomatised terms, see vlib/linrel.py).
               pow_mod (n >= 2): an inferred loop invariant makes every mul_mod call meet its
               precondition and bounds the result (that it is base^exp is NOT decided).
  exploration  the statement's consequence clause, which is about TYPES: decltype(mag<N>()) is the
               canonical factorisation, mag<a>() * mag<b>() is mag<a*b>(), Prime<N> of a composite N
               is refused - as programs that must / must not build, for adversarial and seeded N whose
               factorisation comes from independent exact arithmetic (strong pseudoprimes to base 2
               incl. those with no factor below 541, strong Lucas pseudoprimes, Carmichael numbers,
               prime squares and cubes, semiprimes with factors next to 2^16, 2^31, 2^32, primes next
               to 2^k up to 2^64-59).  This samples N; is_prime / find_prime_factor / mul_mod / pow_mod
               are NOT decided for every 64-bit input (no static argument in reach does that), and no
               value of these functions is asserted directly.
"""
import random
import re
import sys

from vlib import common, cxx, witness, model, ir, dag, linrel
from vlib.common import AnalysisBroken
from vlib.linrel import var, K, entails_le0, entails_eq0

PROP = "C12"
MAX = (1 << 64) - 1

PSP2 = [2047, 3277, 4033, 4681, 8321, 15841, 29341, 42799, 49141, 52633, 65281, 74665, 80581, 85489, 88357, 90751,
        104653, 130561, 196093, 220729, 233017, 252601, 253241, 256999, 271951, 280601, 314821, 357761, 390937, 458989,
        476971, 486737, 3215031751, 2152302898747, 3474749660383, 341550071728321, 3825123056546413051]
LUCAS_PSP = [5459, 5777, 10877, 16109, 18971, 22499, 24569, 25199, 40309, 58519, 75077, 97439, 100127, 113573, 115639, 130139,
             155819, 158399, 161027, 162133, 176399, 176471, 189419, 192509, 197801, 224369, 230691, 231703, 243629, 253259]
CARMICHAEL = [561, 1105, 1729, 2465, 2821, 6601, 8911, 10585, 15841, 29341, 41041, 46657, 52633, 62745, 63973, 75361, 101101,
              115921, 126217, 162401, 172081, 188461, 252601, 9746347772161, 17236801, 232250619601]


WRAP_COINCIDENCE_PRIMES = [10785637507345693793]
WRAP_COINCIDENCE_COMPOSITES = [10685528935143053617, 12673371479969681361, 3705102001104354505, 15405458870843798969, 9425997995154109105,
                               11837406317022473153, 10479697266598077369, 6889858086595868265]


def small_factor(n):
    """{prime: exponent} by trial division + Pollard rho on Python integers (independent of the library)."""
    import math
    out = {}
    for p in (2, 3, 5, 7, 11, 13, 17, 19, 23, 29, 31, 37):
        while n % p == 0:
            out[p] = out.get(p, 0) + 1
            n //= p

    def rho(m):
        if m % 2 == 0:
            return 2
        c = 1
        while True:
            x = y = 2
            d = 1
            while d == 1:
                x = (x * x + c) % m
                y = (y * y + c) % m
                y = (y * y + c) % m
                d = math.gcd(abs(x - y), m)
            if d != m:
                return d
            c += 1

    def rec(m):
        if m == 1:
            return
        if model.is_prime(m):
            out[m] = out.get(m, 0) + 1
            return
        d = rho(m)
        rec(d)
        rec(m // d)
    rec(n)
    return out


def next_prime(n):
    while not model.is_prime(n):
        n += 1
    return n


def prev_prime(n):
    while not model.is_prime(n):
        n -= 1
    return n


def mag_type(f):
    parts = []
    for p in sorted(f):
        b = "au::Prime<%dULL>" % p
        parts.append(b if f[p] == 1 else "au::Pow<%s, %d>" % (b, f[p]))
    return "au::Magnitude<%s>" % ", ".join(parts)


def relational(ctx):
    src = ('#include <cstdint>\n#include "au/utility/mod.hh"\n'
           'extern "C" uint64_t am(uint64_t a, uint64_t b, uint64_t n) { return au::detail::add_mod(a, b, n); }\n'
           'extern "C" uint64_t sm(uint64_t a, uint64_t b, uint64_t n) { return au::detail::sub_mod(a, b, n); }\n'
           'extern "C" uint64_t hm(uint64_t a, uint64_t n) { return au::detail::half_mod_odd(a, n); }\n')
    ll, err = ir.build_ir(ctx, src, "c12mod")
    if not ll:
        raise AnalysisBroken("modular helper wrappers do not compile: %s" % err[-400:])
    mod = ir.parse_module(ll, only=lambda n: n in ("am", "sm", "hm"))

    def rng(v):
        return [-var(v), var(v) - K(MAX)]
    a, b, n = var("p0"), var("p1"), var("p2")
    nob = ndis = npaths = 0
    out = []

    def report(fn, res_fail):
        for what, detail in res_fail:
            ctx.violation("mod:%s|%s" % (fn, what), "%s: %s %s (for some operands that satisfy the documented preconditions)" % (fn, what, detail))

    try:
        # add_mod under a <= n (weaker than documented; mul_mod's internal call needs it), b < n
        pre = rng("p0") + rng("p1") + rng("p2") + [a - n, b - n + K(1)]
        d = dag.build(mod.funcs["am"], mod)
        r1 = linrel.analyse(d.ret, pre, lambda w, C, r: [("result is not below the modulus", entails_le0(C, r - n + K(1))),
                                                          ("result is negative", entails_le0(C, -r)),
                                                          ("result is neither a+b nor a+b-n", r == a + b or r == a + b - n)])
        report("add_mod", r1["failures"])
        incomplete = [("add_mod", r1["incomplete"])] if r1["incomplete"] else []
        pre = rng("p0") + rng("p1") + rng("p2") + [a - n + K(1), b - n + K(1)]
        d = dag.build(mod.funcs["sm"], mod)
        r2 = linrel.analyse(d.ret, pre, lambda w, C, r: [("result is not below the modulus", entails_le0(C, r - n + K(1))),
                                                          ("result is negative", entails_le0(C, -r)),
                                                          ("result is neither a-b nor a-b+n", r == a - b or r == a - b + n)])
        report("sub_mod", r2["failures"])
        if r2["incomplete"]:
            incomplete.append(("sub_mod", r2["incomplete"]))
        # half_mod_odd(a, n): a < n, n odd
        n2 = var("p1")
        pre = rng("p0") + rng("p1") + [a - n2 + K(1)]
        w = linrel.Walker(pre)
        C, h, l = w.halves(n2, list(pre))
        C = C + [l - K(1), K(1) - l]
        d = dag.build(mod.funcs["hm"], mod)
        fails = []
        paths = 0
        for C1, r in w.value(d.ret, C):
            paths += 1
            w.obligations += 2
            if not (entails_eq0(C1, r.scale(2) - a) or entails_eq0(C1, r.scale(2) - a - n2)):
                fails.append(("twice the result is neither a nor a+n", "on the path with result %r" % r))
            if not (entails_le0(C1, r - n2 + K(1)) and entails_le0(C1, -r)):
                fails.append(("result is outside [0, n)", "on the path with result %r" % r))
        for what, node, _ in w.failures:
            fails.append((what, "at %s" % node.pretty()[:160]))
        report("half_mod_odd", fails)
        nob = r1["obligations"] + r2["obligations"] + w.obligations
        ndis = nob - len(r1["failures"]) - len(r2["failures"]) - len(fails)
        npaths = r1["paths"] + r2["paths"] + paths
        if incomplete and not (r1["failures"] or r2["failures"] or fails):
            raise AnalysisBroken("modular helper %s is outside the linear fragment (%s) and nothing could be decided about it" % incomplete[0])
        if not incomplete:
            ctx.require(r1["paths"] == 2 and r2["paths"] == 2 and paths == 2, "unexpected path counts %s" % [r1["paths"], r2["paths"], paths])
    except linrel.Failure as e:
        raise AnalysisBroken("modular helpers are outside the linear fragment: %s" % e)
    o2, d2, p2 = relational_mul_pow(ctx, report)
    return nob + o2, ndis + d2, npaths + p2


MUL_MOD = "_ZN2au6detail7mul_modEmmm"


def _loc(mod, node):
    ch = mod.loc_chain(node.dbg) if getattr(node, "dbg", None) else []
    return ", inlined at ".join("%s:%s" % (f.split("/au/code/")[-1], l) for f, l in ch) or "?"


def relational_mul_pow(ctx, report):
    """mul_mod: the full inductive argument (all operand triples with a < n, b < n).
         no wrap      every unsigned operation that contributes to the result stays in [0, 2^64), no
                      division by zero
         recursion    the recursive call's operands satisfy the same precondition, with the same
                      modulus and a strictly smaller first operand (so the recursion ends)
         range        the result lies in [0, n), given that of the recursive call (induction hypothesis)
         congruence   result - a*b is a polynomial multiple of n once the recursive result is
                      replaced by the product of its operands (hypothesis) and every quotient q = x div y
                      by its definition (remainder = x - q*y)
       pow_mod (n >= 2): an invariant over the loop's phi values is INFERRED (candidates v < n for each
       phi, those not established on entry or not preserved by an arbitrary iteration are dropped until
       the set is inductive) and must make every mul_mod call inside the loop meet its precondition
       and put the returned value in [0, n).  (That the value is base^exp is not decided.)"""
    from vlib import loops
    src = ('#include <cstdint>\n#include "au/utility/mod.hh"\n'
           'extern "C" uint64_t mm(uint64_t a, uint64_t b, uint64_t n) { return au::detail::mul_mod(a, b, n); }\n'
           'extern "C" uint64_t pm(uint64_t a, uint64_t b, uint64_t n) { return au::detail::pow_mod(a, b, n); }\n')
    ll, err = ir.build_ir(ctx, src, "c12mul")
    if not ll:
        raise AnalysisBroken("mul_mod / pow_mod wrappers do not compile: %s" % err[-400:])
    mod = ir.parse_module(ll, only=lambda n: n in ("mm", "pm", MUL_MOD))
    if MUL_MOD not in mod.funcs or not getattr(mod.funcs[MUL_MOD], "blocks", None):
        raise AnalysisBroken("mul_mod is not a function of its own in the IR (recursion expected to stay a call)")
    a, b, n = var("p0"), var("p1"), var("p2")

    def rng(v):
        return [-var(v), var(v) - K(MAX)]

    def summary(own_first, calls):
        def f(w, C, args, node):
            x, y, m = args
            w.need(C, x - m + K(1), "call of mul_mod: first operand not below the modulus", node)
            w.need(C, y - m + K(1), "call of mul_mod: second operand not below the modulus", node)
            if own_first is not None:
                w.need(C, x - own_first + K(1), "recursive call of mul_mod: first operand does not decrease (termination)", node)
                w.obligations += 1
                if m != n:
                    w.failures.append(("recursive call of mul_mod with another modulus", node, list(C)))
            r = w.result_of(node.attr, args)
            calls[list(r.co)[0]] = args
            return C + [-r, r - m + K(1)], r
        return f

    nob = ndis = npaths = 0
    try:
        # ---- mul_mod
        pre = rng("p0") + rng("p1") + rng("p2") + [a - n + K(1), b - n + K(1)]
        d = dag.build(mod.funcs[MUL_MOD], mod)
        w = linrel.Walker(pre)
        calls = {}
        w.summaries[MUL_MOD] = summary(a, calls)
        fails = []
        paths = 0
        for C, r in w.value(d.ret, list(pre)):
            paths += 1
            w.obligations += 3
            if not (entails_le0(C, r - n + K(1)) and entails_le0(C, -r)):
                fails.append(("result is outside [0, n)", "on the path with result %r" % r))
            subst = {rv: linrel.expand(w, x) * linrel.expand(w, y) for rv, (x, y, m) in calls.items()}
            p = linrel.expand(w, r, subst) - linrel.Poly.atom("p0") * linrel.Poly.atom("p1")
            rest = p.without_multiples_of("p2")
            if not p.integral() or rest.t:
                fails.append(("result is not congruent to a*b modulo n", "on the path with result %r: result - a*b = %r, of which %r is not a multiple of n" % (r, p, rest)))
        for what, node, _ in w.failures:
            fails.append((what, "at %s (%s)" % (node.pretty()[:120], _loc(mod, node))))
        report("mul_mod", sorted(set(fails)))
        ctx.require(paths >= 3 and w.ncalls >= 1, "mul_mod: %d paths, %d recursive call sites analysed (expected the fast path and the chunked path)" % (paths, w.ncalls))
        nob += w.obligations
        ndis += w.obligations - len(set(fails))
        npaths += paths
        # ---- pow_mod
        f = mod.funcs["pm"]
        pre = rng("p0") + rng("p1") + rng("p2") + [K(1) - n]  # every modulus n >= 1
        r = loops.check_loop(f, mod, pre, [("< n", lambda v: v - n + K(1))], summaries={MUL_MOD: summary(None, {})},
                             result_goal=lambda C, res: entails_le0(C, res - n + K(1)) and entails_le0(C, -res))
        fails = [(what, "at %s (%s)" % (node.pretty()[:120], _loc(mod, node))) for what, node in r["failures"]]
        if r["after_ok"] is False:
            fails.append(("result is outside [0, n)", "after the loop, under the inferred invariant {%s}" % ", ".join("%%%s %s" % x for x in r["invariant"])))
        report("pow_mod", sorted(set(fails)))
        ctx.require(r["phis"] == 3, "pow_mod: %d loop-carried values (expected exponent, base, result)" % r["phis"])
        ctx.log("pow_mod: inferred loop invariant {%s} over %d loop-carried values" % (", ".join("%%%s %s" % x for x in r["invariant"]), r["phis"]))
        nob += r["obligations"]
        ndis += r["obligations"] - len(set(fails))
        npaths += r["paths"]
    except linrel.Failure as e:
        raise AnalysisBroken("mul_mod / pow_mod are outside the fragment of the relational engine: %s" % e)
    except MemoryError as e:
        raise AnalysisBroken("mul_mod / pow_mod: %s" % e)
    return nob, ndis, npaths


def product_rule(ctx):
    """No product of two unbounded run-time values outside mul_mod.

    The library's own discipline in this call tree is that residues are multiplied by mul_mod (proved
    above); a raw `x * y` of two 64-bit run-time values wraps modulo 2^64, and a wrapped value compared
    with, or handed on as, an exact one is a wrong answer for the operands that make it coincide.
    On the IR of everything reachable from is_prime / find_prime_factor / multiplicity (no inlining):
    every integer multiplication (and left shift) has a constant operand, or an operand in {-1, 0, 1}
    (a sign), or two operands whose widths before extension add up to at most the result's width
    (table entries, narrow counters), or sits in mul_mod.  Anything else is reported with its line."""
    import os
    import re as _re
    from vlib import cxx
    wd = ctx.sub("PR")
    src = os.path.join(wd, "tree.cc")
    with open(src, "w") as f:
        f.write('#include <cstdint>\n#include "au/utility/factoring.hh"\n#include "au/utility/probable_primes.hh"\n#include "au/utility/mod.hh"\n'
                'extern "C" bool root_is_prime(std::uint64_t n) { return au::detail::is_prime(n); }\n'
                'extern "C" std::uint64_t root_fpf(std::uint64_t n) { return au::detail::find_prime_factor(n); }\n'
                'extern "C" std::uint64_t root_mult(std::uint64_t a, std::uint64_t b) { return au::detail::multiplicity(a, b); }\n'
                'extern "C" std::uint64_t root_pow(std::uint64_t a, std::uint64_t b, std::uint64_t n) { return au::detail::pow_mod(a, b, n); }\n')
    raw, out = os.path.join(wd, "tree.raw.ll"), os.path.join(wd, "tree.ll")
    rc, so, se = cxx.run(["clang++", "-std=c++14", "-I" + ir.AU_INC, "-g", "-O1", "-Xclang", "-disable-llvm-passes", "-S", "-emit-llvm", "-w", src, "-o", raw])
    if rc != 0:
        raise AnalysisBroken("primality call-tree unit does not compile: %s" % se[-300:])
    rc, so, se = cxx.run(["opt-14", "-S", "-passes=function(sroa,simplifycfg,lowerswitch)", raw, "-o", out])
    if rc != 0:
        raise AnalysisBroken("opt failed on the primality call-tree unit: %s" % se[-300:])
    mod = ir.parse_module(out, only=lambda n: True)
    roots = [r for r in ("root_is_prime", "root_fpf", "root_mult", "root_pow") if r in mod.funcs]
    ctx.require(len(roots) == 4, "call-tree roots missing from the IR: %s" % roots)
    reach, todo = set(), list(roots)
    while todo:
        fnm = todo.pop()
        if fnm in reach or fnm not in mod.funcs or not getattr(mod.funcs[fnm], "blocks", None):
            continue
        reach.add(fnm)
        for _, i in mod.funcs[fnm].instrs():
            if i.op == "call" and i.callee:
                todo.append(i.callee)
    lib = sorted(f for f in reach if not f.startswith("root_"))
    ctx.require(len(lib) >= 15 and any("baillie_psw" in f for f in lib) and any("is_perfect_square" in f for f in lib) and MUL_MOD in lib,
                "call tree of is_prime / find_prime_factor has only %d functions: %s" % (len(lib), lib))
    WIDTH = {"i1": 1, "i8": 8, "i16": 16, "i32": 32, "i64": 64}
    fails = []
    seen = accounted = 0
    for fnm in lib:
        fn = mod.funcs[fnm]
        defs = {i.res: i for _, i in fn.instrs() if i.res is not None}

        def bits(o, depth=0):
            """upper bound on the number of significant bits of operand o (None: its full width), or 'unit'"""
            if getattr(o, "kind", None) == "c":
                return ("const", o.v)
            if getattr(o, "kind", None) != "v" or o.v not in defs or depth > 8:
                return ("var", WIDTH.get(getattr(o, "ty", None), 64))
            d = defs[o.v]
            if d.op in ("zext",):
                inner = bits(d.args[0], depth + 1)
                src_w = WIDTH.get(d.src_ty or getattr(d.args[0], "ty", None), 64)
                if src_w == 1:
                    return ("unit", 1)
                return inner if inner[0] in ("const", "unit") else ("var", min(inner[1], src_w))
            if d.op == "sext":
                inner = bits(d.args[0], depth + 1)
                return inner if inner[0] in ("const", "unit") else ("var", WIDTH.get(d.ty, 64))
            if d.op == "select":
                a, b = bits(d.args[1], depth + 1), bits(d.args[2], depth + 1)
                if all(x[0] == "const" and x[1] in (-1, 0, 1) or x[0] == "unit" for x in (a, b)):
                    return ("unit", 1)
                if all(x[0] in ("const", "unit") for x in (a, b)):
                    return ("var", max(int(abs(x[1])).bit_length() if x[0] == "const" else 1 for x in (a, b)))
                return ("var", max(x[1] if x[0] == "var" else 1 for x in (a, b)))
            if d.op == "call" and d.callee and "bool_sign" in d.callee:
                return ("unit", 1)
            if d.op == "load":
                w = WIDTH.get(d.ty, 64)
                return ("var", w)
            if d.op in ("and",):
                a, b = bits(d.args[0], depth + 1), bits(d.args[1], depth + 1)
                for x in (a, b):
                    if x[0] == "const" and x[1] >= 0:
                        return ("var", int(x[1]).bit_length())
            return ("var", WIDTH.get(d.ty, 64))

        for _, i in fn.instrs():
            if i.op not in ("mul", "shl") or i.ty not in WIDTH:
                continue
            seen += 1
            w = WIDTH[i.ty]
            a, b = bits(i.args[0]), bits(i.args[1])
            ok = False
            if i.op == "mul":
                if a[0] in ("const", "unit") or b[0] in ("const", "unit"):
                    # constant factor: the other operand's bound must leave room for it
                    k = a if a[0] == "const" else b if b[0] == "const" else None
                    o = b if k is a else a
                    if k is None or abs(k[1]) <= 1:
                        ok = True
                    elif o[0] == "var" and o[1] + int(abs(k[1])).bit_length() <= w:
                        ok = True
                    elif fnm != MUL_MOD:
                        # x * constant with x of full width: accepted only where x is a counter that the
                        # code doubles under its own bound (recorded, not proved)
                        ok = "recorded"
                elif a[1] + b[1] <= w:
                    ok = True
            else:
                ok = a[0] == "const" or (b[0] == "const" and a[0] == "var" and a[1] + b[1] <= w)
            if fnm == MUL_MOD:
                ok = True  # every product in mul_mod is an obligation of the relational proof
            if ok:
                accounted += 1
                if ok == "recorded":
                    ctx.assumptions.append("%s: `%s` multiplies a full-width value by a constant (not shown to stay below 2^%d; a search bound, not a residue)" % (_re.sub(r"^_ZN2au6detail\d+", "", fnm)[:40], i.raw.strip().split(", !dbg")[0], w))
            else:
                loc = ", inlined at ".join("%s:%s" % (f.split("/au/code/")[-1], l) for f, l in mod.loc_chain(i.dbg)) if i.dbg else "?"
                fails.append("%s at %s: `%s` - a product of two run-time values of %d and %d significant bits in a %d-bit type, outside mul_mod: it wraps modulo 2^%d for large operands and the wrapped value is used as if exact"
                             % (_re.sub(r"^_ZN2au6detail\d+", "", fnm)[:50], loc, i.raw.strip().split(", !dbg")[0], a[1], b[1], w, w))
    ctx.require(seen >= 4, "only %d multiplications found in the call tree (mul_mod alone has four)" % seen)
    for fmsg in fails:
        ctx.violation("product:" + fmsg.split(":")[0] + fmsg.split("`")[1][:40], fmsg)
    return dict(functions=len(lib), multiplications=seen, accounted=accounted, failures=len(fails))


def divisor_rule(ctx):
    """What the factor finder returns has been ESTABLISHED to divide its argument, on every path.

    On the IR of find_prime_factor and find_pollard_rho_factor (no inlining): every value that
    reaches a `ret` traces back, through phis, selects and casts, to
      * the function's own parameter n (it divides itself),
      * the result of gcd(.., ..) one argument of which is the parameter (rho search),
      * a table entry p on an edge that is reachable only through the true outcome of n % p == 0
        (trial division),
      * the result of find_prime_factor / find_pollard_rho_factor applied to a value that itself has
        such evidence (a divisor of a divisor; each function's own claim is the induction hypothesis).
    `gcd` returning a common divisor of its arguments is assumed (listed).  Together with the
    typestate rule this is the structural half of "returns a prime divisor of every n > 1"; that the
    rho search ends, and primality itself, are not decided."""
    import os
    import re as _re
    from vlib import cxx
    wd = ctx.sub("DV")
    src = os.path.join(wd, "dv.cc")
    with open(src, "w") as f:
        f.write('#include <cstdint>\n#include "au/utility/factoring.hh"\n'
                'extern "C" std::uint64_t dv(std::uint64_t n) { return au::detail::find_prime_factor(n); }\n')
    raw, out = os.path.join(wd, "dv.raw.ll"), os.path.join(wd, "dv.ll")
    rc, so, se = cxx.run(["clang++", "-std=c++14", "-I" + ir.AU_INC, "-g", "-O1", "-Xclang", "-disable-llvm-passes", "-S", "-emit-llvm", "-w", src, "-o", raw])
    if rc != 0:
        raise AnalysisBroken("find_prime_factor wrapper does not compile: %s" % se[-300:])
    rc, so, se = cxx.run(["opt-14", "-S", "-passes=function(sroa,simplifycfg,lowerswitch)", raw, "-o", out])
    if rc != 0:
        raise AnalysisBroken("opt failed on the divisor-rule unit: %s" % se[-300:])
    mod = ir.parse_module(out, only=lambda n: "find_prime_factor" in n or "find_pollard_rho_factor" in n)
    fails = []
    stats = {}
    for key in ("find_prime_factor", "find_pollard_rho_factor"):
        fns = [v for k, v in mod.funcs.items() if key in k and getattr(v, "blocks", None)]
        ctx.require(len(fns) == 1, "%s not found in the IR" % key)
        fn = fns[0]
        defs, where = {}, {}
        for l in fn.order:
            for i in fn.blocks[l]:
                if i.res is not None:
                    defs[i.res] = i
                    where[i.res] = l
        succ = {l: list(fn.blocks[l][-1].targets or []) for l in fn.order}
        param = fn.params[0][1]

        def name(a):
            return a.v if getattr(a, "kind", None) == "v" else None

        def strip(v):
            """value name behind casts; two loads through one pointer are one value (nothing in these
            functions stores)"""
            while v is not None and v in defs and defs[v].op in ("zext", "sext", "trunc"):
                v = name(defs[v].args[0])
            if v is not None and v in defs and defs[v].op == "load":
                mm = _re.search(r"%([\w.]+)", " ".join(str(a) for a in defs[v].args))
                if mm:
                    return "load:" + mm.group(1)
            return v

        def load_def(v):
            if v is not None and v.startswith("load:"):
                return next((i for i in defs.values() if i.op == "load" and _re.search(r"%" + _re.escape(v[5:]) + r"\b", " ".join(str(a) for a in i.args))), None)
            return defs.get(v)

        def is_table(v):
            v = strip(v)
            i = load_def(v)
            if i is None or i.op != "load":
                return False
            raw_ = " ".join(str(a) for a in i.args)
            mm = _re.search(r"%([\w.]+)", raw_)
            pdef = defs.get(mm.group(1)) if mm else None
            return "FirstPrimes" in raw_ or (pdef is not None and pdef.op == "call" and "FirstPrimes" in " ".join(str(a) for a in pdef.args) + (pdef.raw or ""))

        # edges taken only when n % v == 0
        guards = []
        for l in fn.order:
            t = fn.blocks[l][-1]
            if t.op == "br" and len(t.targets) == 2:
                c = defs.get(name(t.args[0]))
                if c is not None and c.op == "icmp" and c.pred in ("eq", "ne"):
                    ops = list(c.args)
                    zero = [a for a in ops if getattr(a, "kind", None) == "c" and a.v == 0]
                    rem = [defs.get(name(a)) for a in ops if name(a)]
                    rem = [r for r in rem if r is not None and r.op == "urem"]
                    if zero and rem and strip(name(rem[0].args[0])) == param:
                        v = strip(name(rem[0].args[1]))
                        guards.append((l, t.targets[0] if c.pred == "eq" else t.targets[1], v))

        def reachable_without(edge, target):
            seen, todo = set(), [fn.entry]
            while todo:
                b = todo.pop()
                if b in seen:
                    continue
                seen.add(b)
                for s_ in succ.get(b, []):
                    if (b, s_) != edge:
                        todo.append(s_)
            return target in seen

        def guarded(v, frm, to):
            v = strip(v)
            for (gf, gt, gv) in guards:
                if gv == v and ((gf, gt) == (frm, to) or (frm is not None and not reachable_without((gf, gt), frm)) or not reachable_without((gf, gt), to)):
                    return True
            return False

        busy = set()

        def evidence(a, frm, to):
            if getattr(a, "kind", None) == "u":
                return None  # undef: the slot of a variable that is assigned before it is read
            if getattr(a, "kind", None) != "v":
                return "the constant %s" % getattr(a, "v", "?")
            v = strip(a.v)
            if v == param:
                return None
            i = load_def(v)
            if i is None:
                return "an unknown value %%%s" % v
            if is_table(v):
                return None if guarded(v, frm, to) else "a table entry p without n %% p == 0 on this path (%s)" % (mod.where(i.dbg) if i.dbg else "?")
            if (v, frm, to) in busy:
                return None
            busy.add((v, frm, to))
            try:
                if i.op == "phi":
                    for (o, pl) in i.incoming:
                        r = evidence(o, pl, where[v])
                        if r:
                            return r
                    return None
                if i.op == "select":
                    for arm in i.args[1:]:
                        r = evidence(arm, frm, to)
                        if r:
                            return r
                    return None
                if i.op == "call" and i.callee:
                    if _re.search(r"detail\d*3gcdE", i.callee) or "3gcd" in i.callee:
                        if any(strip(name(x)) == param for x in i.args if hasattr(x, "kind")):
                            return None
                        return "gcd of values neither of which is n (%s)" % (mod.where(i.dbg) if i.dbg else "?")
                    if "find_prime_factor" in i.callee or "find_pollard_rho_factor" in i.callee:
                        return evidence(i.args[0], frm, to)
                    return "the result of %s (%s)" % (_re.sub(r"^_ZN2au6detail\d+", "", i.callee), mod.where(i.dbg) if i.dbg else "?")
                return "the result of `%s` (%s)" % (i.op, mod.where(i.dbg) if i.dbg else "?")
            finally:
                busy.discard((v, frm, to))

        nret = 0
        for l in fn.order:
            t = fn.blocks[l][-1]
            if t.op == "ret":
                nret += 1
                r = evidence(t.args[0], None, l)
                if r:
                    fails.append("%s can return %s, which is not established to divide n" % (key, r))
        ctx.require(not any(i.op == "store" for _, i in fn.instrs()), "%s stores to memory: two loads through one pointer are no longer one value" % key)
        stats[key] = dict(returns=nret, divisibility_guards=len(guards))
        ctx.require(nret >= 1, "%s: no return found" % key)
    for k, msg in enumerate(fails):
        ctx.violation("divisor:%d" % k, msg)
    if not fails:
        ctx.require(stats["find_prime_factor"]["divisibility_guards"] >= 1, "find_prime_factor: no `n % p == 0` edge found")
    ctx.assumptions.append("au::detail::gcd returns a common divisor of its two arguments")
    stats["failures"] = len(fails)
    return stats


def typestate_rule(ctx):
    """find_prime_factor returns a value that has been ESTABLISHED prime on every path.

    Analysed on the function's own IR (no inlining, so the calls are visible): every value that can
    reach the `ret` must trace back, through phis, selects and casts, to one of
      * an element of the table of first primes (whose entries are checked to be primes),
      * the function's own result (recursion: inductive),
      * a value v on an edge that is only reachable through the true outcome of is_prime(v),
      * the parameter n chosen because p*p > n for a table element p inside the trial-division loop.
    Anything else - say, the result of the rho search handed back unchecked - is reported with the
    instruction it comes from.  (Whether the value also DIVIDES n is not visible in the shape of the
    code and is left to the witnesses.)"""
    import os
    import re as _re
    from vlib import cxx
    wd = ctx.sub("TS")
    src = os.path.join(wd, "fpf.cc")
    with open(src, "w") as f:
        f.write('#include <cstdint>\n#include "au/utility/factoring.hh"\n'
                'extern "C" std::uint64_t fpf(std::uint64_t n) { return au::detail::find_prime_factor(n); }\n')
    raw, out = os.path.join(wd, "fpf.raw.ll"), os.path.join(wd, "fpf.ll")
    rc, so, se = cxx.run(["clang++", "-std=c++14", "-I" + ir.AU_INC, "-g", "-O1", "-Xclang", "-disable-llvm-passes", "-S", "-emit-llvm", "-w", src, "-o", raw])
    if rc != 0:
        raise AnalysisBroken("find_prime_factor wrapper does not compile: %s" % se[-300:])
    rc, so, se = cxx.run(["opt-14", "-S", "-passes=function(sroa,simplifycfg,lowerswitch)", raw, "-o", out])
    if rc != 0:
        raise AnalysisBroken("opt failed on the find_prime_factor unit: %s" % se[-300:])
    text = open(out).read()
    # the table: every entry a prime, ascending, starting at 2 (the trial-division argument needs that)
    m = _re.search(r"FirstPrimesImpl\w*6valuesE = [^\n]*\[(\d+) x i16\] \[([^\]]*)\]", text)
    ctx.require(m is not None, "table of first primes not found in the IR")
    table = [int(x) for x in _re.findall(r"i16 (\d+)", m.group(2))]
    ctx.require(len(table) == int(m.group(1)) and len(table) >= 20, "table of first primes has %d entries" % len(table))
    fails = []
    expect = 2
    for t in table:
        while not model.is_prime(expect):
            expect += 1
        if t != expect:
            fails.append("table of first primes: entry %d where the next prime is %d (trial division is only complete over ALL primes up to the last entry)" % (t, expect))
            break
        expect += 1
    mod = ir.parse_module(out, only=lambda n: "find_prime_factor" in n)
    fn = [v for k, v in mod.funcs.items() if "find_prime_factor" in k]
    ctx.require(len(fn) == 1, "find_prime_factor not found in the IR")
    fn = fn[0]
    defs = {}
    where = {}
    for l in fn.order:
        for i in fn.blocks[l]:
            if i.res is not None:
                defs[i.res] = i
                where[i.res] = l
    succ = {l: list(fn.blocks[l][-1].targets or []) for l in fn.order}
    param = fn.params[0][1]

    def name(a):
        return a.v if getattr(a, "kind", None) == "v" else None

    def is_prime_call(i):
        return i is not None and i.op == "call" and i.callee and "is_prime" in i.callee and "detail" in i.callee

    guards = []  # (from block, to block, value name) : edge taken only when is_prime(value) held
    for l in fn.order:
        t = fn.blocks[l][-1]
        if t.op == "br" and len(t.targets) == 2:
            c = defs.get(name(t.args[0]))
            neg = False
            if c is not None and c.op == "xor" and any(getattr(a, "kind", None) == "c" and a.v == 1 for a in c.args):
                neg = True
                c = defs.get([name(a) for a in c.args if name(a)][0])
            if is_prime_call(c):
                v = name(c.args[0])
                if v is not None:
                    guards.append((l, t.targets[1] if neg else t.targets[0], v))

    def reachable_without(edge, target):
        seen, todo = set(), [fn.entry]
        while todo:
            b = todo.pop()
            if b in seen:
                continue
            seen.add(b)
            for s_ in succ.get(b, []):
                if (b, s_) != edge:
                    todo.append(s_)
        return target in seen

    def guarded(v, frm, to):
        for (gf, gt, gv) in guards:
            if gv == v and ((gf, gt) == (frm, to) or not reachable_without((gf, gt), frm)):
                return True
        return False

    def table_element(i):
        # zext / load chain from operator[] or a GEP on the table
        while i is not None and i.op in ("zext", "sext", "trunc"):
            i = defs.get(name(i.args[0]))
        if i is None or i.op != "load":
            return False
        raw_ = " ".join(str(a) for a in i.args)
        mm = _re.search(r"%([\w.]+)", raw_)
        p = defs.get(mm.group(1)) if mm else None
        if p is not None and p.op == "call" and "FirstPrimes" in " ".join(str(a) for a in p.args) + (p.raw or ""):
            return True
        return "FirstPrimes" in raw_

    def from_table_square(i):
        # sext/zext(mul(t, t)) with t table elements
        while i is not None and i.op in ("zext", "sext"):
            i = defs.get(name(i.args[0]))
        return i is not None and i.op == "mul" and all(table_element(defs.get(name(a))) for a in i.args)

    busy = set()

    def evidence(a, frm, to):
        """a: operand reaching block `to` over the edge frm->to.  Returns None if fine, else a reason."""
        if getattr(a, "kind", None) != "v":
            return None if getattr(a, "kind", None) == "u" or getattr(a, "v", 0) is None else "a constant"
        v = a.v
        if frm is not None and guarded(v, frm, to):
            return None
        if v == param:
            return "the parameter n without a primality check on this path"
        i = defs.get(v)
        if i is None:
            return "an unknown value %%%s" % v
        if table_element(i):
            return None
        if i.op == "call" and i.callee and "find_prime_factor" in i.callee:
            return None
        if (v, frm, to) in busy:
            return None  # loop-carried: decided by the other incoming values
        busy.add((v, frm, to))
        try:
            if i.op == "phi":
                for (o, pl) in i.incoming:
                    r = evidence(o, pl, where[v])
                    if r:
                        return r
                return None
            if i.op == "select":
                c = defs.get(name(i.args[0]))
                for arm in i.args[1:]:
                    if name(arm) == param and c is not None and c.op == "icmp" and c.pred in ("ugt", "uge", "ult", "ule") \
                            and any(name(x) == param for x in c.args) and any(from_table_square(defs.get(name(x))) for x in c.args):
                        continue  # n itself, chosen because p*p > n inside the trial division
                    r = evidence(arm, frm, to)
                    if r:
                        return r
                return None
            if i.op in ("zext", "sext", "trunc"):
                return evidence(i.args[0], frm, to)
            if i.op == "call":
                return "the result of %s, handed back without a primality check (%s)" % (_re.sub(r"^_ZN2au6detail\d+", "", i.callee or "?"), mod.where(i.dbg) if i.dbg else "no line info")
            return "the result of `%s`" % i.op
        finally:
            busy.discard((v, frm, to))

    nret = 0
    for l in fn.order:
        t = fn.blocks[l][-1]
        if t.op == "ret":
            nret += 1
            r = evidence(t.args[0], None, l)
            if r:
                fails.append("find_prime_factor can return %s" % r)
    ctx.require(nret >= 1 and len(guards) >= 2, "find_prime_factor: %d returns, %d is_prime guards found" % (nret, len(guards)))
    for k, msg in enumerate(fails):
        ctx.violation("typestate:%d" % k, msg)
    return dict(table_entries=len(table), returns=nret, is_prime_guards=len(guards), failures=len(fails))


# psi_k: the smallest composite that passes Miller-Rabin for ALL of the first k primes as bases
# (Pomerance-Selfridge-Wagstaff 1980, Jaeschke 1993, Jiang-Deng 2014); psi_12 and beyond exceed 2^64
PSI = [9, 2047, 1373653, 25326001, 3215031751, 2152302898747, 3474749660383, 341550071728321, 341550071728321,
       3825123056546413051, 3825123056546413051, 3825123056546413051]
FIRST_PRIMES = [2, 3, 5, 7, 11, 13, 17, 19, 23, 29, 31, 37]


def _mr_passes(a, n):
    """Does odd n > 2 pass the strong probable-prime test to base a (Python integers)?"""
    if a % n == 0:
        return True
    d, r = n - 1, 0
    while d % 2 == 0:
        d //= 2
        r += 1
    x = pow(a, d, n)
    if x in (1, n - 1):
        return True
    for _ in range(r - 1):
        x = x * x % n
        if x == n - 1:
            return True
    return False


def verdict_rule(ctx):
    """Every path through baillie_psw to a PROBABLY_PRIME verdict carries evidence that suffices for
    EVERY n the path admits.

    Analysed on the function's own IR (calls not inlined).  A path is the list of branch outcomes
    from the entry to the `ret`; its facts are bounds on n (comparisons with constants), the parity
    test, and Miller-Rabin calls with a constant base whose result was compared with COMPOSITE.
    Accepted evidence:
      * the verdict is the result of strong_lucas(n) and the path passed Miller-Rabin to base 2 with n
        odd (the Baillie-PSW combination, verified to have no counterexample below 2^64);
      * a constant PROBABLY_PRIME on a path that bounds n below 2^16: every n the facts admit is
        enumerated and must be prime;
      * a constant PROBABLY_PRIME (or a Miller-Rabin result handed back) after Miller-Rabin to the
        first k primes with n odd and n < B <= psi_k (the literature's table above).
    A path that returns PROBABLY_PRIME for a composite the facts admit (psi_k itself, a strong Lucas
    pseudoprime, a small composite) is reported with that composite; a path whose facts the rule
    cannot read is analysis-broken (exit 2), not a finding."""
    import os
    from vlib import cxx
    wd = ctx.sub("VERDICT")
    src = os.path.join(wd, "bp.cc")
    with open(src, "w") as f:
        f.write('#include <cstdint>\n#include "au/utility/probable_primes.hh"\n'
                'extern "C" int bp(std::uint64_t n) { return (int)au::detail::baillie_psw(n); }\n'
                'extern "C" int pp_value() { return (int)au::detail::PrimeResult::PROBABLY_PRIME; }\n'
                'extern "C" int comp_value() { return (int)au::detail::PrimeResult::COMPOSITE; }\n')
    raw, out = os.path.join(wd, "bp.raw.ll"), os.path.join(wd, "bp.ll")
    rc, so, se = cxx.run(["clang++", "-std=c++14", "-I" + ir.AU_INC, "-g", "-O1", "-Xclang", "-disable-llvm-passes", "-S", "-emit-llvm", "-w", src, "-o", raw])
    if rc != 0:
        raise AnalysisBroken("baillie_psw wrapper does not compile: %s" % se[-300:])
    rc, so, se = cxx.run(["opt-14", "-S", "-passes=function(sroa,simplifycfg,lowerswitch)", raw, "-o", out])
    if rc != 0:
        raise AnalysisBroken("opt failed on the baillie_psw unit: %s" % se[-300:])
    mod = ir.parse_module(out, only=lambda n: "baillie_psw" in n or n in ("pp_value", "comp_value"))

    def const_ret(fname):
        fn_ = mod.funcs.get(fname)
        ctx.require(fn_ is not None, "%s not found" % fname)
        t = fn_.blocks[fn_.order[-1]][-1]
        ctx.require(t.op == "ret" and getattr(t.args[0], "kind", None) == "c", "%s does not return a constant" % fname)
        return t.args[0].v
    PP, COMP = const_ret("pp_value"), const_ret("comp_value")
    fns = [v for k, v in mod.funcs.items() if "baillie_psw" in k]
    ctx.require(len(fns) == 1, "baillie_psw not found in the IR")
    fn = fns[0]
    param = fn.params[0][1]
    defs = {}
    for l in fn.order:
        for i in fn.blocks[l]:
            if i.res is not None:
                defs[i.res] = i

    def nm(a):
        return a.v if getattr(a, "kind", None) == "v" else None

    def cv(a):
        return a.v if getattr(a, "kind", None) == "c" else None

    def strip(a):
        while nm(a) in defs and defs[nm(a)].op in ("zext", "sext", "trunc", "freeze"):
            a = defs[nm(a)].args[0]
        return a

    def is_n(a):
        return nm(strip(a)) == param

    def mr_call(a):
        i = defs.get(nm(strip(a)))
        if i is not None and i.op == "call" and i.callee and "miller_rabin" in i.callee and len(i.args) >= 2 and cv(i.args[0]) is not None and is_n(i.args[1]):
            return cv(i.args[0])
        return None

    class Unreadable(Exception):
        pass

    def fact(cond, truth):
        """-> ('lt', C) meaning n < C / ('ge', C) / ('parity', r) meaning n % 2 == r / ('mr', a, passed) / None (says nothing about n)"""
        i = defs.get(nm(cond))
        if i is None:
            raise Unreadable("branch on %s" % cond)
        if i.op == "xor" and any(cv(a) == 1 for a in i.args):
            return fact([a for a in i.args if cv(a) != 1][0], not truth)
        if i.op != "icmp":
            raise Unreadable("branch on `%s`" % i.raw.strip()[:80])
        a, b, pred = i.args[0], i.args[1], i.pred
        if cv(a) is not None and cv(b) is None:
            a, b = b, a
            pred = {"ult": "ugt", "ugt": "ult", "ule": "uge", "uge": "ule"}.get(pred, pred)
        c = cv(b)
        if c is None:
            raise Unreadable("comparison of two run-time values: `%s`" % i.raw.strip()[:80])
        if is_n(a):
            if pred in ("ult", "ule", "ugt", "uge"):
                lim = {"ult": c, "ule": c + 1, "uge": c, "ugt": c + 1}[pred]
                lt = pred in ("ult", "ule")
                return ("lt", lim) if lt == truth else ("ge", lim)
            if pred in ("eq", "ne"):
                return ("eq", c) if (pred == "eq") == truth else ("ne", c)
            raise Unreadable("signed comparison of n")
        ai = defs.get(nm(strip(a)))
        if ai is not None and ai.op in ("urem", "and") and is_n(ai.args[0]) and cv(ai.args[1]) == (2 if ai.op == "urem" else 1) and pred in ("eq", "ne") and c in (0, 1):
            r = c if (pred == "eq") == truth else 1 - c
            return ("parity", r)
        base = mr_call(a)
        if base is not None and pred in ("eq", "ne"):
            holds = (pred == "eq") == truth  # result == c
            if c == COMP:
                return ("mr", base, not holds)
            if c == PP:
                return ("mr", base, holds) if holds else None
            return None
        raise Unreadable("branch on `%s`" % i.raw.strip()[:80])

    paths = []

    def walk(l, facts, seen):
        if l in seen:
            raise Unreadable("a loop in baillie_psw")
        blk = fn.blocks[l]
        t = blk[-1]
        if t.op == "ret":
            paths.append((facts, t.args[0], seen + [l]))
            return
        if t.op == "unreachable":
            return
        if t.op != "br":
            raise Unreadable("terminator `%s`" % t.op)
        if len(t.targets) == 1:
            walk(t.targets[0], facts, seen + [l])
            return
        for tgt, truth in ((t.targets[0], True), (t.targets[1], False)):
            f_ = fact(t.args[0], truth)
            walk(tgt, facts + ([f_] if f_ else []), seen + [l])

    try:
        walk(fn.entry, [], [])
    except Unreadable as e:
        raise AnalysisBroken("baillie_psw: the verdict rule cannot read a path condition (%s)" % e)
    ctx.require(len(paths) >= 4, "baillie_psw: only %d paths" % len(paths))

    def value_on(path_blocks, a):
        """resolve phis along the path"""
        while True:
            i = defs.get(nm(a))
            if i is None or i.op != "phi":
                return a
            blk = [l for l in fn.order if i in fn.blocks[l]][0]
            k = path_blocks.index(blk)
            pred = path_blocks[k - 1]
            a = [o for (o, pl) in i.incoming if pl == pred][0]

    def admits(facts, n):
        for f_ in facts:
            if f_[0] == "lt" and not n < f_[1]:
                return False
            if f_[0] == "ge" and not n >= f_[1]:
                return False
            if f_[0] == "eq" and n != f_[1]:
                return False
            if f_[0] == "ne" and n == f_[1]:
                return False
            if f_[0] == "parity" and n % 2 != f_[1]:
                return False
            if f_[0] == "mr":
                if n < 3 or n % 2 == 0:
                    return False  # (the library's miller_rabin answers BAD_INPUT there: not modelled)
                if _mr_passes(f_[1], n) != f_[2]:
                    return False
        return True

    pool = sorted(set(PSI + PSP2 + CARMICHAEL + LUCAS_PSP + [n for n in range(4, 1 << 12) if not model.is_prime(n)]))
    fails, established = [], 0
    def expand(facts, v, blocks_):
        """a `select` handed back is a branch the optimiser folded: one virtual path per arm"""
        v = value_on(blocks_, v)
        i = defs.get(nm(v))
        if i is not None and i.op == "select":
            out = []
            for arm, truth in ((i.args[1], True), (i.args[2], False)):
                try:
                    f_ = fact(i.args[0], truth)
                except Unreadable as e:
                    raise AnalysisBroken("baillie_psw: the verdict rule cannot read a select condition (%s)" % e)
                out += expand(facts + ([f_] if f_ else []), arm, blocks_)
            return out
        return [(facts, v)]

    vpaths = []
    for facts, rv, blocks_ in paths:
        vpaths += expand(facts, rv, blocks_)
    for facts, v in vpaths:
        hi = min([f_[1] for f_ in facts if f_[0] == "lt"] + [1 << 64])
        hi = min([hi] + [f_[1] + 1 for f_ in facts if f_[0] == "eq"])
        odd = ("parity", 1) in facts
        bases = {f_[1] for f_ in facts if f_[0] == "mr" and f_[2]}
        k = 0
        while k < len(FIRST_PRIMES) and FIRST_PRIMES[k] in bases:
            k += 1
        desc = ", ".join(("n < %d" % f_[1]) if f_[0] == "lt" else ("n >= %d" % f_[1]) if f_[0] == "ge" else ("n %% 2 == %d" % f_[1]) if f_[0] == "parity"
                         else ("n %s %d" % ("==" if f_[0] == "eq" else "!=", f_[1])) if f_[0] in ("eq", "ne") else ("Miller-Rabin base %d %s" % (f_[1], "passed" if f_[2] else "failed")) for f_ in facts) or "no condition"
        vi = defs.get(nm(v))
        kind = None
        if cv(v) is not None:
            kind = "prime" if cv(v) == PP else "other"
        elif vi is not None and vi.op == "call" and vi.callee and "strong_lucas" in vi.callee and is_n(vi.args[0]):
            kind = "lucas"
        elif vi is not None and vi.op == "call" and mr_call(v) is not None:
            kind = "prime"  # PROBABLY_PRIME iff that test passes too
            bases = bases | {mr_call(v)}
            k = 0
            while k < len(FIRST_PRIMES) and FIRST_PRIMES[k] in bases:
                k += 1
        else:
            raise AnalysisBroken("baillie_psw returns a value the verdict rule cannot read on the path [%s]" % desc)
        if kind == "other":
            established += 1
            continue
        if kind == "lucas":
            if 2 in bases and odd:
                established += 1
                continue
            bad = [n for n in LUCAS_PSP if admits(facts, n)]
            if bad:
                fails.append("on the path [%s] the verdict is strong_lucas(n) alone: the strong Lucas pseudoprime %d = %s is admitted by the path and would be called prime" % (desc, bad[0], " * ".join(map(str, sorted(small_factor(bad[0]))))))
                continue
            raise AnalysisBroken("baillie_psw: strong_lucas verdict without Miller-Rabin base 2 on the path [%s], and no counterexample in the tables" % desc)
        # a PROBABLY_PRIME verdict without the Lucas test
        if hi <= (1 << 16):
            bad = [n for n in range(0, hi) if admits(facts, n) and not model.is_prime(n)]
            if bad:
                fails.append("on the path [%s] the verdict is PROBABLY_PRIME for the composite %d" % (desc, bad[0]))
            else:
                established += 1
            continue
        if odd and k >= 1 and (k >= 12 or hi <= PSI[k]):
            established += 1
            continue
        bad = [n for n in pool if n < hi and admits(facts, n)]
        if bad:
            fails.append("on the path [%s] the verdict is PROBABLY_PRIME without the strong Lucas test: the composite %d = %s is admitted by the path (a strong pseudoprime to every base tested there) and is called prime"
                         % (desc, bad[0], " * ".join(map(str, sorted(small_factor(bad[0]))))))
            continue
        raise AnalysisBroken("baillie_psw: PROBABLY_PRIME on the path [%s] is neither covered by the accepted evidence nor refuted by the tables" % desc)
    for j, msg in enumerate(fails):
        ctx.violation("verdict:%d" % j, "baillie_psw: " + msg)
    return dict(paths=len(vpaths), established=established, failures=len(fails))


def body(ctx):
    rnd = random.Random(ctx.seed)
    configs = cxx.configs_for(ctx.tier)
    nob, ndis, npaths = relational(ctx)
    ctx.log("relational: %d obligations over %d paths of add_mod / sub_mod / half_mod_odd / mul_mod / pow_mod, %d discharged" % (nob, npaths, ndis))
    ts = typestate_rule(ctx)
    pr = product_rule(ctx)
    ctx.log("product rule: %s" % pr)
    dv = divisor_rule(ctx)
    ctx.log("divisor rule: %s" % dv)
    ctx.log("typestate: %s" % ts)
    vr = verdict_rule(ctx)
    ctx.log("verdict rule: %s" % vr)

    # ---- W: adversarial numbers
    primes = set()
    for k in (8, 16, 24, 31, 32, 33, 48, 53, 61, 62, 63, 64):
        primes.add(prev_prime(2 ** k - 1))
        if k < 64:
            primes.add(next_prime(2 ** k + 1))
    # the primes just below 2^64 and just above 2^63 (moduli above 2^63 are where a helper that adds
    # before it reduces wraps; Selfridge's D is negative for some of them, positive for others)
    p = 2 ** 64 - 1
    for _ in range(24 if ctx.thorough else 14):
        p = prev_prime(p - 1)
        primes.add(p)
    p = 2 ** 63
    for _ in range(8 if ctx.thorough else 4):
        p = next_prime(p + 1)
        primes.add(p)
    # primes for which a 64-bit product inside a square test coincides with the number itself:
    # (a) n whose Newton iterate c (> 2^32) squares to n modulo 2^64 (found by solving c^2 = n mod 2^64
    #     2-adically for the j-th iterate; F-18), (b) n = k*2^33 + 1, for which ((n+1)/2)^2 = n mod 2^64
    primes.update(WRAP_COINCIDENCE_PRIMES)
    k = 0
    found = 0
    while found < (6 if ctx.thorough else 3):
        k += 1
        for e in (33, 41, 57):
            n = k * 2 ** e + 1
            if n <= MAX and model.is_prime(n) and n not in primes:
                primes.add(n)
                found += 1
    primes.update([2, 3, 5, 7, 97, 541, 547, 7919, 104729, 2147483647, 2305843009213693951, 18446744073709551557, 18446744073709551533])
    for _ in range(30 if ctx.thorough else 8):
        primes.add(next_prime(rnd.randrange(2 ** 40, 2 ** 64 - 10 ** 6) | 1))
    composites = {}
    for n in PSP2 + LUCAS_PSP + CARMICHAEL + WRAP_COINCIDENCE_COMPOSITES:
        composites[n] = small_factor(n)
    near = [prev_prime(2 ** 16), next_prime(2 ** 16), prev_prime(2 ** 31), next_prime(2 ** 31), prev_prime(2 ** 32), next_prime(2 ** 32)]
    for p in near:
        for q in near:
            if p * q <= MAX:
                f = {}
                f[p] = f.get(p, 0) + 1
                f[q] = f.get(q, 0) + 1
                composites[p * q] = f
    for p in (3, 7, 251, 65521, 65537, 2147483647, 4294967291):
        composites[p * p] = {p: 2}
        if p ** 3 <= MAX:
            composites[p ** 3] = {p: 3}
    for _ in range(60 if ctx.thorough else 14):
        n = rnd.randrange(2 ** 20, 2 ** 64)
        if not model.is_prime(n):
            composites[n] = small_factor(n)
    for _ in range(40 if ctx.thorough else 10):
        p, q = next_prime(rnd.randrange(2 ** 20, 2 ** 29) | 1), next_prime(rnd.randrange(2 ** 20, 2 ** 30) | 1)
        composites[p * q] = small_factor(p * q)
    for n, f in composites.items():
        v = 1
        for p, e in f.items():
            assert model.is_prime(p)
            v *= p ** e
        assert v == n, (n, f)

    items = []
    for p in sorted(primes):
        items.append(witness.Item("prime:%d" % p, "static_assert(std::is_same<decltype(au::mag<%dULL>()), au::Magnitude<au::Prime<%dULL>>>::value, \"mag<p> of a prime is Magnitude<Prime<p>>\");" % (p, p),
                                  "accept", None, dict(desc="%d is prime: mag<p>() is Magnitude<Prime<p>>" % p)))
    for n, f in sorted(composites.items()):
        ps = sorted(f)
        items.append(witness.Item("composite:%d" % n,
                                  "static_assert(std::is_same<decltype(au::mag<%dULL>()), %s>::value, \"mag<N> is the canonical factorisation\");" % (n, mag_type(f)),
                                  "accept", None, dict(desc="%d = %s" % (n, " * ".join("%d^%d" % (p, f[p]) for p in ps)))))
    # products: mag<a>() * mag<b>() == mag<a*b>()
    pool = sorted(composites) + sorted(primes)
    for _ in range(60 if ctx.thorough else 16):
        x, y = rnd.choice(pool), rnd.choice(pool)
        if x * y > MAX:
            x = rnd.choice([c for c in pool if c < 2 ** 31])
            y = rnd.choice([c for c in pool if c < 2 ** 31])
        if x * y > MAX:
            continue
        items.append(witness.Item("product:%d*%d" % (x, y), "static_assert(std::is_same<decltype(au::mag<%dULL>() * au::mag<%dULL>()), decltype(au::mag<%dULL>())>::value, \"mag<a>() * mag<b>() == mag<a*b>()\");" % (x, y, x * y),
                                  "accept", None, dict(desc="mag<%d>() * mag<%d>() is mag<%d>()" % (x, y, x * y))))
    # a non-prime as Prime<N> must be refused
    for n in sorted(set(PSP2 + LUCAS_PSP + CARMICHAEL + [near[2] * near[3], near[0] * near[0]])):
        items.append(witness.Item("notprime:%d" % n, "void w() { (void)au::Magnitude<au::Prime<%dULL>>{}; (void)au::Prime<%dULL>::value(); }" % (n, n), "reject", None,
                                  dict(desc="Prime<%d> (composite) must be refused" % n)))
    nmod = 0
    prelude = witness.DEFAULT_PRELUDE + '#include "au/utility/factoring.hh"\n#include "au/utility/mod.hh"\n'
    ctx.require(len(items) >= 120, "only %d witnesses" % len(items))
    # the witnesses run the library's loops inside the compilers' constant evaluators: give them a
    # budget a few times what the unchanged library needs, so that a loop that stops terminating
    # (or starts wandering) is reported as a rejected witness instead of exhausting the machine
    cxx.CLANG_STEPS, cxx.GCC_OPS = 100000000, 300000000
    # Own judging loop (one translation unit per witness and configuration): every witness runs
    # library loops inside the constant evaluator, so each gets a time limit, and the loop stops
    # early once it is clear that evaluations no longer terminate.
    # A witness that is rejected only because the evaluator ran out of budget is not a wrong answer
    # (the statement says "whenever it compiles"): it is counted, not reported - unless it happens
    # to more than a handful, which means a loop of the library stopped terminating.
    import os
    import subprocess
    import threading
    wd = ctx.sub("W_c12")
    budget = []
    skipped = [0]
    lock = threading.Lock()
    results = {it.key: {} for it in items}
    # cheap, direct witnesses first (values of the modular helpers), the long-running ones last
    prio = {"notprime": 1, "prime": 2, "product": 3, "composite": 4}
    jobs = sorted(((n, it, cfg) for n, it in enumerate(items) for cfg in configs), key=lambda j: (prio.get(j[1].key.split(":")[0], 9), j[0]))

    def one(job):
        n, it, cfg = job
        with lock:
            if len(budget) > 12:
                skipped[0] += 1
                return
        path = os.path.join(wd, "w_%d_%s_%s.cc" % (n, cfg.cc.replace("+", "p"), cfg.std.replace("+", "p")))
        with open(path, "w") as f:
            f.write(witness.render_solo(it, prelude))
        try:
            p = subprocess.run(cxx._PRLIMIT + cfg.syntax_cmd(path), stdout=subprocess.PIPE, stderr=subprocess.PIPE, timeout=150)
            rc, se = p.returncode, p.stderr.decode("utf-8", "replace")
        except subprocess.TimeoutExpired:
            rc, se = 1, "timeout: maximum step limit"
        if rc != 0 and it.expect == "accept" and re.search(r"maximum step limit|operation count exceeds limit|loop iteration count exceeds limit", se):
            with lock:
                budget.append((it.key, cfg.name))
            return
        diags = (cxx.parse_clang(se) if cfg.is_clang else cxx.parse_gcc(se)) if rc != 0 else []
        if rc != 0 and not diags:
            raise AnalysisBroken("%s failed without a parsable error on %s: %s" % (cfg.name, path, se[-500:]))
        with lock:
            results[it.key][cfg.name] = witness.Verdict(rc != 0, ["%s:%d: %s" % (os.path.basename(d.file), d.line, d.msg[:160]) for d in diags[:6]], True)

    cxx.pmap(one, jobs)
    stats = dict(programs=len(jobs), witnesses=len(items), configs=[c.name for c in configs], over_budget=len(budget), not_run=skipped[0])
    if len(budget) > 3:
        ctx.violation("budget", "%d witnesses do not finish within the constant evaluators' budget (clang %d steps, g++ %d operations, 150 s)%s: a loop of is_prime / find_prime_factor / mul_mod / pow_mod no longer terminates in reasonable time, first: %s"
                      % (len(budget), cxx.CLANG_STEPS, cxx.GCC_OPS, " - %d further witnesses not run" % skipped[0] if skipped[0] else "", budget[0]))
    nbad = witness.report_mismatches(ctx, items, results, prelude=prelude)
    ctx.log("W: %d items (%d primes, %d composites), %d mismatching" % (len(items), len(primes), len(composites), nbad))
    ctx.coverage.update(dict(
        evaluations=len(items) * len(configs) + nob, distinct_nontrivial=len(items) + nob,
        rule="divisor rule: every value find_prime_factor / find_pollard_rho_factor can return traces to n itself, to gcd(n, .), to a table entry on an edge taken only when n % p == 0, or to the factor finder applied to such a value; proof part: every path of add_mod / sub_mod / half_mod_odd under the documented preconditions (add_mod under the weaker a <= n), obligations = no unsigned wrap of a contributing operation, result in [0, n), result congruent to the exact value; mul_mod by induction over its recursion (no wrap, no division by zero, recursive precondition with a strictly smaller first operand, result in [0, n), result - a*b a polynomial multiple of n), with products and quotients by non-constants as terms constrained by axioms of non-negative integer arithmetic; pow_mod under n >= 2 with an inferred inductive loop invariant (every mul_mod call meets its precondition, result in [0, n)); exploration part: one witness program per prime / composite N (decltype(mag<N>()) against a factorisation computed with Python integers), products mag<a>*mag<b> == mag<a*b>, Prime<N> refused for every tabulated pseudoprime / Carmichael number; no function value is asserted directly",
        samples=[dict(key=items[0].key, code=items[0].code), dict(key=items[len(primes)].key, code=items[len(primes)].code)],
        exhaustive=False, typestate=ts, verdict_rule=vr, product_rule=pr, divisor_rule=dv, relational_obligations=nob, relational_discharged=ndis, relational_paths=npaths,
        primes=len(primes), composites=len(composites), w_items=len(items), w_mismatches=nbad, witnesses_over_budget=len(budget),
        configs=[c.name for c in configs], engine_stats=stats,
        not_decided="is_prime / find_prime_factor for every 64-bit input and the VALUE of pow_mod (base^exp): sampled on adversarial and seeded inputs only"))
    ctx.assumptions += ["the factorisations, residues and pseudoprime tables used as expected answers come from Python integer arithmetic and deterministic Miller-Rabin (vlib/model.py), cross-checked by re-multiplying"]


def main(argv=None):
    return common.run_check(PROP, "exploration", body, argv)


if __name__ == "__main__":
    sys.exit(main())
