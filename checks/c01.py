"""C01 - dimension mismatches are rejected at compile time  (engine W, compile-fail witnesses).

For ordered pairs (A, B) of dimension classes (library units grouped by model dimension, plus
generated compound / powered / rooted / scaled / prefixed units) every operation of the statement
is instantiated once with B of a different dimension (must be REJECTED) and once with a
same-dimension twin chosen so that the documented conversion policy permits it (must be ACCEPTED).
Trait-style questions must compile and answer "no" (hard error = violation).
"""
import random
import re
import sys
import os

from vlib import common, cxx, witness, atoms, model
from vlib.common import AU_DIR

PROP = "C01"

# (RA, RB) rep classes
REPS = {"ii": ("int", "int"), "dd": ("double", "double"), "u8": ("uint8_t", "uint8_t"),
        "id": ("int", "double"), "sd": ("int16_t", "double")}

WIDEN_FIRST = {"add", "sub", "eq", "ne", "lt", "le", "gt", "ge", "spaceship", "min", "max", "clamp_v", "clamp_lo", "clamp_hi",
               "p_sub", "p_eq", "p_ne", "p_lt", "p_le", "p_gt", "p_ge", "p_spaceship", "p_plus_q", "q_plus_p", "p_minus_q", "p_min", "p_max",
               "p_clamp_v", "p_clamp_lo", "p_clamp_hi"}

QSETUP = ("auto a = au::make_quantity<A>(RA(1)); auto a2 = au::make_quantity<A>(RA(3)); "
          "auto b = au::make_quantity<B>(RB(2)); (void)a; (void)a2; (void)b;")
PSETUP = ("auto a = au::make_quantity_point<A>(RA(1)); auto a2 = au::make_quantity_point<A>(RA(3)); "
          "auto b = au::make_quantity_point<B>(RB(2)); auto qb = au::make_quantity<B>(RB(2)); "
          "(void)a; (void)a2; (void)b; (void)qb;")

# op: (name, kind, statement(s), direction, options)
#  direction: which conversion the same-dimension twin must make policy-safe:
#   a2b, b2a, common, any (no policy involved), equiv (needs quantity-equivalent unit), inv
#  options: 'int' integral reps only, 'fp' floating only, 'cpp20', 'noeight' (uint8 has no valid twin)
Q_OPS = [
    ("add", "(void)(a + b);", "common", ""),
    ("sub", "(void)(a - b);", "common", ""),
    ("eq", "(void)(a == b);", "common", ""),
    ("ne", "(void)(a != b);", "common", ""),
    ("lt", "(void)(a < b);", "common", ""),
    ("le", "(void)(a <= b);", "common", ""),
    ("gt", "(void)(a > b);", "common", ""),
    ("ge", "(void)(a >= b);", "common", ""),
    ("spaceship", "(void)(a <=> b);", "common", "cpp20"),
    ("mod", "(void)(a % b);", "common", "int noeight"),  # 8-bit `%` is C13's business (narrowing in the same-unit operator)
    ("pluseq", "a += b;", "b2a", ""),
    ("minuseq", "a -= b;", "b2a", ""),
    ("copyinit", "au::Quantity<B, RB> q = a; (void)q;", "a2b", ""),
    ("directinit", "au::Quantity<B, RB> q{a}; (void)q;", "a2b", ""),
    ("assign", "b = a;", "a2b", ""),
    ("as", "(void)a.as(B{});", "a2b_same", ""),
    ("in", "(void)a.in(B{});", "a2b_same", ""),
    ("as_rep", "(void)a.as<RB>(B{});", "any", ""),
    ("in_rep", "(void)a.in<RB>(B{});", "any", ""),
    ("coerce_as", "(void)a.coerce_as(B{});", "any", ""),
    ("coerce_in", "(void)a.coerce_in(B{});", "any", ""),
    ("coerce_as_rep", "(void)a.coerce_as<RB>(B{});", "any", ""),
    ("coerce_in_rep", "(void)a.coerce_in<RB>(B{});", "any", ""),
    ("data_in", "(void)a.data_in(B{});", "equiv", ""),
    ("min", "(void)min(a, b);", "common", ""),
    ("max", "(void)max(a, b);", "common", ""),
    ("clamp_v", "(void)clamp(b, a, a2);", "common", ""),
    ("clamp_lo", "(void)clamp(a, b, a2);", "common", ""),
    ("clamp_hi", "(void)clamp(a, a2, b);", "common", ""),
    ("hypot", "(void)hypot(a, b);", "common", ""),
    ("fmod", "(void)fmod(a, b);", "any", ""),
    ("remainder", "(void)remainder(a, b);", "any", ""),
    ("arctan2", "(void)arctan2(a, b);", "common", ""),
    ("inverse_as", "(void)inverse_as(B{}, a);", "inv", "noeight"),
    ("inverse_in", "(void)inverse_in(B{}, a);", "inv", "noeight"),
    ("inverse_as_rep", "(void)inverse_as<RB>(B{}, a);", "inv", ""),
    ("inverse_in_rep", "(void)inverse_in<RB>(B{}, a);", "inv", ""),
    ("round_as", "(void)round_as(B{}, a);", "any", ""),
    ("round_in", "(void)round_in(B{}, a);", "any", ""),
    ("round_as_rep", "(void)round_as<RB>(B{}, a);", "any", ""),
    ("round_in_rep", "(void)round_in<RB>(B{}, a);", "any", ""),
    ("floor_as", "(void)floor_as(B{}, a);", "any", ""),
    ("floor_in", "(void)floor_in(B{}, a);", "any", ""),
    ("floor_as_rep", "(void)floor_as<RB>(B{}, a);", "any", ""),
    ("floor_in_rep", "(void)floor_in<RB>(B{}, a);", "any", ""),
    ("ceil_as", "(void)ceil_as(B{}, a);", "any", ""),
    ("ceil_in", "(void)ceil_in(B{}, a);", "any", ""),
    ("ceil_as_rep", "(void)ceil_as<RB>(B{}, a);", "any", ""),
    ("ceil_in_rep", "(void)ceil_in<RB>(B{}, a);", "any", ""),
    ("common_type", "typename std::common_type<au::Quantity<A, RA>, au::Quantity<B, RB>>::type q{}; (void)q;", "common", ""),
    ("unit_ratio", "(void)au::unit_ratio(A{}, B{});", "any", ""),
    ("common_unit", "au::CommonUnitT<A, B> u{}; (void)u;", "any", ""),
    ("will_overflow", "(void)au::will_conversion_overflow(a, B{});", "any", ""),
    ("will_truncate", "(void)au::will_conversion_truncate(a, B{});", "any", ""),
    ("is_lossy", "(void)au::is_conversion_lossy(a, B{});", "any", ""),
    ("will_overflow_rep", "(void)au::will_conversion_overflow<RB>(a, B{});", "any", ""),
    ("will_truncate_rep", "(void)au::will_conversion_truncate<RB>(a, B{});", "any", ""),
    ("is_lossy_rep", "(void)au::is_conversion_lossy<RB>(a, B{});", "any", ""),
]

P_OPS = [
    ("p_sub", "(void)(a - b);", "common", ""),
    ("p_eq", "(void)(a == b);", "common", ""),
    ("p_ne", "(void)(a != b);", "common", ""),
    ("p_lt", "(void)(a < b);", "common", ""),
    ("p_le", "(void)(a <= b);", "common", ""),
    ("p_gt", "(void)(a > b);", "common", ""),
    ("p_ge", "(void)(a >= b);", "common", ""),
    ("p_spaceship", "(void)(a <=> b);", "common", "cpp20"),
    ("p_plus_q", "(void)(a + qb);", "common", ""),
    ("q_plus_p", "(void)(qb + a);", "common", ""),
    ("p_minus_q", "(void)(a - qb);", "common", ""),
    ("p_pluseq_q", "a += qb;", "b2a", ""),
    ("p_minuseq_q", "a -= qb;", "b2a", ""),
    ("p_copyinit", "au::QuantityPoint<B, RB> p = a; (void)p;", "a2b", ""),
    ("p_directinit", "au::QuantityPoint<B, RB> p{a}; (void)p;", "a2b", ""),
    ("p_assign", "b = a;", "a2b", ""),
    ("p_as", "(void)a.as(B{});", "a2b_same", ""),
    ("p_in", "(void)a.in(B{});", "a2b_same", ""),
    ("p_as_rep", "(void)a.as<RB>(B{});", "any", ""),
    ("p_in_rep", "(void)a.in<RB>(B{});", "any", ""),
    ("p_coerce_as", "(void)a.coerce_as(B{});", "any", ""),
    ("p_coerce_in", "(void)a.coerce_in(B{});", "any", ""),
    ("p_coerce_as_rep", "(void)a.coerce_as<RB>(B{});", "any", ""),
    ("p_coerce_in_rep", "(void)a.coerce_in<RB>(B{});", "any", ""),
    ("p_data_in", "(void)a.data_in(B{});", "equiv", ""),
    ("p_min", "(void)min(a, b);", "common", ""),
    ("p_max", "(void)max(a, b);", "common", ""),
    ("p_clamp_v", "(void)clamp(b, a, a2);", "common", ""),
    ("p_clamp_lo", "(void)clamp(a, b, a2);", "common", ""),
    ("p_clamp_hi", "(void)clamp(a, a2, b);", "common", ""),
    ("p_round_as", "(void)round_as(B{}, a);", "any", ""),
    ("p_round_in", "(void)round_in(B{}, a);", "any", ""),
    ("p_round_as_rep", "(void)round_as<RB>(B{}, a);", "any", ""),
    ("p_floor_as", "(void)floor_as(B{}, a);", "any", ""),
    ("p_floor_in_rep", "(void)floor_in<RB>(B{}, a);", "any", ""),
    ("p_ceil_as", "(void)ceil_as(B{}, a);", "any", ""),
    ("p_ceil_in_rep", "(void)ceil_in<RB>(B{}, a);", "any", ""),
    ("p_common_point_unit", "au::CommonPointUnitT<A, B> u{}; (void)u;", "any", ""),
]

# Every member operation that takes a unit slot, again through the OTHER access paths and slot
# spellings: the object reached through a const reference (the members are overloaded on constness
# - data_in has four overloads) and the slot filled with a maker instead of a unit object.
def _variants(ops, maker):
    out = []
    for (nm, code, direction, opt) in ops:
        if "a." not in code or "B{}" not in code:
            continue
        c_const = "const auto &ca = a; " + code.replace("a.", "ca.")
        c_maker = code.replace("B{}", "%s<B>{}" % maker)
        out.append((nm + "_const", c_const, direction, opt))
        out.append((nm + "_maker", c_maker, direction, opt))
        out.append((nm + "_const_maker", "const auto &ca = a; " + c_maker.replace("a.", "ca."), direction, opt))
    return out


Q_OPS += _variants([o for o in Q_OPS if o[0] in ("as", "in", "as_rep", "coerce_in", "coerce_as_rep", "data_in")], "au::QuantityMaker")
P_OPS += _variants([o for o in P_OPS if o[0] in ("p_as", "p_in", "p_in_rep", "p_coerce_as", "p_data_in")], "au::QuantityPointMaker")

# Trait-style questions: whole item must compile.  {neg} is '!' for the mismatch, '' for the twin.
SOFT = [
    ("soft_convertible", "static_assert({neg}std::is_convertible<au::Quantity<A, RA>, au::Quantity<B, RB>>::value, \"\");", "a2b"),
    ("soft_constructible", "static_assert({neg}std::is_constructible<au::Quantity<B, RB>, au::Quantity<A, RA>>::value, \"\");", "a2b"),
    ("soft_p_convertible", "static_assert({neg}std::is_convertible<au::QuantityPoint<A, RA>, au::QuantityPoint<B, RB>>::value, \"\");", "a2b"),
    ("soft_p_constructible", "static_assert({neg}std::is_constructible<au::QuantityPoint<B, RB>, au::QuantityPoint<A, RA>>::value, \"\");", "a2b"),
    ("soft_common_type", "static_assert({neg}auv::has_type_member<std::common_type<au::Quantity<A, RA>, au::Quantity<B, RB>>>::value, \"\");", "common"),
    ("soft_overload", "char (&f(au::Quantity<B, RB>))[2]; char (&f(...))[1];\n"
                      "static_assert(sizeof(f(std::declval<au::Quantity<A, RA>>())) == ({neg}true ? 2 : 1), \"\");", "a2b"),
    ("soft_p_overload", "char (&f(au::QuantityPoint<B, RB>))[2]; char (&f(...))[1];\n"
                        "static_assert(sizeof(f(std::declval<au::QuantityPoint<A, RA>>())) == ({neg}true ? 2 : 1), \"\");", "a2b"),
]

# Public two-quantity functions that need no common unit (reason each):
EXEMPT_TWO_QUANTITY = {
    "copysign": "magnitude and sign keep their own units; no common unit is formed (math.hh)",
    "operator*": "products are defined across dimensions (C14)",
    "operator/": "quotients are defined across dimensions (C14)",
    "integer_quotient": "deprecated quotient; defined across dimensions",
}


def covered_function_names():
    names = set()
    for nm, code, d, o in Q_OPS + P_OPS:
        for m in re.finditer(r"\b([a-z_0-9]+)(?:<[^>]*>)?\(", code):
            names.add(m.group(1))
    names |= {"operator+", "operator-", "operator==", "operator!=", "operator<", "operator<=",
              "operator>", "operator>=", "operator<=>", "operator%"}
    return names


def api_surface_rule(ctx):
    """S rule: every function template in quantity.hh / quantity_point.hh / math.hh taking two
    Quantity / QuantityPoint parameters with independent unit parameters is in the operation table
    (or exempt with a reason); otherwise the table is stale -> analysis broken."""
    found = {}
    for fn in ("math.hh", "quantity.hh", "quantity_point.hh"):
        txt = atoms.strip_comments(open(os.path.join(AU_DIR, fn)).read())
        for m in re.finditer(r"template\s*<([^;{}]*?)>\s*(?:\[\[[^\]]*\]\]\s*)?(?:constexpr\s+|inline\s+)*(?:auto|bool|[\w:<>, ]+?)\s+(operator\s*[^\s(]+|\w+)\s*\(([^;{}]*?)\)\s*(?:->[^;{]*)?\{", txt):
            tparams, name, params = m.group(1), re.sub(r"\s+", "", m.group(2)), m.group(3)
            qs = re.findall(r"Quantity(?:Point)?<\s*(\w+)\s*,", params)
            if len(qs) >= 2 and len(set(qs)) >= 2:
                found.setdefault(name, fn)
    cov = covered_function_names()
    missing = [n for n in found if n not in cov and n not in EXEMPT_TWO_QUANTITY]
    ctx.require(len(found) >= 15, "API-surface rule matched only %d two-quantity functions (floor 15)" % len(found))
    ctx.require(not missing, "uncovered two-quantity API function(s) %s: add to C01 operation table" % missing)
    return sorted(found)


class UClass:
    def __init__(self, dim, members):
        self.dim = dim
        self.members = members  # list of (expr, mag) : C++ unit expression (instance), model magnitude


def build_classes(ctx, units, rnd):
    byname = {u.name: u for u in units}
    classes = {}

    def add(expr, dim, mag):
        k = model.key(dim)
        classes.setdefault(k, UClass(dim, [])).members.append((expr, mag))

    for u in units:
        add("au::%s{}" % u.name, u.dim, u.mag)
    # generated: products, quotients, powers, roots, scaled, prefixed
    names = sorted(byname)
    picks = [rnd.choice(names) for _ in range(60)]
    for i in range(0, 48, 2):
        x, y = byname[picks[i]], byname[picks[i + 1]]
        add("(au::%s{} * au::%s{})" % (x.name, y.name), model.mul(x.dim, y.dim), model.mul(x.mag, y.mag))
        add("(au::%s{} / au::%s{})" % (x.name, y.name), model.div(x.dim, y.dim), model.div(x.mag, y.mag))
    for i in range(48, 60):
        x = byname[picks[i]]
        add("au::pow<2>(au::%s{})" % x.name, model.power(x.dim, 2), model.power(x.mag, 2))
        add("au::pow<-1>(au::%s{})" % x.name, model.power(x.dim, -1), model.power(x.mag, -1))
        add("au::root<2>(au::%s{})" % x.name, model.power(x.dim, "1/2"), model.power(x.mag, "1/2"))
        add("(au::%s{} * au::mag<7>() / au::mag<5>())" % x.name, x.dim, model.mul(x.mag, model.mag_from_fraction("7/5")))
        add("au::Kilo<au::%s>{}" % x.name, x.dim, model.mul(x.mag, model.mag_from_fraction(1000)))
        add("au::Kibi<au::%s>{}" % x.name, x.dim, model.mul(x.mag, model.mag_from_fraction(1024)))
    # drop the dimensionless class's degenerate trouble? no: keep (Percent, Unos are real units)
    return [classes[k] for k in sorted(classes, key=lambda k: repr(k))]


def near_miss_pairs(units, rnd, count):
    """Ordered pairs of unit expressions whose dimensions differ in ONE exponent only (the adjacent
    mismatches: a numerator of a rational power, the sign of a power, one extra factor).  A random
    pair of dimension classes practically never lands on these, and they are exactly where a slip in
    the exponent algebra would make two different dimensions look equal."""
    base = [u for u in units if model.key(u.dim) != model.key({})]
    out = []
    fams = [
        ("au::pow<3>(au::root<2>(au::{x}{{}}))", ("x", "3/2"), "au::root<2>(au::Kilo<au::{x}>{{}})", ("x", "1/2")),
        ("au::root<3>(au::pow<2>(au::{x}{{}}))", ("x", "2/3"), "au::root<3>(au::Milli<au::{x}>{{}})", ("x", "1/3")),
        ("au::root<2>(au::pow<-1>(au::{x}{{}}))", ("x", "-1/2"), "au::root<2>(au::{x}{{}})", ("x", "1/2")),
        ("au::pow<5>(au::root<2>(au::{x}{{}}))", ("x", "5/2"), "au::pow<3>(au::root<2>(au::{x}{{}}))", ("x", "3/2")),
        ("au::pow<2>(au::{x}{{}})", ("x", 2), "au::Kilo<au::{x}>{{}}", ("x", 1)),
        ("au::pow<-1>(au::{x}{{}})", ("x", -1), "au::Milli<au::{x}>{{}}", ("x", 1)),
        ("au::pow<3>(au::{x}{{}})", ("x", 3), "au::pow<2>(au::{x}{{}})", ("x", 2)),
        ("au::pow<-2>(au::root<3>(au::{x}{{}}))", ("x", "-2/3"), "au::pow<-1>(au::root<3>(au::{x}{{}}))", ("x", "-1/3")),
        ("au::pow<4>(au::root<3>(au::{x}{{}}))", ("x", "4/3"), "au::root<3>(au::{x}{{}})", ("x", "1/3")),
        ("au::pow<3>(au::root<4>(au::{x}{{}}))", ("x", "3/4"), "au::root<4>(au::{x}{{}})", ("x", "1/4")),
    ]
    for k in range(count):
        fa, (_, pa), fb, (_, pb) = fams[(k + rnd.randrange(len(fams))) % len(fams)] if k >= len(fams) else fams[k]
        x = rnd.choice(base)
        a = (fa.format(x=x.name), model.power(x.dim, pa))
        b = (fb.format(x=x.name), model.power(x.dim, pb))
        if model.key(a[1]) == model.key(b[1]):
            continue
        out.append((a, b) if k % 2 == 0 else (b, a))
    # two-unit families
    for k in range(max(2, count // 3)):
        x, y = rnd.sample(base, 2)
        if model.key(x.dim) == model.key(y.dim) or model.key(x.dim) == model.key(model.inv(y.dim)):
            continue
        two = [
            ("(au::{x}{{}} * au::{y}{{}})", model.mul(x.dim, y.dim), "(au::{x}{{}} / au::{y}{{}})", model.div(x.dim, y.dim)),
            ("(au::root<2>(au::{x}{{}}) * au::{y}{{}})", model.mul(model.power(x.dim, "1/2"), y.dim),
             "(au::{x}{{}} * au::root<2>(au::{y}{{}}))", model.mul(x.dim, model.power(y.dim, "1/2"))),
            ("(au::{x}{{}} * au::pow<2>(au::{y}{{}}))", model.mul(x.dim, model.power(y.dim, 2)),
             "(au::{x}{{}} * au::{y}{{}})", model.mul(x.dim, y.dim)),
        ][k % 3]
        fa, da, fb, db = two
        if model.key(da) == model.key(db):
            continue
        out.append(((fa.format(x=x.name, y=y.name), da), (fb.format(x=x.name, y=y.name), db)))
    return out


def twin_b(direction, ra, rb):
    """C++ definition of the same-dimension twin of A as type B, or None if no valid twin."""
    ra, rb = model.canon(ra), model.canon(rb)
    if direction == "any":
        return "struct B : decltype(A{} * au::mag<3>() / au::mag<7>()) {};"
    if direction == "equiv":
        return "struct B : A {};"
    if direction == "inv":
        # K = 1/(B*A) = 10^6 : passes the integral threshold; any value is fine for explicit-rep / fp
        if model.canon(ra) in ("int16_t", "uint16_t"):
            return None  # the unit-only inverse needs K >= 10^6 in the quantity's own rep: no 16-bit twin
        if model.canon(rb) in ("uint8_t", "int8_t") or model.canon(ra) in ("uint8_t", "int8_t"):
            return "struct B : decltype(au::pow<-1>(A{}) / au::mag<100>()) {};"  # K = 100 fits 8 bits
        return "struct B : decltype(au::pow<-1>(A{}) / au::mag<1000000>()) {};"
    if direction == "a2b_same":
        # unit-only .as/.in keep the source rep: the policy is asked for RA
        tgt = ra
        direction = "a2b"
    else:
        tgt = {"a2b": rb, "b2a": ra, "common": model.common_type(ra, rb)}[direction]
    if model.is_fp(tgt):
        return "struct B : decltype(A{} * au::mag<3>()) {};"
    # integral target
    lo, hi = model.int_range(tgt)
    if 2147 * 3 > hi:
        return "using B = A;"  # only the identity is policy-safe (e.g. 8-bit reps)
    if direction == "a2b":
        src = ra
        if not model.is_int(src):
            return None
        return "struct B : decltype(A{} / au::mag<3>()) {};"
    if direction == "b2a":
        if not model.is_int(rb):
            return None
        return "struct B : decltype(A{} * au::mag<3>()) {};"
    # common
    return "struct B : decltype(A{} * au::mag<3>()) {};"


def body(ctx):
    rnd = random.Random(ctx.seed)
    units = atoms.discover_units(ctx)
    prelude = witness.DEFAULT_PRELUDE + atoms.unit_includes(units)
    prelude += "#if __cplusplus >= 202002L\n#include <compare>\n#endif\n"
    atoms.readout_units(ctx, units, prelude)
    api = api_surface_rule(ctx)
    classes = build_classes(ctx, units, rnd)
    ctx.log("%d library units, %d dimension classes, %d two-quantity API functions covered"
            % (len(units), len(classes), len(api)))
    ctx.require(len(classes) >= 30, "only %d dimension classes (floor 30)" % len(classes))

    pairs = [(i, j) for i in range(len(classes)) for j in range(len(classes)) if i != j]
    if ctx.thorough:
        rnd.shuffle(pairs)
        chosen = pairs[:30]  # x 4 rep classes x ~280 operation forms x 6 configurations: about an hour
        repsel = ["ii", "dd", "u8", "id", "sd"]
    else:
        rnd.shuffle(pairs)
        chosen = pairs[:8]
        repsel = ["ii", "dd", "u8", "id", "sd"]
    configs = cxx.configs_for(ctx.tier)

    items = []
    op_instances = {}
    rot = {}

    def member(ci):
        c = classes[ci]
        k = rot.get(ci, 0)
        rot[ci] = k + 1
        return c.members[k % len(c.members)]

    n = 0
    work = []
    for (i, j) in chosen:
        for rk in repsel:
            ea, ma = member(i)
            eb, mb = member(j)
            work.append((rk, ea, classes[i].dim, eb, classes[j].dim))
    # units that carry an ORIGIN, on either side of a mismatch: asking whether a point of another
    # dimension converts to them must not even try to form "difference + origin displacement"
    withorg = [u for u in units if u.has_origin]
    ctx.require(len(withorg) >= 2, "fewer than two library units with an origin")
    plain = [u for u in units if not u.has_origin and model.key(u.dim) != model.key(withorg[0].dim) and u.dim]
    for k, u in enumerate(withorg):
        o1, o2 = plain[(3 * k) % len(plain)], plain[(3 * k + 1) % len(plain)]
        for rk in (repsel if ctx.thorough else [repsel[k % len(repsel)], "dd"]):
            work.append((rk, "au::%s{}" % o1.name, o1.dim, "au::%s{}" % u.name, u.dim))
            work.append((rk, "au::%s{}" % u.name, u.dim, "au::%s{}" % o2.name, o2.dim))
            work.append((rk, "au::Kilo<au::%s>{}" % o2.name, o2.dim, "au::Milli<au::%s>{}" % u.name, u.dim))
    near = near_miss_pairs(units, rnd, 24 if ctx.thorough else 10)
    ctx.require(len(near) >= (18 if ctx.thorough else 8), "only %d near-miss pairs" % len(near))
    for k, ((ea, da), (eb, db)) in enumerate(near):
        # one rep class per near-miss pair in the quick tier (rotating), all of them in the thorough tier
        for rk in (repsel if ctx.thorough else [repsel[k % len(repsel)]]):
            work.append((rk, ea, da, eb, db))
    seen_work = set()
    if True:
        for (rk, ea, da, eb, db) in work:
            if (rk, ea, eb) in seen_work:
                continue
            seen_work.add((rk, ea, eb))
            ra, rb = REPS[rk]
            head = "using RA = %s; using RB = %s;\nstruct A : decltype(%s) {};\n" % (ra, rb, ea)
            bad_b = "struct B : decltype(%s) {};\n" % eb
            for kind, ops, setup in (("q", Q_OPS, QSETUP), ("p", P_OPS, PSETUP)):
                for (nm, code, direction, opt) in ops:
                    if "int" in opt.split() and not (model.is_int(ra) and model.is_int(rb)):
                        continue
                    stds = {"c++20"} if "cpp20" in opt else None
                    if direction == "inv" and model.key(db) == model.key(model.inv(da)):
                        continue  # B happens to have the inverse dimension: not a mismatch
                    n += 1
                    key = "%s/%s/%s|%s|%s" % (nm, rk, ea, eb, "x")
                    desc = "%s with A=%s (%s) B=%s (%s)" % (code, ea, ra, eb, rb)
                    items.append(witness.Item(
                        "rej:" + key, head + bad_b + "void w() { %s %s }" % (setup, code), "reject",
                        stds, dict(op=nm, desc="dimension mismatch: " + desc)))
                    op_instances[nm] = op_instances.get(nm, 0) + 1
                    if "noeight" in opt and rk == "u8":
                        continue
                    tb = twin_b(direction, ra, rb)
                    if rk == "sd" and nm in WIDEN_FIRST:
                        # these operators bring both operands to the common REP first: a narrow integral
                        # operand that has to be scaled far beyond its own rep is permitted
                        tb = "struct B : decltype(A{} / au::mag<1000000>()) {};"
                    if tb is None:
                        continue
                    items.append(witness.Item(
                        "acc:" + key, head + tb + "\nvoid w() { %s %s }" % (setup, code), "accept",
                        stds, dict(op=nm, desc="same-dimension twin (%s): %s" % (tb, desc))))
            for (nm, code, direction) in SOFT:
                key = "%s/%s/%s|%s" % (nm, rk, ea, eb)
                items.append(witness.Item(
                    "soft:" + key, head + bad_b + code.format(neg="!"), "accept", None,
                    dict(op=nm, desc="trait question must answer 'no' softly: %s A=%s B=%s" % (nm, ea, eb))))
                op_instances[nm] = op_instances.get(nm, 0) + 1
                tb = twin_b(direction, ra, rb)
                if tb is not None and not (nm.startswith("soft_common") and tb == "using B = A;"):
                    items.append(witness.Item(
                        "softyes:" + key, head + tb + "\n" + code.format(neg=""), "accept", None,
                        dict(op=nm, desc="trait question must answer 'yes' for twin %s: %s A=%s" % (tb, nm, ea))))

    # the dimension classes above are read out of the library's own types: tie them to something
    # outside it (the nine aliases are nine different base dimensions; each base unit measures its own)
    items.append(witness.Item("anchor:dimensions", atoms.anchor_code(units), "accept", None,
                              dict(op="anchor", desc="the nine dimension aliases are the nine base dimensions, and each base unit measures its own")))
    all_ops = [o[0] for o in Q_OPS + P_OPS] + [s[0] for s in SOFT]
    zero = [o for o in all_ops if op_instances.get(o, 0) == 0]
    ctx.require(not zero, "operations with zero instances: %s" % zero)
    ctx.require(len(all_ops) >= 60, "operation table shrank below 60 forms")
    ctx.log("%d witnesses (%d class pairs x %d rep classes), %d configs"
            % (len(items), len(chosen), len(repsel), len(configs)))

    results, stats = witness.judge(ctx, items, configs, prelude=prelude, batch=150, tag="c01")
    nbad = witness.report_mismatches(ctx, items, results, prelude=prelude)

    # evidence
    mech = {}
    for it in items:
        if it.expect != "reject":
            continue
        for cn, v in results[it.key].items():
            if v.rejected and v.mech:
                m = v.mech[0].split(": ", 1)[0]
                mech.setdefault(it.meta["op"], {}).setdefault(m, 0)
                mech[it.meta["op"]][m] += 1
    nrej = sum(1 for it in items if it.expect == "reject")
    ctx.coverage.update(dict(
        evaluations=sum(len(v) for v in results.values()),
        distinct_nontrivial=len(items),
        rule="one witness per (operation form x ordered pair of dimension classes x rep class), each "
             "with fresh unit types; 'non-trivial/distinct' = distinct (operation, unit pair, reps, "
             "mismatch|twin|soft) programs; every batch verdict that differs from the expectation is "
             "re-judged alone before it is reported",
        samples=[dict(key=it.key, expect=it.expect, code=it.code,
                      verdicts={cn: ("rejected" if v.rejected else "accepted") for cn, v in results[it.key].items()},
                      mechanism=next((v.mech[0] for v in results[it.key].values() if v.mech), None))
                 for it in rnd.sample(items, 4)],
        exhaustive=False,
        witnesses_expected_reject=nrej,
        witnesses_expected_accept=len(items) - nrej,
        operation_forms=len(all_ops),
        instances_per_operation=op_instances,
        dimension_classes=len(classes),
        class_pairs=len(chosen),
        near_miss_pairs=len(near),
        rep_classes=repsel,
        configs=[c.name for c in configs],
        mechanism_that_rejected=mech,
        two_quantity_api_functions=api,
        engine_stats=stats,
        mismatches=nbad,
    ))
    ctx.assumptions += [
        "clang 14 / g++ 12 front ends decide well-formedness (-fsyntax-only)",
        "model dimension of generated units is computed from atoms read out of the current tree",
        "witness units are per-witness structs derived from the unit expression (same Dim/Mag)",
    ]


def main(argv=None):
    return common.run_check(PROP, "exploration", body, argv)


if __name__ == "__main__":
    sys.exit(main())
