"""C06 - the implicit-conversion safety surface is total and as documented  (W + I).

W  trait table: std::is_convertible / is_constructible / overload resolution / unit-only .as/.in /
   mixed-unit + and < asked on a grid of (R1, R2, unit ratio) straddling every rep's 2147-threshold
   and its maximum, plus non-representable and irrational factors.  Every question must COMPILE
   (totality) and give the documented answer.
I  value clause: for every permitted conversion into an integral rep the IR of the implicit
   conversion is analysed on an exact cell partition of R1's whole range: result == k*x wherever
   nothing overflows, and nothing overflows for |x| <= 2147 that R2 can hold.
"""
import random
import sys
from fractions import Fraction

from vlib import common, cxx, witness, model, ir, dag, cells
from vlib.common import AnalysisBroken

PROP = "C06"
REPS10 = ["int8_t", "uint8_t", "int16_t", "uint16_t", "int32_t", "uint32_t", "int64_t", "uint64_t", "float", "double"]
USING = "".join("using std::%s; " % t for t in REPS10[:8]) + "\n"


class Ratio:
    def __init__(self, name, mag, expr):
        self.name = name  # stable key
        self.mag = mag  # model magnitude of U1/U2
        self.expr = expr  # C++ magnitude expression

    def k(self):
        return model.mag_to_fraction(self.mag) if model.mag_is_rational(self.mag) else None


def mag_cpp(fr):
    fr = Fraction(fr)
    s = "au::mag<%dULL>()" % fr.numerator
    if fr.denominator != 1:
        s += " / au::mag<%dULL>()" % fr.denominator
    return s


def ratio_grid(r2, thorough, rnd):
    out = []

    def addf(fr, tag=None):
        fr = Fraction(fr)
        if fr <= 0:
            return
        nm = tag or ("%d/%d" % (fr.numerator, fr.denominator))
        if fr.numerator >= 1 << 64 or fr.denominator >= 1 << 64:
            return
        out.append(Ratio(nm, model.mag_from_fraction(fr), mag_cpp(fr)))

    for k in (1, 2, 10, 1000):
        addf(k)
        if k > 1:
            addf(Fraction(1, k))
    mx = model.type_max(r2) if model.is_int(r2) else None
    if mx is not None:
        t = int(mx) // 2147
        for d in (-1, 0, 1):
            if t + d >= 1:
                addf(t + d)
        addf(int(mx))
        if int(mx) + 1 < 1 << 64:
            addf(int(mx) + 1)
    addf(Fraction(3, 2))
    addf(Fraction(2, 3))
    addf(Fraction(2 ** 31 - 1, 3))
    if thorough:
        addf(10 ** 6)
        addf(10 ** 12)
        addf(Fraction(1, 10 ** 9))
        addf(Fraction(1000, 7))
        addf(2 ** 40)
        addf(2 ** 63)
    # beyond every integer rep, still a double
    out.append(Ratio("10^30", model.power(model.mag_from_fraction(10), 30), "au::pow<30>(au::mag<10>())"))
    out.append(Ratio("10^-30", model.power(model.mag_from_fraction(10), -30), "au::pow<-30>(au::mag<10>())"))
    # beyond double (and, for the last two, beyond long double): the answers are still "no" / "yes", never a hard error
    out.append(Ratio("10^400", model.power(model.mag_from_fraction(10), 400), "au::pow<400>(au::mag<10>())"))
    out.append(Ratio("10^-400", model.power(model.mag_from_fraction(10), -400), "au::pow<-400>(au::mag<10>())"))
    out.append(Ratio("10^5000", model.power(model.mag_from_fraction(10), 5000), "au::pow<5000>(au::mag<10>())"))
    out.append(Ratio("10^-5000", model.power(model.mag_from_fraction(10), -5000), "au::pow<-5000>(au::mag<10>())"))
    out.append(Ratio("pi", {model.PI_ID: Fraction(1)}, "au::Magnitude<au::Pi>{}"))
    out.append(Ratio("sqrt2", {2: Fraction(1, 2)}, "au::root<2>(au::mag<2>())"))
    seen = set()
    res = []
    for r in out:
        if r.name not in seen:
            seen.add(r.name)
            res.append(r)
    return res


def head(r1, r2, ratio, common=False):
    # For questions that form a common unit, two DISTINCT unit types of identical magnitude must not
    # meet (documented 'broken strict total ordering' limitation): ratio 1 then uses the same type.
    a = "using A = B;" if (common and not ratio.mag) else "struct A : decltype(B{} * (%s)) {};" % ratio.expr
    return ("using R1 = %s; using R2 = %s;\nstruct B : au::UnitImpl<au::Length> {};\n%s\n"
            "using QA = au::Quantity<A, R1>; using QB = au::Quantity<B, R2>;\n" % (r1, r2, a))


def build_items(ctx, rnd):
    items = []
    triples = []
    for r1 in REPS10:
        for r2 in REPS10:
            grid = ratio_grid(r2, ctx.thorough, rnd)
            if not ctx.thorough:
                keep = [g for g in grid if rnd.random() < 0.45 or g.name in ("1", "10^30", "10^400", "10^-400", "10^5000")]
                grid = keep
            for ratio in grid:
                triples.append((r1, r2, ratio))
    for r1, r2, ratio in triples:
        exp = model.implicit_ok(ratio.mag, r1, r2)
        key = "%s->%s@%s" % (r1, r2, ratio.name)
        b = "true" if exp else "false"
        h = head(r1, r2, ratio)
        items.append(witness.Item("conv:" + key, h + "static_assert(std::is_convertible<QA, QB>::value == %s, \"is_convertible\");\n"
                                  "static_assert(std::is_constructible<QB, QA>::value == %s, \"is_constructible\");" % (b, b),
                                  "accept", None, dict(desc="is_convertible<Quantity<A,%s>, Quantity<B,%s>> with A/B = %s must be %s and must not be a hard error" % (r1, r2, ratio.name, b), exp=exp)))
        # (a floating target that cannot even hold the factor has no conversion to speak of: the
        #  predicate is still asked above, the conversion itself is outside the quantifier)
        huge = ratio.name in ("10^400", "10^-400", "10^5000", "10^-5000")
        if not (huge and model.is_fp(r2)):
          items.append(witness.Item("ovl:" + key, h + "char (&f(QB))[2]; char (&f(...))[1];\nstatic_assert(sizeof(f(std::declval<QA>())) == %d, \"overload resolution\");" % (2 if exp else 1),
                                  "accept", None, dict(desc="overload resolution f(Quantity<B,%s>) vs fallback with a Quantity<A,%s>, A/B = %s" % (r2, r1, ratio.name), exp=exp)))
          # copy-initialisation compiles iff predicate
          items.append(witness.Item("init:" + key, h + "void w() { QA a = au::make_quantity<A>(R1{1}); QB b = a; (void)b; }",
                                  "accept" if exp else "reject", None, dict(desc="copy-initialisation Quantity<B,%s> = Quantity<A,%s>, A/B = %s" % (r2, r1, ratio.name), exp=exp)))
        if r1 == r2 and not (huge and model.is_fp(r1)):
            e2 = model.implicit_ok(ratio.mag, r1, r1)
            # one witness per access path: a reject witness with two statements is satisfied by either
            for nm_, call in (("as", "a.as(B{})"), ("in", "a.in(B{})"), ("as_maker", "a.as(au::QuantityMaker<B>{})"), ("in_maker", "a.in(au::QuantityMaker<B>{})")):
                items.append(witness.Item("%s:%s" % (nm_, key), h + "void w() { QA a = au::make_quantity<A>(R1{1}); (void)%s; }" % call,
                                          "accept" if e2 else "reject", None, dict(desc="unit-only `%s` with rep %s, A/B = %s" % (call, r1, ratio.name), exp=e2)))
        # mixed-unit + and < : both operands must be implicitly convertible to the common type
        if model.mag_is_rational(ratio.mag) and not (huge and model.is_fp(model.common_type(r1, r2))):
            rc = model.common_type(r1, r2)
            cm = model.common_mag(ratio.mag, {})
            ka, kb = model.div(ratio.mag, cm), model.div({}, cm)
            e3 = model.implicit_ok(ka, rc, rc) and model.implicit_ok(kb, rc, rc)
            hc = head(r1, r2, ratio, common=True)
            for onm, oex in (("add", "a + b"), ("sub", "b - a"), ("lt", "a < b"), ("eq", "a == b"), ("ge", "b >= a")):
                items.append(witness.Item("mixed:%s:%s" % (onm, key), hc + "void w() { QA a = au::make_quantity<A>(R1{1}); QB b = au::make_quantity<B>(R2{1}); (void)(%s); }" % oex,
                                          "accept" if e3 else "reject", None, dict(desc="mixed-unit `%s` between Quantity<A,%s> and Quantity<B,%s>, A/B = %s (common rep %s)" % (oex, r1, r2, ratio.name, rc), exp=e3)))
            items.append(witness.Item("ct:" + key, hc + "static_assert(std::is_same<typename std::common_type_t<QA, QB>::Rep, std::common_type_t<R1, R2>>::value, \"common_type rep\");",
                                      "accept", None, dict(desc="std::common_type of the two quantity types exists", exp=True)))
        # points with equal origins follow the same predicate; the question must at least compile
        items.append(witness.Item("pt:" + key, h + "using PA = au::QuantityPoint<A, R1>; using PB = au::QuantityPoint<B, R2>;\n"
                                  "static_assert(std::is_convertible<PA, PB>::value == %s, \"point is_convertible\");\n"
                                  "static_assert(std::is_constructible<PB, PA>::value == %s, \"point is_constructible\");" % (b, b),
                                  "accept", None, dict(desc="is_convertible<QuantityPoint<A,%s>, QuantityPoint<B,%s>> (equal origins), A/B = %s must be %s, no hard error" % (r1, r2, ratio.name, b), exp=exp)))
    # "exactly when the dimensions match": the same ratios between units of ANOTHER dimension - in
    # particular ratio 1, where the integer-promotion carve-out applies - must answer no, softly
    for r1 in REPS10:
        for r2 in sorted({r1, "int64_t", "uint8_t", "double"}):
            for nm, mg in (("1", "au::mag<1>()"), ("1000", "au::mag<1000>()"), ("1/1000", "au::mag<1>() / au::mag<1000>()")):
                h = ("using R1 = %s; using R2 = %s;\nstruct B : au::UnitImpl<au::Length> {};\nstruct A : decltype(au::UnitImpl<au::Time>{} * (%s)) {};\n"
                     "using QA = au::Quantity<A, R1>; using QB = au::Quantity<B, R2>; using PA = au::QuantityPoint<A, R1>; using PB = au::QuantityPoint<B, R2>;\n" % (r1, r2, mg))
                items.append(witness.Item("otherdim:%s->%s@%s" % (r1, r2, nm), h +
                                          "static_assert(!std::is_convertible<QA, QB>::value && !std::is_constructible<QB, QA>::value, \"quantity\");\n"
                                          "static_assert(!std::is_convertible<PA, PB>::value && !std::is_constructible<PB, PA>::value, \"point\");\n"
                                          "char (&f(QB))[2]; char (&f(...))[1];\nstatic_assert(sizeof(f(std::declval<QA>())) == 1, \"overload resolution\");",
                                          "accept", None, dict(desc="Quantity / QuantityPoint of another dimension (Time -> Length), reps %s -> %s, magnitude ratio %s: not convertible, not constructible, fallback overload chosen, no hard error" % (r1, r2, nm), exp=False)))
    # documented point examples with different origins (quantity_point.hh)
    doc = [
        ("au::QuantityPoint<au::Milli<au::Meters>, int>", "au::QuantityPoint<au::Meters, int>", False),
        ("au::QuantityPoint<au::Kilo<au::Meters>, int>", "au::QuantityPoint<au::Meters, int>", True),
        ("au::QuantityPoint<au::Celsius, int>", "au::QuantityPoint<au::Kelvins, int>", False),
        ("au::QuantityPoint<au::Celsius, int>", "au::QuantityPoint<au::Kelvins, double>", True),
        ("au::QuantityPoint<au::Celsius, int>", "au::QuantityPoint<au::Milli<au::Kelvins>, int>", True),
        ("au::QuantityPoint<au::Celsius, uint8_t>", "au::QuantityPoint<au::Milli<au::Kelvins>, uint8_t>", False),
        ("au::QuantityPoint<au::Kelvins, int>", "au::QuantityPoint<au::Celsius, int>", False),
        ("au::QuantityPoint<au::Kelvins, double>", "au::QuantityPoint<au::Fahrenheit, float>", True),
        ("au::QuantityPoint<au::Fahrenheit, int>", "au::QuantityPoint<au::Celsius, int>", False),
    ]
    for a, b, e in doc:
        items.append(witness.Item("ptdoc:%s->%s" % (a, b), "static_assert(std::is_convertible<%s, %s>::value == %s, \"documented point example\");" % (a, b, "true" if e else "false"),
                                  "accept", None, dict(desc="documented point conversion %s -> %s is %s" % (a, b, e), exp=e)))
    return items, triples


def value_clause(ctx, triples, rnd):
    permitted = [(r1, r2, ra) for (r1, r2, ra) in triples
                 if model.is_int(r2) and model.is_int(r1) and model.implicit_ok(ra.mag, r1, r2)]
    if not ctx.thorough:
        permitted = rnd.sample(permitted, min(len(permitted), 120))
    chunks = [permitted[i:i + 40] for i in range(0, len(permitted), 40)]
    nob = [0, 0]
    ncell = [0]
    samples = []

    def do(arg):
        ci, chunk = arg
        lines = ["#include <cstdint>", '#include "au/au.hh"', USING]
        for k, (r1, r2, ra) in enumerate(chunk):
            lines.append("struct VB%d : au::UnitImpl<au::Length> {}; struct VA%d : decltype(VB%d{} * (%s)) {};" % (k, k, k, ra.expr))
            lines.append('extern "C" %s imp_%d(%s x) { au::Quantity<VB%d, %s> q = au::make_quantity<VA%d>(x); return q.in(VB%d{}); }'
                         % (r2, k, r1, k, r2, k, k))
        path, se = ir.build_ir(ctx, "\n".join(lines) + "\n", "c06v%d" % ci)
        if path is None:
            raise AnalysisBroken("value-clause TU does not compile: %s" % se[-600:])
        mod = ir.parse_module(path, only=lambda n: n.startswith("imp_"))
        out = []
        for k, (r1, r2, ra) in enumerate(chunk):
            kk = int(ra.k())
            d = dag.build(mod.funcs["imp_%d" % k], mod)
            b1, s1 = model.INT_TYPES[r1]
            b2, s2 = model.INT_TYPES[r2]
            lo, hi = model.int_range(r1)
            part = cells.analyse({"v": d.ret}, lo, hi, ret_views={"v": (b2, s2)}, arith={"v": d.arith})
            rc = model.common_type(r1, r2)
            pc = model.promote(rc)

            def ok(x):
                clo, chi = model.int_range(rc)
                plo, phi = model.int_range(pc)
                tlo, thi = model.int_range(r2)
                return clo <= x <= chi and plo <= kk * x <= phi and tlo <= kk * x <= thi

            res = []
            for cell, r in part:
                v = r["v"]
                if r.get("!v") is not None and not isinstance(v, cells.Bad):
                    v = r["!v"]
                f, l = cell.first(), cell.last()
                key = "value:%s->%s@%s" % (r1, r2, ra.name)
                if isinstance(v, cells.Form):
                    good = (Fraction(v.at(f)) == kk * f and Fraction(v.at(l)) == kk * l and (v.kind == "aff" or f == l))
                    if not good:
                        res.append((key, f, "permitted implicit conversion %s -> %s with factor %d returns %s for x=%d (form %r), expected %d" % (r1, r2, kk, v.at(f), f, v, kk * f)))
                    elif not (ok(f) and ok(l)):
                        pass  # defined and exact although the model expected an overflow: harmless (never happens)
                elif isinstance(v, cells.Bad):
                    # must be a genuine overflow, and never inside the guaranteed window
                    for x in (f, l):
                        if ok(x):
                            res.append((key, x, "permitted implicit conversion %s -> %s with factor %d: %s at %s for x=%d although %d*x=%d fits every step"
                                        % (r1, r2, kk, v.kind, mod.where(v.node.dbg) if v.node is not None and v.node.dbg else "?", x, kk, kk * x)))
                            break
                        if abs(x) <= 2147 and model.int_range(r2)[0] <= x <= model.int_range(r2)[1]:
                            res.append((key, x, "permitted implicit conversion %s -> %s with factor %d overflows for x=%d, a value of magnitude <= 2147 that %s can hold" % (r1, r2, kk, x, r2)))
                            break
                else:
                    raise AnalysisBroken("%s: not analysable on %r: %r" % (key, cell, v))
            out.append((len(part), res, (r1, r2, ra.name, kk)))
        return out

    findings = []
    for out in cxx.pmap(do, list(enumerate(chunks))):
        for ncells, res, info in out:
            nob[0] += ncells
            nob[1] += ncells - (1 if res else 0)
            findings += res
            if len(samples) < 3:
                samples.append(dict(conversion="%s -> %s, k=%d" % (info[0], info[1], info[3]), cells=ncells))
    for key, x, what in findings:
        ctx.violation(key, what, "example x=%s (one member of the offending cell; the analysis covers every value of the source rep)" % x)
    return dict(permitted_integral_conversions=len(permitted), cells=nob[0], samples=samples), nob


def body(ctx):
    rnd = random.Random(ctx.seed)
    configs = cxx.configs_for(ctx.tier)
    prelude = witness.DEFAULT_PRELUDE + USING + '#include "au/units/meters.hh"\n#include "au/units/celsius.hh"\n#include "au/units/kelvins.hh"\n#include "au/units/fahrenheit.hh"\n'
    items, triples = build_items(ctx, rnd)
    ctx.log("%d (R1,R2,ratio) triples, %d witness items" % (len(triples), len(items)))
    ctx.require(len(triples) >= 500, "grid shrank: %d triples" % len(triples))
    results, stats = witness.judge(ctx, items, configs, prelude=prelude, batch=160, tag="c06")
    nbad = witness.report_mismatches(ctx, items, results, prelude=prelude)
    ctx.log("W: %d mismatching items" % nbad)
    vstats, nob = value_clause(ctx, triples, rnd)
    ctx.log("I: %s" % {k: v for k, v in vstats.items() if k != "samples"})
    ntrue = sum(1 for it in items if it.key.startswith("conv:") and it.meta["exp"])
    ctx.coverage.update(dict(
        evaluations=len(items) * len(configs) + nob[0], distinct_nontrivial=len(items) + vstats["permitted_integral_conversions"],
        rule="W: one program per (question kind, R1, R2, unit ratio) with fresh unit types; ratios straddle floor(max(R2)/2147) and max(R2), "
             "include reciprocals, general rationals, 10^30, pi, sqrt(2).  I: one IR wrapper per permitted integral conversion, cells over all of R1.",
        samples=[dict(key=items[0].key, code=items[0].code), dict(key=items[2].key, expect=items[2].expect)] + vstats["samples"],
        exhaustive=False, triples=len(triples), convertible_true=ntrue, convertible_false=len(triples) - ntrue,
        w_items=len(items), w_mismatches=nbad, configs=[c.name for c in configs], engine_stats=stats,
        value_clause=dict(vstats, obligations=nob[0], discharged=nob[1])))
    ctx.assumptions += ["the documented predicate (2147 threshold, integer factor, k=1 carve-out) is the reading of the statement",
                        "value clause: source as lowered by clang 14 on x86-64"]


def main(argv=None):
    return common.run_check(PROP, "exploration", body, argv)


if __name__ == "__main__":
    sys.exit(main())
