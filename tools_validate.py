#!/usr/bin/env python3-vt
"""Developer helper: validate MANIFEST.json and evidence/*.json against the harness schemas."""
import json, sys, glob, jsonschema
ms = json.load(open('/root/.vp/MANIFEST.schema.json'))
es = json.load(open('/root/.vp/EVIDENCE.schema.json'))
m = json.load(open('/verif/MANIFEST.json'))
jsonschema.validate(m, ms)
print('MANIFEST ok:', len(m['checks']), 'checks;', len(m.get('not_applicable', [])), 'not applicable')
ok = True
for f in sorted(glob.glob('/verif/evidence/*.json')):
    try:
        jsonschema.validate(json.load(open(f)), es)
        print('evidence ok:', f)
    except Exception as e:
        ok = False
        print('evidence INVALID:', f, str(e)[:300])
sys.exit(0 if ok else 1)
