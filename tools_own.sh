#!/bin/bash
# Developer helper: every seeded change against the check of the property it was aimed at.
cd "$(dirname "$0")"
for d in seeded/C*; do
  p=$(python3 -c "import json;print(json.load(open('$d/meta.json'))['property'])")
  python3 tools_seeded.py checks $d $p 2>&1 | sed "s|^|$(basename $d) |" | cut -c1-200
done
