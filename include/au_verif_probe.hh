// Verif-side probe templates.  They use only the vocabulary the documentation itself uses
// (BaseT, ExpT, Pow, RatioPow, Prime, Pi, Dimension, Magnitude, detail::DimT, detail::MagT).
// Nothing here is compiled into /repo; witness TUs include it with -I/verif/include.
#pragma once

#include <cstddef>
#include <cstdint>
#include <ratio>
#include <type_traits>

#include "au/au.hh"

namespace auv {

// A pack serialised as (count, then triples id/num/den).  Read by the driver from the LLVM IR
// initialiser of a global, or compared inside a static_assert.
constexpr int MAXB = 20;
struct Dump {
    std::uint64_t n;
    std::uint64_t id[MAXB];
    std::int64_t num[MAXB];
    std::int64_t den[MAXB];
};

template <std::uintmax_t N>
constexpr std::uint64_t base_id(au::Prime<N>) {
    return N;
}
constexpr std::uint64_t base_id(au::Pi) { return 0u; }
template <typename B>
constexpr auto base_id(B) -> decltype(static_cast<std::uint64_t>(B::base_dim_index)) {
    return static_cast<std::uint64_t>(B::base_dim_index);
}

template <template <class...> class Pack, typename... BPs>
constexpr Dump dump(Pack<BPs...>) {
    static_assert(sizeof...(BPs) <= MAXB, "pack too long for auv::Dump");
    Dump r{};
    r.n = sizeof...(BPs);
    const std::uint64_t ids[] = {base_id(au::BaseT<BPs>{})..., 0u};
    const std::int64_t nums[] = {au::ExpT<BPs>::num..., 0};
    const std::int64_t dens[] = {au::ExpT<BPs>::den..., 0};
    for (std::size_t i = 0; i < sizeof...(BPs); ++i) {
        r.id[i] = ids[i];
        r.num[i] = nums[i];
        r.den[i] = dens[i];
    }
    return r;
}

// Flat form: v[0] = count, then id/num/den triples.  One array => one IR initialiser list.
struct Flat {
    std::uint64_t v[1 + 3 * MAXB];
};
constexpr Flat flat(const Dump &d) {
    Flat f{};
    f.v[0] = d.n;
    for (std::size_t i = 0; i < d.n; ++i) {
        f.v[1 + 3 * i] = d.id[i];
        f.v[2 + 3 * i] = static_cast<std::uint64_t>(d.num[i]);
        f.v[3 + 3 * i] = static_cast<std::uint64_t>(d.den[i]);
    }
    return f;
}

template <typename U>
constexpr Dump dim_of() {
    return dump(au::detail::DimT<U>{});
}
template <typename U>
constexpr Dump mag_of() {
    return dump(au::detail::MagT<U>{});
}

// Origin of a unit as (integer value, unit it is expressed in); ZERO origin => value 0, unitless.
template <typename T>
struct OrigDump {
    static constexpr bool is_zero = false;
    static constexpr bool integral = std::is_integral<typename T::Rep>::value;
    using Unit = typename T::Unit;
    static constexpr long long val(T t) { return static_cast<long long>(t.in(T::unit)); }
};
template <>
struct OrigDump<au::Zero> {
    static constexpr bool is_zero = true;
    static constexpr bool integral = true;
    using Unit = au::UnitProductT<>;
    static constexpr long long val(au::Zero) { return 0; }
};
template <typename U>
using OriginT = std::decay_t<decltype(au::detail::OriginOf<U>::value())>;
template <typename U>
constexpr long long origin_val() {
    return OrigDump<OriginT<U>>::val(au::detail::OriginOf<U>::value());
}
template <typename U>
constexpr Flat origin_unit_mag() {
    return flat(mag_of<typename OrigDump<OriginT<U>>::Unit>());
}
template <typename U>
constexpr bool origin_is_integral() {
    return OrigDump<OriginT<U>>::integral;
}

// Equality with an expected serialisation given as a flat list id,num,den,...
template <std::size_t K>
constexpr bool same(const Dump &d, const std::int64_t (&flat)[K]) {
    // flat[0] is a dummy (so that empty packs still have a non-empty array)
    if (d.n * 3 + 1 != K) return false;
    for (std::size_t i = 0; i < d.n; ++i) {
        if (d.id[i] != static_cast<std::uint64_t>(flat[1 + 3 * i])) return false;
        if (d.num[i] != flat[2 + 3 * i]) return false;
        if (d.den[i] != flat[3 + 3 * i]) return false;
    }
    return true;
}

template <std::size_t N, std::size_t M>
constexpr bool streq(const char (&a)[N], const char (&b)[M]) {
    if (N != M) return false;
    for (std::size_t i = 0; i < N; ++i) {
        if (a[i] != b[i]) return false;
    }
    return true;
}

// Fixed-size copy of a label so that it can be read out of an IR initialiser.
constexpr int MAXL = 256;
struct Text {
    std::uint64_t size;  // sizeof of the array (length + 1)
    char s[MAXL];
};
template <std::size_t N>
constexpr Text text(const char (&a)[N]) {
    static_assert(N <= MAXL, "label too long for auv::Text");
    Text t{};
    t.size = N;
    for (std::size_t i = 0; i < N; ++i) t.s[i] = a[i];
    return t;
}

// Detection idiom for `typename T::type`.
template <typename... Ts>
struct make_void {
    using type = void;
};
template <typename T, typename = void>
struct has_type_member : std::false_type {};
template <typename T>
struct has_type_member<T, typename make_void<typename T::type>::type> : std::true_type {};

struct Fallback {
    template <typename T>
    constexpr Fallback(const T &) {}
};

// m * 2^e in T by repeated exact doubling / halving (hex-float literals are C++17; every
// intermediate is a multiple of the exactly representable result, hence exact itself).
template <typename T>
constexpr T ld(unsigned long long m, int e) {
    T r = static_cast<T>(m);
    for (; e > 0; --e) r *= T(2);
    for (; e < 0; ++e) r /= T(2);
    return r;
}
}  // namespace auv
