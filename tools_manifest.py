#!/usr/bin/env python3
"""Developer helper: regenerates MANIFEST.json from the table below (keeps it schema-valid)."""
import json
import os

HERE = os.path.dirname(os.path.abspath(__file__))

TRUST_W = ("clang 14 and g++ 12 front ends (template instantiation, constant evaluation, "
           "diagnostics); the exact model in vlib/model.py; documented semantics in docs/")
TRUST_I = ("clang 14 lowering of C++ arithmetic to LLVM IR on x86-64 (promotion, nsw, conversions); "
           "LLVM SROA / inliner / SimplifyCFG preserve semantics; the IR parser and abstract domains "
           "in vlib/ (self-tested against brute force on 8-bit types)")

CHECKS = {
    "C01": dict(
        category="exploration",
        text="Compile-fail witnesses: every operation form of the statement x ordered pairs of "
             "dimension classes (library units grouped by model dimension + generated compound / "
             "powered / rooted / scaled / prefixed units) x 4 rep classes is generated as its own "
             "program with fresh unit types and must be rejected by clang++ and g++; the "
             "same-dimension twin chosen to satisfy the documented policy must be accepted; trait "
             "questions must compile and say 'no'.  Ill-formedness is exactly what the compiler "
             "decides, so the front end is the right judge; enumeration is bounded (sampled class "
             "pairs in quick, 400 pairs x 6 configurations in thorough).",
        design_ref="3.1", technique="generated compile-fail witness programs judged by clang++/g++ -fsyntax-only",
        note=TRUST_W, engine="W"),
    "C02": dict(
        category="exploration",
        text="Seeded expression trees (product, quotient, pow<-4..4>, root<2|3>, scaling by integer / rational magnitudes, the 32 prefixes) "
             "over all library units discovered on each run: the dimension and magnitude exponents read out of the resulting type through probe "
             "templates equal the exact algebraic model; every available spelling (quantity makers, singular names, symbols, constants, type "
             "traits) denotes the same unit type; three random algebraic rewrites (re-ordering, re-grouping, split powers) of every pure tree are "
             "the identical type; are_units_quantity_equivalent and unit_ratio agree with model equality / quotient on equal, near (factor 7/6, "
             "exponent 1/6) and different pairs.  The premise of canonicalisation - that the three orderings are strict total orders - is checked "
             "on extracted pairwise tables (base dimensions, magnitude bases incl. pi and 64-bit primes, ~85 unit-like types quick / ~250 "
             "thorough) with the documented collision pairs excluded and shown to be rejected.  400 trees quick, 8000 (depth 4) thorough.",
        design_ref="3.2", technique="static_assert witness programs with exponent read-out against an exact algebraic model + extracted ordering tables",
        note=TRUST_W, engine="W"),
    "C03": dict(
        category="proof",
        text="Per instance (integral rep T, reduced factor N/D; grid of library unit ratios, powers of 2/10, "
             "values straddling the limits of T and of its promoted type, large primes, seeded coprime pairs) the "
             "IR of coerce_in / coerce_as and of is_conversion_lossy is analysed on an exact partition of T's whole "
             "value range into cells (interval x congruence class) on which every guard is decided and every value "
             "is a monotone quasi-affine form of x.  Obligation per cell where the checker clears: every arithmetic "
             "instruction of the conversion (dead ones included) stays in range - no signed overflow, no unsigned "
             "wrap, value-preserving narrowing - and the result is exactly x*N/D.  All 2^8..2^64 inputs of each "
             "instance are covered; instances are enumerated, not all (T,N,D).",
        design_ref="3.3", technique="abstract interpretation of LLVM IR (interval x congruence cells, affine forms) against a closed-form model",
        note=TRUST_I, engine="I"),
    "C04": dict(
        category="proof",
        text="Same instances and cell partition as C03.  Per cell: the set flagged by will_conversion_truncate equals "
             "{x : D does not divide x*N}; the set flagged by will_conversion_overflow equals the closed-form set "
             "{x*N outside the promoted type or x*N/D outside T} computed with exact integers; is_conversion_lossy is "
             "the disjunction; and every flagged exact input really leaves a range in the conversion IR (so no "
             "exact, computable conversion is reported lossy).  This is the all-values statement per instance, by "
             "monotone end-point reasoning rather than by a solver.  Floating reps (float, double x integer, rational and pi factors): on an "
             "exact partition of ALL finite values (intervals of ordinals) an unflagged value never scales to infinity and a flagged value is "
             "never more than 2^-20 (relative) below the largest finite value; truncation is never reported.",
        design_ref="3.4", technique="exact cell extraction of checker predicates from LLVM IR compared with closed-form sets",
        note=TRUST_I, engine="I"),
    "C05": dict(
        category="proof",
        text="Per (source rep, target rep, factor) over all ordered pairs of the 10 standard reps x integer / reciprocal / rational / pi factors: "
             "integral sources - exact integer cell partition of the whole source range: is_conversion_lossy<T> false => every arithmetic and "
             "cast instruction of coerce_in<T> / as<T> (dead ones included) is defined and in range and the result is exactly x*N/D; overflow "
             "flagged => x, x*N or x*N/D really leaves the common, promoted or target range (closed form); lossy == overflow || truncate; "
             "rep_cast == coerce_in in the same unit.  Floating sources - exact partition of ALL finite values of the source type (intervals of "
             "ordinals x integrality class of the scaled value) plus NaN, +inf, -inf, with IEEE rounding modelled on exact rationals: not lossy => "
             "the float-to-int cast operand is castable / the narrowing float cast finite; NaN and infinities are lossy for integral targets; the "
             "converted value is the cast of the very value the checkers examined, which is one correctly rounded scaling by the model factor.  "
             "Integral -> floating: structure and constant only (documented convention).  long double is not analysed at IR level.",
        design_ref="3.5", technique="abstract interpretation of LLVM IR over integer cells and floating-point ordinal cells with an exact-rational IEEE rounding model",
        note=TRUST_I, engine="I"),
    "C06": dict(
        category="exploration",
        text="(W) For all 100 ordered pairs of the 10 standard reps x unit ratios straddling floor(max(R2)/2147) and max(R2), reciprocals, "
             "general rationals, 10^+-30, pi and sqrt(2): is_convertible / is_constructible (quantities and equal-origin points), an "
             "overload-resolution probe, copy-initialisation, unit-only .as/.in, mixed-unit + < == and std::common_type are each their own "
             "program and must compile (totality: a hard error is a violation) and answer exactly the documented predicate; documented "
             "point examples with different origins are asserted.  (I) every permitted conversion into an integral rep is lowered to IR "
             "and analysed on an exact cell partition of the whole source range: result == k*x on every cell where no step overflows, "
             "overflow only where k*x really leaves a range, never for |x| <= 2147 that R2 can hold.  Sampled grid in quick, full in thorough.",
        design_ref="3.6", technique="static_assert / compile-fail witness programs against the documented predicate + cell analysis of LLVM IR for the value clause",
        note=TRUST_W + "; " + TRUST_I, engine="W+I"),
    "C08": dict(
        category="proof",
        text="Per wrapper (operator x rep pair of equal signedness or floating x unit pair with integer, reciprocal and general rational "
             "ratios), with k1, k2 the model's integer ratios to the gcd unit and Rc the common rep: every comparison's IR DAG is evaluated "
             "over the abstract orderings {lt,eq,gt(,unordered)} of the two atoms k1*x and k2*y and must have the operator's truth table; "
             "the atoms must be exactly those affine forms, built only from value-preserving extensions, one multiplication each and (for "
             "sub-int Rc) the narrowing back to Rc, compared with predicates of Rc's promoted signedness; + and - have the affine form "
             "k1*x +- k2*y, % is srem/urem of the atoms; C++20 <=> is analysed the same way in a C++20 TU.  Hence the only premises are "
             "'k1*x, k2*y (and the sum) fit Rc', and consistency/antisymmetry/transitivity follow.  For floating reps the constants are "
             "checked to be k within 1 ulp and the operations plain IEEE ones; closeness of sums under cancellation is not decided.",
        design_ref="3.8", technique="affine-form extraction and ordering truth tables over LLVM IR DAGs against model gcd-unit ratios",
        note=TRUST_I + "; " + TRUST_W, engine="I+W"),
    "C09": dict(
        category="proof",
        text="Point units are modelled as (size, position of zero): library temperature units read out of the current tree, generated units "
             "with rational scale and rational origin by construction.  Conversions (coerce_in<T>, as<T>.in) for integral reps are analysed on an "
             "exact cell partition of the whole source range: on every cell where the true result is representable the IR's quasi-affine form "
             "must be trunc((x*m1 + o1 - o2)/m2) with truncation only at the end, and undefined behaviour may only occur where some intermediate "
             "really is large; floating conversions are checked as the real affine form of an at-most-4-operation IEEE chain with correctly "
             "rounded constants.  p - p', p +- q and q + p have the exact two-variable affine form in the result unit read out of the type (origin "
             "borrowed from the point); the six comparisons have the operator's truth table over the orderings of two atoms that are the two "
             "positions on one common scale.  Compile-fail witnesses cover the non-affine forms named in the statement.",
        design_ref="3.9", technique="cell analysis / affine forms / ordering truth tables over LLVM IR against an (m, o) model + compile-fail witnesses",
        note=TRUST_I + "; " + TRUST_W, engine="I+W"),
    "C07": dict(
        category="exploration",
        text="One generated program per seeded list of 2-4 same-dimension units (library units, named and anonymous scaled units with "
             "numerators / denominators below 2^40, pi and root factors): every input/common ratio is an integer, the common unit's magnitude "
             "read out of the type equals the model's gcd magnitude (base-wise minimum exponent = 'largest'), the type is identical under every "
             "permutation and repetition, an input that already is the gcd unit is the result, nesting is quantity-equivalent, irrational lists "
             "still have a symmetric result, std::common_type of quantities is Quantity<CommonUnitT, common rep> in both orders.  Lists with two "
             "distinct named units of identical magnitude are excluded as documented.  400 lists quick, 3000 thorough, both compilers.",
        design_ref="3.7", technique="static_assert witness programs with type read-out against an exact gcd-magnitude model",
        note=TRUST_W, engine="W"),
    "C10": dict(
        category="exploration",
        text="Seeded pairs and triples of point units (Kelvins / Celsius / Fahrenheit and prefixed forms read out of the tree, generated units "
             "with rational size and rational origin, positive / zero / negative, expressed in another unit): size and origin of "
             "CommonPointUnitT are read out of the type by constant extraction; for every input the model decides exactly that size ratio is a "
             "positive integer and the offset a non-negative integer; static_asserts tie the read-out to the library's own conversion and "
             "origin_displacement, and assert identity under every permutation / repetition and that an input with the common size and origin "
             "is the result.  Maximality is not demanded (the statement does not).",
        design_ref="3.10", technique="constant extraction from clang IR + exact rational model + static_assert witness programs",
        note=TRUST_W, engine="W"),
    "C11": dict(
        category="exploration",
        text="Decided for every base and exponent (inferred inductive loop invariant + relational obligations over the IR): checked_int_pow in the two integral types get_value evaluates in never wraps, overflows or divides by zero.  Explored: (magnitude, type) pairs over primes up to 2^64-59, the bounded rational exponent set, pi, integers max-1 / max / max+1 of every "
             "integral type and the floating limits (2^emax, smallest normal / denormal, below the denormals, powers of ten around the FLT/DBL "
             "limits) x 8 integral + 3 floating types: representable_in, get_value_result's outcome and value are extracted from clang's constant "
             "evaluator and compared with exact integer and 400-bit real arithmetic (integral: exact; floating: strictly positive and within 4 ulp, "
             "wider tolerance stated for long double); accepted values are re-asserted on g++, refused ones are compile-fail witnesses for "
             "get_value; is_integer, is_rational, numerator, denominator, integer_part, canonical exponents and equality are asserted per "
             "magnitude.  These functions are only ever used in constant expressions, so the constant evaluator's answer is their behaviour.",
        design_ref="3.11", technique="constant extraction from clang IR initialisers + compile-fail witnesses against exact big-number arithmetic; loop-invariant inference (Houdini over template candidates) with relational obligations for checked_int_pow",
        note=TRUST_W + "; " + TRUST_I, engine="W+I"),
    "C12": dict(
        category="exploration",
        text="PARTIAL.  Decided for every 64-bit operand (proof, relational analysis with path partitioning over the IR of the "
             "functions): add_mod (under the weaker precondition a <= n that mul_mod's own call relies on), sub_mod and half_mod_odd never wrap in "
             "an operation that contributes to the result, return a value in [0, n), and that value is a+b / a+b-n, a-b / a-b+n, resp. r with "
             "2r = a or a+n.  mul_mod is decided for every operand triple with a < n, b < n by induction over its recursion: no unsigned wrap, no division by zero, the recursive call meets the same precondition with the same modulus and a strictly smaller first operand, the result lies in [0, n) and result - a*b is a polynomial multiple of n (products / quotients by non-constants are terms constrained by axioms that hold for all non-negative integers).  pow_mod under n >= 2: an inductive loop invariant is inferred under which every mul_mod call meets its precondition and the result lies in [0, n) - that it equals base^exp is not decided.  Also decided (typestate rule on find_prime_factor's own IR, no inlining): every value that can reach its `ret` traces "
             "back, through phis / selects / casts, to an entry of the table of first primes (entries checked to be exactly the first primes), "
             "to a recursive result, to a value on an edge reachable only through a true is_prime(value), or to n chosen because p*p > n inside "
             "the trial division - never to an unchecked result of the rho search.  A second rule of the same kind for divisibility: every value find_prime_factor and find_pollard_rho_factor can return traces to n itself, to gcd(n, .), to a table entry on an edge taken only when n % p == 0, or to the factor finder applied to such a value (gcd's own contract assumed); and a product rule over the whole primality call tree (28 functions): no multiplication of two unbounded run-time values outside mul_mod.  Explored, not decided: the statement's consequence clause, which is about types - decltype(mag<N>()) is the canonical "
             "factorisation, mag<a>()*mag<b>() is mag<a*b>(), Prime<N> of a composite N is refused - as programs that must / must not build, "
             "for adversarial and seeded N with factorisations from independent Python integer arithmetic (strong base-2 pseudoprimes incl. those "
             "without a factor below 541, strong Lucas pseudoprimes, Carmichael numbers, prime squares / cubes, semiprimes with factors next to "
             "2^16 / 2^31 / 2^32, primes next to 2^k up to 2^64-59).  No value of is_prime / find_prime_factor / mul_mod / pow_mod is asserted "
             "directly and is_prime / find_prime_factor are not decided for every 64-bit input (no static argument in reach bounds Baillie-PSW or Pollard rho); the "
             "thorough tier widens the sample, it does not enumerate n < 2^26.",
        design_ref="3.12", technique="polyhedral (linear-inequality) relational analysis of LLVM IR with path partitioning, product / quotient terms under integer-arithmetic axioms, call summaries (induction over the recursion), inferred loop invariant, entailment by Fourier-Motzkin; typestate (primality-evidence) rule over the CFG of find_prime_factor; compile-time witness programs against exact integer arithmetic",
        note=TRUST_W + "; " + TRUST_I + "; vlib/linrel.py (Fourier-Motzkin over the rationals is sound for entailment)", engine="I+W"),
    "C13": dict(
        category="proof",
        text="(S) AST shape rule on the primary templates au::Quantity / au::QuantityPoint - exactly one non-static data "
             "member, no base, no virtual, no user-provided copy/move/destructor, no specialisation - from which size, "
             "alignment, standard layout and triviality follow for EVERY U and R by the language rules; confirmed (W) by "
             "static_asserts on all library units + generated compound units x 11 reps, incl. default construction.  "
             "(I) unit(x).in(unit) and its spellings have the parameter itself as returned SSA value (identity on every "
             "bit pattern); each same-unit operator's normalised DAG equals the DAG of the raw operator compiled next to "
             "it (10 reps; long double at W level only) and (W) has the raw operator's result type and is accepted by "
             "both compilers with narrowing treated alike.",
        design_ref="3.13", technique="clang-query AST shape rule + static_assert witness programs + DAG equality of LLVM IR against raw-operator reference",
        note=TRUST_W + "; " + TRUST_I, engine="S+W+I"),
    "C20": dict(
        category="exploration",
        text="Structural necessary conditions for 'single file == header tree' over every non-test header (include guard, header "
             "set == exported CMake lists, project includes in the exact form the generator recognises / unconditional / "
             "resolvable / acyclic, no macro definitions or position-dependent preprocessor features, fwd header first and every "
             "forward-declared record defined (clang-query), every conditional block in a reviewed table); every header compiled "
             "alone, twice, and all together in seeded random orders under each configuration; the generator is run as a build step "
             "for seeded unit/constant selections x io/noio and its output compiled with an empty include path, included twice, and "
             "in two TUs linked at IR level; an API-surface TU lowered against the single file and against the tree, and under "
             "C++14/17/20, must give identical normalised IR DAGs per function.  Bounded by the seeded selections and the "
             "hand-written API surface; g++/clang run-time equality is decided only as equal accept/reject.  Constant-expression parity: "
             "one use per public operation inside a constant expression, judged under all six configurations and required to be accepted or "
             "refused alike; the table is tied to the API by a coverage rule (the public constexpr members of Quantity / QuantityPoint / "
             "Constant / Zero and the constexpr free functions of namespace au are read from the tree with clang-query; one without an entry, "
             "or without a stated excuse, fails the check as analysis-broken).  Link-level parity across standards: every public static constexpr "
             "data member is paired with its namespace-scope definition (clang-query inventory over all headers; before C++17 an ODR-use "
             "needs one), and a C++14 -O0 IR module binding the documented members to references must define every au:: global it "
             "references.  Name collisions with the growing standard library: every function of namespace au whose name std also declares "
             "(asked of the compilers) is called under `using namespace std; using namespace au;` with identical and mixed operand types "
             "and must be accepted under all six configurations (std::clamp arrived in C++17).",
        design_ref="3.20", technique="tree / preprocessor / include-graph / clang-query rules + compile matrix + IR DAG identity between packagings and standards",
        note=TRUST_W + "; tools/bin/make-single-file run as a build step; " + TRUST_I, engine="S+W+I"),
    "C14": dict(
        category="exploration",
        text="(W) per (unit pair from the library + generated cancelling pairs, rep pair): decltype of q1*q2 and q1/q2 is the raw arithmetic type "
             "exactly when the model product/quotient is dimensionless with magnitude 1, otherwise a Quantity whose unit's dimension and magnitude "
             "exponents (read out through probe templates) equal the model and whose rep is decltype(raw op); int_pow<-4..4>, sqrt, cbrt, 1/q units "
             "and reps likewise; witness pairs for the integer-division guard (rejected / accepted with unblock_int_div / equivalent units / "
             "floating reps) and as_raw_number (dimensionless and policy-safe only, identity on numbers).  (I) per (operation, unit pair, rep pair) "
             "the IR DAG of the Au expression equals that of the raw operator or std function compiled next to it.  int_pow's value is not decided.",
        design_ref="3.14", technique="static_assert / compile-fail witness programs against the exponent model + DAG equality of LLVM IR with raw operators",
        note=TRUST_W + "; " + TRUST_I, engine="W+I"),
    "C15": dict(
        category="proof",
        text="Rounding family: per (ratio incl. pi/180, source rep, round|floor|ceil, _in|_as, unit-only|<OutputRep>, quantity|point) the IR must be "
             "the std function - in the floating type std::round works in for that rep - applied to an affine floating conversion of x whose "
             "coefficient (and, for points, offset) equals the model's exact value in the target unit up to the rounding of its constants, computed "
             "in that type with no integer or narrowing step; so the inequalities of the statement hold as far as they hold for the std function on "
             "the correctly converted value (that residual and libm's own error are not decided).  Inversion: explicit-rep forms are cast(K / x) with K "
             "the exact conversion constant; unit-only forms are accepted exactly when the rep is floating (and K representable) or K is an "
             "integer >= 10^6 that fits, over SI-prefixed (time, frequency) pairs x 6 reps as compile-fail witness pairs; n -> K/(K/n) == n for "
             "n = 1..1000 is evaluated arithmetically for every accepted K.  sin/cos/tan apply the std function to the value in radians in the "
             "promoted type; hypot/fmod/remainder/arctan2 to both values in the common unit; min/max (same and mixed units), abs, copysign, isnan "
             "equal the std function compiled alongside (DAG equality or equality under every ordering of the arguments); clamp is decided over all "
             "orderings of its three arguments; result units and the angle guard are witnesses.  Same-unit max differs from std::max for NaN / "
             "signed zero: recorded known finding.",
        design_ref="3.15", technique="DAG / real-affine-form analysis of LLVM IR against model ratios and std reference functions + compile-fail witnesses + exhaustive arithmetic on the proven form",
        note=TRUST_I + "; " + TRUST_W, engine="I+W"),
    "C16": dict(
        category="exploration",
        text="The library's constants (discovered from au/constants/, units read out of the tree) and generated constants (compound, scaled, "
             "huge-prime, pi, unitless) x target units whose exact ratio straddles every type's maximum (and rationals, pi, 10^+-30, 10^309, "
             "2^-200) x 11 types: can_store_value_in<T>(u) is extracted from clang's constant evaluator and must equal exact representability; "
             "iff representable, in<T>/as<T>/implicit conversion compile and give exactly the model value (4 ulp window for floating T), otherwise "
             "each form is a compile-fail witness.  Products / quotients / powers with magnitudes, units, makers, singular names and other "
             "constants have the model unit; (I) multiplying or dividing numbers and quantities by a constant is the identity dataflow on the "
             "stored number; forbidden forms (C / int, C / integral quantity, with points) are witnesses.",
        design_ref="3.16", technique="constant extraction + static_assert / compile-fail witness programs against exact arithmetic + identity-dataflow check on LLVM IR",
        note=TRUST_W + "; " + TRUST_I, engine="W+I"),
    "C17": dict(
        category="exploration",
        text="(W) per (rep, period): as_quantity's unit exponents == seconds x period, rep and count kept; as_chrono_duration and the implicit "
             "conversions return the same rep and reduced period; on the C06 ratio grid is_convertible<duration, Q> == is_convertible<corresponding "
             "quantity, Q> == documented predicate, in both directions.  (I) duration -> quantity -> duration returns the parameter itself (identity "
             "dataflow); mixed duration/quantity comparisons, sums and differences (both operand orders) are compared with chrono's own operator "
             "compiled in the same TU: structurally equal DAGs, or equal affine forms / truth tables over the orderings of atoms on one scale with "
             "Au's multipliers dividing chrono's (so Au overflows no earlier).  Divergence for NaN counts is a recorded known finding.",
        design_ref="3.17", technique="static_assert witness programs + DAG / affine / truth-table comparison of LLVM IR against libstdc++ chrono as reference",
        note=TRUST_W + "; " + TRUST_I + "; libstdc++ 12 <chrono>", engine="W+I"),
    "C18": dict(
        category="exploration",
        text="Label text and sizeof of seeded unit expression trees (labelled and unlabelled atoms, integer / rational / irrational scalings, "
             "negative and fractional exponents, the 32 prefixes, nested products) are extracted from the constant evaluator and compared - up to "
             "the order of factors, which the grammar does not fix - with a model of the documented grammar (a * b, a / b with parentheses, 1 / x, "
             "x^n, x^(-n), x^(n/d), [k u], [(n / d) u], prefix symbol + label, generic markers); NUL termination and size == length + 1; the texts "
             "are re-asserted on g++.  Own-label rule: every unit-like record of au/units (S) plus generated named units derived from scaled units "
             "must print their own label or the generic marker, never a base unit's; prefix x unit labels; EQUIV{...} labels of common units; "
             "IToA / UIToA on boundary and seeded 64-bit integers.  Streaming: the IR of operator<< for quantities and points (10 reps) must call, "
             "in order, a numeric ostream inserter on the (promoted) stored value - never a character inserter -, the string \" \", then the "
             "label array of the unit ('@(' ... ')' around it for points).",
        design_ref="3.18", technique="constant extraction + grammar model + static_assert witnesses + source scan of unit records + call-sequence analysis of LLVM IR",
        note=TRUST_W + "; " + TRUST_I + "; libstdc++ ostream inserter symbol names", engine="W+S+I"),
    "C19": dict(
        category="proof",
        text="(I) for 10 reps x sampled library and generated units, every comparison with ZERO (both orders) and q+-ZERO / "
             "ZERO+-q has the same normalised IR DAG as the raw `x op R{0}`, so NaN, infinities and -0.0 behave exactly as the "
             "raw operation; (W) Quantity(ZERO), copy-init, conversion to every arithmetic type and chrono durations, "
             "ZERO op ZERO, min/max/clamp are constant-evaluated for all library units x 11 reps; compile-fail witnesses "
             "show ZERO is rejected in every listed position where a quantity point is required.",
        design_ref="3.19", technique="DAG equality of LLVM IR against raw reference + static_assert / compile-fail witness programs",
        note=TRUST_W + "; " + TRUST_I, engine="W+I"),
}

NOT_YET = {
}

NOT_APPLICABLE = {}


def main():
    props = [json.loads(l)["id"] for l in open(os.path.join(HERE, "properties.jsonl"))]
    checks = []
    na = []
    for pid in props:
        if pid in CHECKS:
            c = CHECKS[pid]
            checks.append(dict(
                property_id=pid,
                quick_cmd="bin/check %s --tier quick" % pid,
                thorough_cmd="bin/check %s --tier thorough" % pid,
                evidence_file="evidence/%s.json" % pid,
                replay_cmd_template="bin/check %s --replay {path}" % pid,
                engine=c["engine"],
                level_claimed=dict(category=c["category"], text=c["text"], design_ref=c["design_ref"]),
                level_note=c["note"],
                technique=c["technique"],
            ))
        elif pid in NOT_APPLICABLE:
            na.append(dict(property_id=pid, reason=NOT_APPLICABLE[pid]))
        else:
            na.append(dict(property_id=pid, reason=NOT_YET.get(
                pid, "check not built yet in this commit (static-analysis plan in DESIGN.md section 3); "
                     "not claimed until its checker exists and is validated both ways")))
    man = dict(
        version=1,
        setup_cmd="python3 -m compileall -q vlib checks bin/check && python3 bin/selfprobe",
        hooks=dict(
            guard="AU_VERIF",
            enable="no hooks are compiled into /repo; witness TUs add -I/verif/include (probe templates live in /verif)",
            baseline_off_cmd="cmake --build /repo/_build -j16 && ctest --test-dir /repo/_build -j8 --timeout 900",
            source_commits=[],
            add_only=True,
        ),
        engines=[
            dict(name="W", path="vlib/witness.py", serves_properties=[p for p in props if p in CHECKS and "W" in CHECKS[p]["engine"]],
                 kind_free_text="generated witness programs (compile-fail witnesses, static_assert obligations, constant extraction from IR initialisers) judged by clang++/g++ front ends"),
            dict(name="I", path="vlib/absint.py", serves_properties=[p for p in props if p in CHECKS and "I" in CHECKS[p]["engine"]],
                 kind_free_text="abstract interpretation (cells, interval x congruence, affine forms, expression DAG) of the LLVM IR clang emits for the library's real template instantiations"),
            dict(name="S", path="vlib/srclint.py", serves_properties=[p for p in props if p in CHECKS and "S" in CHECKS[p]["engine"]],
                 kind_free_text="structural rules over the source tree, preprocessor directives, include graph and clang-query AST matches"),
        ],
        checks=checks,
        not_applicable=na,
        notes="Static analysis only: nothing built from /repo is executed.  See DESIGN.md.",
    )
    with open(os.path.join(HERE, "MANIFEST.json"), "w") as f:
        json.dump(man, f, indent=1)
        f.write("\n")
    print("wrote MANIFEST.json: %d checks, %d not applicable/not yet" % (len(checks), len(na)))


if __name__ == "__main__":
    main()
