#!/bin/bash
# developer helper: run registered checks under several seeds; prints one line per run
ids="${IDS:-C01 C03 C04 C06 C13 C19 C20}"
for s in ${SEEDS:-1 2 3 4 5}; do for c in $ids; do
  out=$(VERIF_SEED=$s bin/check $c --tier ${TIER:-quick} 2>&1); rc=$?
  echo "seed=$s $c rc=$rc $(echo "$out" | grep -E 'done:|BROKEN' | tail -1)"
  if [ $rc -ne 0 ]; then echo "$out" | grep -E "^VIOL|what:" | head -6; fi
done; done
