"""Truth tables of Boolean DAGs over the abstract orderings {lt, eq, gt, (un)} of two atoms.

"Values touched only through comparisons": a wrapper that compares two scaled operands is decided
by evaluating its DAG under each of the three (four with NaN) orderings of the two atoms."""
from . import dag
from .common import AnalysisBroken

ORD_INT = ("lt", "eq", "gt")
ORD_FP = ("lt", "eq", "gt", "un")


class NotDecidable(Exception):
    pass


def truth_icmp(pred, o, swapped):
    """truth of `A pred B` under ordering o of (A,B); swapped: the node compares (B, A)."""
    if swapped:
        o = {"lt": "gt", "gt": "lt"}.get(o, o)
    p = pred[1:] if pred not in ("eq", "ne") else pred
    return {"eq": o == "eq", "ne": o != "eq", "lt": o == "lt", "le": o in ("lt", "eq")}[p]


def truth_fcmp(pred, o, swapped):
    if swapped:
        o = {"lt": "gt", "gt": "lt"}.get(o, o)
    un = o == "un"
    base = {"eq": o == "eq", "ne": o in ("lt", "gt"), "lt": o == "lt", "le": o in ("lt", "eq"),
            "gt": o == "gt", "ge": o in ("gt", "eq")}
    if pred == "ord":
        return not un
    if pred == "uno":
        return un
    kind, p = pred[0], pred[1:]
    if kind == "o":
        return (not un) and base[p]
    return un or base[p]


def evaluate(node, o, classify, memo=None):
    """classify(node) -> 'A' | 'B' | None.  Returns an int."""
    memo = {} if memo is None else memo
    k = id(node)
    if k in memo:
        return memo[k]
    r = _ev(node, o, classify, memo)
    memo[k] = r
    return r


def _ev(n, o, classify, memo):
    op = n.op
    if op == "const":
        if n.ty in dag.INT_BITS:
            return n.cval()
        raise NotDecidable("fp const in boolean context")
    if op in ("icmp", "fcmp"):
        ca, cb = classify(n.args[0]), classify(n.args[1])
        if {ca, cb} == {"A", "B"}:
            sw = ca == "B"
            return int(truth_icmp(n.attr, o, sw) if op == "icmp" else truth_fcmp(n.attr, o, sw))
        if op == "fcmp":
            if ca == cb and ca in ("A", "B"):
                # x ? x : ordered iff not NaN -- only reachable in the 'un' world; treat conservatively
                raise NotDecidable("self comparison of an atom")
            raise NotDecidable("fcmp of non-atoms: %s" % n.pretty()[:120])
        a = evaluate(n.args[0], o, classify, memo)
        b = evaluate(n.args[1], o, classify, memo)
        ty = n.args[0].ty
        if n.attr[0] == "s":
            a, b = dag.as_signed(a, ty), dag.as_signed(b, ty)
        return int({"eq": a == b, "ne": a != b, "slt": a < b, "sle": a <= b, "ult": a < b, "ule": a <= b}[n.attr])
    if op == "select":
        c = evaluate(n.args[0], o, classify, memo)
        return evaluate(n.args[1] if c else n.args[2], o, classify, memo)
    if op in ("and", "or") and n.ty == "i1":
        a = evaluate(n.args[0], o, classify, memo)
        if op == "and" and not a:
            return 0
        if op == "or" and a:
            return 1
        return evaluate(n.args[1], o, classify, memo)
    if op == "not":
        return 1 - evaluate(n.args[0], o, classify, memo)
    if op in ("zext", "sext", "trunc"):
        v = evaluate(n.args[0], o, classify, memo)
        if op == "sext":
            v = dag.as_signed(v, n.args[0].ty)
        return dag.wrap_int(v, n.ty)
    if op in ("add", "sub", "mul", "xor", "and", "or") and n.ty in dag.INT_BITS:
        a = evaluate(n.args[0], o, classify, memo)
        b = evaluate(n.args[1], o, classify, memo)
        r = {"add": a + b, "sub": a - b, "mul": a * b, "xor": a ^ b, "and": a & b, "or": a | b}[op]
        return dag.wrap_int(r, n.ty)
    raise NotDecidable("node %s outside the comparison fragment" % n.pretty()[:120])


def table(node, classify, fp=False):
    return tuple(evaluate(node, o, classify) for o in (ORD_FP if fp else ORD_INT))
