"""Engine W: generated witness programs judged by the compiler front ends (-fsyntax-only).

An Item is a piece of namespace-scope C++ (its own namespace is added by the engine) with an
expected verdict.  Items are batched into TUs; every error is attributed to the item whose line
range contains a TU location of the error's context chain.  Any item whose batch verdict differs
from the expectation is recompiled ALONE; only the solo verdict is reported.
"""
import os
import re
import sys

from . import cxx
from .common import AnalysisBroken

DEFAULT_PRELUDE = """\
#include <type_traits>
#include <cstdint>
#include <chrono>
#include <limits>
#include "au/au.hh"
#include "au/io.hh"
#include "au/math.hh"
#include "au/constant.hh"
#include "au_verif_probe.hh"
using namespace au;
"""


class Item:
    __slots__ = ("key", "code", "expect", "stds", "meta", "ns")

    def __init__(self, key, code, expect, stds=None, meta=None):
        assert expect in ("accept", "reject")
        self.key = key
        self.code = code
        self.expect = expect
        self.stds = stds  # None = all, else set like {'c++20'}
        self.meta = meta or {}
        self.ns = None
        if expect == "reject" and os.environ.get("VERIF_LINT_WITNESSES"):
            # developer lint: a must-not-compile witness with several candidate statements is satisfied by
            # any one of them being refused
            m = re.search(r"void w\(\) \{(.*)\}\s*$", code, re.S)
            body = m.group(1) if m else ""
            n = len(re.findall(r"\(void\)", body)) + len(re.findall(r"[^=!<>]=[^=]", re.sub(r"\b(auto|[A-Z]\w*|const \w+)\s+\w+\s*=[^;]*;", "", body)))
            if n >= 2:
                sys.stderr.write("LINT multi-statement reject witness %s: %s\n" % (key, body.strip()[:200]))


CONTROL_REJECT = ("template <class T> struct CtlBad { static_assert(sizeof(T) == 0, \"ctl\"); };\n"
                  "void w() { (void)sizeof(CtlBad<int>); }")
CONTROL_ACCEPT = "static_assert(sizeof(int) >= 2, \"ctl\");\nvoid w() { (void)(1 + 1); }"


class Verdict:
    __slots__ = ("rejected", "mech", "solo")

    def __init__(self, rejected, mech, solo=False):
        self.rejected = rejected
        self.mech = mech  # list of "file:line: msg" (first few)
        self.solo = solo


def _render(prelude, items):
    """Returns text and {item index: (first_line, last_line)}."""
    lines = prelude.rstrip("\n").split("\n")
    ranges = []
    for i, it in enumerate(items):
        ns = "w%d" % i
        it.ns = ns
        lines.append("namespace %s {" % ns)
        start = len(lines) + 1
        body = it.code.rstrip("\n").split("\n")
        lines.extend(body)
        end = len(lines)
        lines.append("}  // %s" % ns)
        ranges.append((start - 1, end + 1))  # include namespace open/close lines
    return "\n".join(lines) + "\n", ranges


def _compile_batch(cfg, path, items, ranges):
    rc, diags, se = cxx.compile_syntax(cfg, path)
    per = {i: [] for i in range(len(items))}
    unattributed = []
    for d in diags:
        hit = set()
        for l in d.tu_lines(path):
            for i, (a, b) in enumerate(ranges):
                if a <= l <= b:
                    hit.add(i)
        if not hit:
            unattributed.append(d)
        for i in hit:
            per[i].append(d)
    return per, unattributed


def _short(d):
    f = d.file
    if "/au/code/" in f:
        f = f.split("/au/code/", 1)[1]
    return "%s:%d: %s" % (f, d.line, d.msg[:140])


def judge(ctx, items, configs, prelude=DEFAULT_PRELUDE, batch=120, tag="w"):
    """Returns {item.key: {config.name: Verdict}}.  Adds positive controls to every batch."""
    wd = ctx.sub("W_" + tag)
    keys = set()
    for it in items:
        if it.key in keys:
            raise AnalysisBroken("duplicate witness key %s" % it.key)
        keys.add(it.key)
    jobs = []
    for cfg in configs:
        sel = [it for it in items if it.stds is None or cfg.std in it.stds]
        for bi in range(0, len(sel), batch):
            chunk = sel[bi:bi + batch]
            jobs.append((cfg, bi // batch, chunk))

    def do(job):
        cfg, bno, chunk = job
        ctl = [Item("__ctl_reject", CONTROL_REJECT, "reject"),
               Item("__ctl_accept", CONTROL_ACCEPT, "accept")]
        # copies, because ns is per render
        mine = [Item(x.key, x.code, x.expect, x.stds, x.meta) for x in chunk] + ctl
        text, ranges = _render(prelude, mine)
        path = os.path.join(wd, "%s_%s_%s_%d.cc" % (tag, cfg.cc.replace("+", "p"), cfg.std.replace("+", "p"), bno))
        with open(path, "w") as f:
            f.write(text)
        per, unatt = _compile_batch(cfg, path, mine, ranges)
        n = len(mine)
        if not per[n - 2] or per[n - 1]:
            # the batch was not judged to its end (e.g. a fatal error stopped the front end) or
            # attribution failed: nothing from this batch is believed, every item is re-judged alone
            return cfg, {it.key: None for it in mine[:-2]}, len(unatt), [_short(d) for d in unatt[:3]]
        res = {}
        for i, it in enumerate(mine[:-2]):
            ds = per[i]
            res[it.key] = Verdict(bool(ds), [_short(d) for d in ds[:3]])
        return cfg, res, len(unatt), [_short(d) for d in unatt[:3]]

    out = {it.key: {} for it in items}
    unatt_total = 0
    unatt_samples = []
    for cfg, res, nun, uns in cxx.pmap(do, jobs):
        unatt_total += nun
        unatt_samples += ["%s: %s" % (cfg.name, u) for u in uns]
        for k, v in res.items():
            out[k][cfg.name] = v
    # solo re-check of every mismatch
    bykey = {it.key: it for it in items}
    solo_jobs = []
    nbroken_batches = 0
    for k, per in out.items():
        it = bykey[k]
        for cn, v in per.items():
            if v is None or v.rejected != (it.expect == "reject"):
                solo_jobs.append((k, cn))
    unjudged = [(k, cn) for (k, cn) in solo_jobs if out[k][cn] is None]
    if len(unjudged) > max(400, len(items)):
        raise AnalysisBroken("%d witnesses need a solo re-judgement (batches not judged to their end?)" % len(unjudged))
    cfgmap = {c.name: c for c in configs}

    def solo(job):
        k, cn = job
        return k, cn, judge_solo(ctx, bykey[k], cfgmap[cn], prelude, wd, tag)

    # every unjudged witness is judged alone; of the judged mismatches the first SOLO_CAP are
    # confirmed alone, and the rest only if none of those was confirmed (a change that breaks
    # hundreds of witnesses is reported through the first SOLO_CAP, not through all of them)
    mism = [j for j in solo_jobs if out[j[0]][j[1]] is not None]
    first, rest = mism[:SOLO_CAP], mism[SOLO_CAP:]
    confirmed = 0
    for k, cn, v in cxx.pmap(solo, unjudged + first):
        out[k][cn] = v
        if v.rejected != (bykey[k].expect == "reject"):
            confirmed += 1
    skipped = 0
    if rest and confirmed:
        skipped = len(rest)
        for k, cn in rest:
            exp = bykey[k].expect == "reject"
            out[k][cn] = Verdict(exp, ["(batch verdict disagreed; not re-judged alone: %d other mismatches were confirmed first)" % confirmed], solo=False)
    else:
        for k, cn, v in cxx.pmap(solo, rest):
            out[k][cn] = v
    stats = dict(programs=len(jobs), witnesses=len(items), configs=[c.name for c in configs],
                 solo_rechecks=len(solo_jobs) - skipped, mismatches_not_rejudged=skipped, unattributed_errors=unatt_total,
                 unattributed_samples=unatt_samples[:5])
    return out, stats


_solo_n = [0]
SOLO_CAP = 300


def judge_solo(ctx, it, cfg, prelude=DEFAULT_PRELUDE, wd=None, tag="w"):
    wd = wd or ctx.sub("W_" + tag)
    _solo_n[0] += 1
    mine = [Item(it.key, it.code, it.expect, it.stds, it.meta)]
    text, ranges = _render(prelude, mine)
    path = os.path.join(wd, "%s_solo_%d_%s_%s.cc" % (tag, _solo_n[0], cfg.cc.replace("+", "p"), cfg.std.replace("+", "p")))
    with open(path, "w") as f:
        f.write(text)
    rc, diags, se = cxx.compile_syntax(cfg, path)
    if rc != 0 and not any(dd.tu_lines(path) for dd in diags):
        # rejected, but no error mentions the witness itself: the prelude / library is broken
        raise AnalysisBroken("solo witness %s rejected by %s with errors outside the witness: %s"
                             % (it.key, cfg.name, _short(diags[0]) if diags else se[-300:]))
    return Verdict(rc != 0, [_short(d) for d in diags[:4]], solo=True)


def render_solo(it, prelude=DEFAULT_PRELUDE):
    mine = [Item(it.key, it.code, it.expect, it.stds, it.meta)]
    text, _ = _render(prelude, mine)
    return text


def report_mismatches(ctx, items, results, prelude=DEFAULT_PRELUDE, describe=None):
    """Turns solo-confirmed mismatches into violations.  Returns number of mismatching items."""
    n = 0
    for it in items:
        bad = []
        for cn, v in sorted(results[it.key].items()):
            if v.rejected != (it.expect == "reject"):
                bad.append((cn, v))
        if not bad:
            continue
        n += 1
        cfgs = ", ".join(cn for cn, _ in bad)
        what = ("program expected to be %sED is %s by %s: %s"
                % (it.expect.upper(), "accepted" if it.expect == "reject" else "rejected", cfgs,
                   (describe(it) if describe else it.meta.get("desc", it.key))))
        detail = "witness:\n" + it.code + "\n"
        for cn, v in bad:
            for m in v.mech:
                detail += "%s: %s\n" % (cn, m)
        art = ("// replay: compile with  <cc> -std=<std> -fsyntax-only -I/repo/au/code -I/verif/include\n"
               "// expected: %s ; observed otherwise under: %s\n" % (it.expect, cfgs)) + render_solo(it, prelude)
        ctx.violation(it.key, what, detail, art, ext="cc")
    return n
