"""Engine I, part 4: exact partition analysis of functions of ONE floating-point parameter.

The finite values of the parameter's type are totally ordered; a cell is an interval of them (by
ordinal), optionally tagged with the class 'I' / 'NI' of a distinguished intermediate value being
integral / non-integral, plus the three special cells NaN, +inf, -inf.  Every floating value in the
DAG is a monotone function of x (IEEE operations with constants, correctly rounded - modelled with
exact rationals), so a comparison against a constant is decided on a cell by its two end points and
split by bisection over ordinals otherwise.  No enumeration of values.
"""
import struct
from fractions import Fraction

from . import dag, model
from .common import AnalysisBroken

FMT = {"float": (24, -125, 128, 32), "double": (53, -1021, 1024, 64)}
INF, NINF, NAN = "inf", "-inf", "nan"


def fp_round(v, t):
    """Round an exact rational to type t (nearest-even); overflow gives +-inf."""
    if v in (INF, NINF, NAN):
        return v
    if v == 0:
        return Fraction(0)
    prec, emin, emax, _ = FMT[t]
    s = -1 if v < 0 else 1
    a = abs(v)
    e = a.numerator.bit_length() - a.denominator.bit_length()
    while Fraction(2) ** e <= a:
        e += 1
    while Fraction(2) ** (e - 1) > a:
        e -= 1
    e = max(e, emin)
    ulp = Fraction(2) ** (e - prec)
    q = a / ulp
    n = q.numerator // q.denominator
    rem = q - n
    if rem > Fraction(1, 2) or (rem == Fraction(1, 2) and n % 2 == 1):
        n += 1
    r = n * ulp
    if r >= Fraction(2) ** emax:
        return INF if s > 0 else NINF
    return s * r


def fmax(t):
    prec, emin, emax, _ = FMT[t]
    return (Fraction(2) ** prec - 1) * Fraction(2) ** (emax - prec)


def n_finite(t):
    """Number of non-negative finite values (ordinals 0..n-1); negative ordinals mirror them."""
    prec, emin, emax, bits = FMT[t]
    expbits = bits - prec
    return ((1 << expbits) - 1) << (prec - 1)


def ord_to_val(o, t):
    """Ordinal -> exact value: ordinal k >= 0 is the k-th non-negative finite value (0 = +0.0)."""
    prec, emin, emax, bits = FMT[t]
    s = -1 if o < 0 else 1
    k = abs(o)
    mant_bits = prec - 1
    e = k >> mant_bits
    m = k & ((1 << mant_bits) - 1)
    if e == 0:
        v = Fraction(m) * Fraction(2) ** (emin - prec)
    else:
        v = Fraction((1 << mant_bits) | m) * Fraction(2) ** (e - 1 + emin - prec)
    return s * v


def val_to_ord(v, t):
    """Exact representable value -> ordinal."""
    prec, emin, emax, bits = FMT[t]
    if v == 0:
        return 0
    s = -1 if v < 0 else 1
    a = abs(v)
    mant_bits = prec - 1
    sub = Fraction(2) ** (emin - 1)
    if a < sub:
        k = int(a / Fraction(2) ** (emin - prec))
    else:
        e = a.numerator.bit_length() - a.denominator.bit_length()
        while Fraction(2) ** e <= a:
            e += 1
        while Fraction(2) ** (e - 1) > a:
            e -= 1
        frac = a / Fraction(2) ** (e - 1)  # in [1,2)
        m = int((frac - 1) * (1 << mant_bits))
        k = ((e - emin + 1) << mant_bits) | m
    return s * k


class FCell:
    __slots__ = ("lo", "hi", "cls", "special")

    def __init__(self, lo=None, hi=None, cls=None, special=None):
        self.lo, self.hi, self.cls, self.special = lo, hi, cls, special

    def __repr__(self):
        if self.special:
            return "{%s}" % self.special
        return "ord[%d, %d]%s" % (self.lo, self.hi, "" if self.cls is None else " class " + self.cls)


class Split(Exception):
    def __init__(self, at=None, cls=False):
        self.at = at
        self.cls = cls


class Bad:
    def __init__(self, kind, node):
        self.kind, self.node = kind, node

    def __repr__(self):
        return "Bad(%s)" % self.kind


class Top:
    def __init__(self, why=""):
        self.why = why

    def __repr__(self):
        return "Top(%s)" % self.why


class FEval:
    """Evaluates DAG nodes at one concrete abstract point (an end point of a cell)."""

    def __init__(self, ptype, x, cls, class_node):
        self.t = ptype
        self.x = x
        self.cls = cls
        self.class_node = class_node
        self.memo = {}

    def ev(self, n):
        k = id(n)
        if k not in self.memo:
            self.memo[k] = self._ev(n)
        return self.memo[k]

    def _ev(self, n):
        op = n.op
        if op == "param":
            return self.x
        if op == "const":
            c = n.cval()
            if c == "-0":
                return Fraction(0)
            return c
        if op in ("fpext",):
            return self.ev(n.args[0])
        if op == "fptrunc":
            return fp_round(self.ev(n.args[0]), n.ty)
        if op in ("sitofp", "uitofp"):
            a = self.ev(n.args[0])
            if isinstance(a, int):
                if op == "sitofp":
                    a = dag.as_signed(a, n.args[0].ty)
                return fp_round(Fraction(a), n.ty)
            return Top("int->fp of non-constant")
        if op in ("fmul", "fdiv", "fadd", "fsub"):
            a, b = self.ev(n.args[0]), self.ev(n.args[1])
            for v in (a, b):
                if isinstance(v, (Bad, Top)):
                    return v
            if NAN in (a, b):
                return NAN
            r = arith(op, a, b)
            return fp_round(r, n.ty)
        if op == "fneg":
            a = self.ev(n.args[0])
            if isinstance(a, (Bad, Top)) or a == NAN:
                return a
            return NINF if a == INF else INF if a == NINF else -a
        if op == "call" and n.attr.startswith("llvm.trunc."):
            a = self.ev(n.args[0])
            if isinstance(a, Fraction):
                return Fraction(abs(a).numerator // abs(a).denominator) * (1 if a >= 0 else -1)
            return a
        if op == "call" and n.attr.startswith(("llvm.floor.", "llvm.ceil.", "llvm.round.", "llvm.fabs.")):
            a = self.ev(n.args[0])
            if not isinstance(a, Fraction):
                return a
            import math
            if "floor" in n.attr:
                return Fraction(math.floor(a))
            if "ceil" in n.attr:
                return Fraction(math.ceil(a))
            if "fabs" in n.attr:
                return abs(a)
            fl = math.floor(abs(a) + Fraction(1, 2))
            return Fraction(fl if a >= 0 else -fl)
        if op in ("fptosi", "fptoui"):
            a = self.ev(n.args[0])
            if isinstance(a, (Bad, Top)):
                return a
            bits = dag.INT_BITS[n.ty]
            if not isinstance(a, Fraction):
                return Bad("fp-to-int of %s" % a, n)
            tr = abs(a).numerator // abs(a).denominator * (1 if a >= 0 else -1)
            lo, hi = (-(1 << (bits - 1)), (1 << (bits - 1)) - 1) if op == "fptosi" else (0, (1 << bits) - 1)
            if not (lo <= tr <= hi):
                return Bad("fp-to-int out of range (%s)" % ("above" if tr > hi else "below"), n)
            return int(tr) & ((1 << bits) - 1)
        if op == "fcmp":
            if self.class_node is not None and n.attr in ("une", "oeq"):
                a0, a1 = n.args
                tn = None
                if a0.op == "call" and a0.attr.startswith("llvm.trunc.") and a0.args[0] == a1:
                    tn = a1
                elif a1.op == "call" and a1.attr.startswith("llvm.trunc.") and a1.args[0] == a0:
                    tn = a0
                if tn is not None:
                    v = self.ev(tn)
                    if isinstance(v, (Bad, Top)):
                        return v
                    if v == NAN:
                        return 1 if n.attr == "une" else 0
                    if v in (INF, NINF):
                        return 0 if n.attr == "une" else 1
                    if self.cls is None:
                        raise Split(cls=True)
                    nonint = self.cls == "NI"
                    return int(nonint) if n.attr == "une" else int(not nonint)
            a, b = self.ev(n.args[0]), self.ev(n.args[1])
            for v in (a, b):
                if isinstance(v, (Bad, Top)):
                    return v
            return int(fcmp(n.attr, a, b))
        if op in ("and", "or") and n.ty == "i1":
            a = self.ev(n.args[0])
            if a == (0 if op == "and" else 1):
                return a
            b = self.ev(n.args[1])
            if b == (0 if op == "and" else 1):
                return b
            for v in (a, b):
                if isinstance(v, (Bad, Top)):
                    return v
            return (a & b) if op == "and" else (a | b)
        if op == "not":
            a = self.ev(n.args[0])
            return a if isinstance(a, (Bad, Top)) else 1 - a
        if op == "select":
            c = self.ev(n.args[0])
            if isinstance(c, (Bad, Top)):
                return c
            return self.ev(n.args[1] if c else n.args[2])
        if op in ("zext", "sext", "trunc") and n.ty in dag.INT_BITS:
            a = self.ev(n.args[0])
            if isinstance(a, int):
                if op == "sext":
                    a = dag.as_signed(a, n.args[0].ty)
                return dag.wrap_int(a, n.ty)
            return a
        if op == "icmp":
            a, b = self.ev(n.args[0]), self.ev(n.args[1])
            if isinstance(a, int) and isinstance(b, int):
                ty = n.args[0].ty
                if n.attr[0] == "s":
                    a, b = dag.as_signed(a, ty), dag.as_signed(b, ty)
                return int({"eq": a == b, "ne": a != b, "slt": a < b, "sle": a <= b, "ult": a < b, "ule": a <= b}[n.attr])
            return Top("icmp of non-constants")
        return Top("unsupported node %s" % op)


def arith(op, a, b):
    inf_a, inf_b = a in (INF, NINF), b in (INF, NINF)
    sg = lambda v: (1 if v == INF else -1 if v == NINF else (1 if v > 0 else -1 if v < 0 else 0))
    if op == "fmul":
        if inf_a or inf_b:
            s = sg(a) * sg(b)
            return NAN if s == 0 else (INF if s > 0 else NINF)
        return a * b
    if op == "fdiv":
        if inf_a and inf_b:
            return NAN
        if inf_a:
            s = sg(a) * (sg(b) or 1)
            return INF if s > 0 else NINF
        if inf_b:
            return Fraction(0)
        if b == 0:
            return NAN if a == 0 else (INF if a > 0 else NINF)
        return a / b
    if op in ("fadd", "fsub"):
        if op == "fsub":
            b = NINF if b == INF else INF if b == NINF else (-b if isinstance(b, Fraction) else b)
            inf_b = b in (INF, NINF)
        if inf_a and inf_b:
            return a if a == b else NAN
        if inf_a:
            return a
        if inf_b:
            return b
        return a + b
    raise AssertionError(op)


def fcmp(pred, a, b):
    un = a == NAN or b == NAN
    if pred == "ord":
        return not un
    if pred == "uno":
        return un
    kind, p = pred[0], pred[1:]
    if un:
        return kind == "u"

    def key(v):
        return (2, 0) if v == INF else (0, 0) if v == NINF else (1, v)
    ka, kb = key(a), key(b)
    return {"eq": ka == kb, "ne": ka != kb, "lt": ka < kb, "le": ka <= kb, "gt": ka > kb, "ge": ka >= kb}[p]


def find_class_node(roots):
    """The (single) intermediate v for which the DAGs test `trunc(v) != v`."""
    found = []
    seen = set()

    def walk(n):
        if id(n) in seen:
            return
        seen.add(id(n))
        if n.op == "fcmp" and n.attr in ("une", "oeq"):
            for p, q in ((n.args[0], n.args[1]), (n.args[1], n.args[0])):
                if p.op == "call" and p.attr.startswith("llvm.trunc.") and p.args[0] == q:
                    if q not in found:
                        found.append(q)
        for c in n.args:
            walk(c)
    for r in roots.values():
        walk(r)
    return found


def analyse(roots, ptype, max_cells=400):
    """roots: {name: dag.Node} of functions of one floating parameter of type ptype.
    Returns [(FCell, {name: value at lo, ...}, {name: value at hi})]: on every returned cell each
    i1 / int root has the same value at both end points (decided), floating roots are monotone."""
    cn = find_class_node(roots)
    if len(cn) > 1:
        # several integrality tests: accept if they are the same value up to fpext
        raise AnalysisBroken("more than one integrality-tested intermediate: unanalysable")
    class_node = cn[0] if cn else None
    # every comparison atom must be decided on a cell (a disjunction such as `x > c1 || x < c2` has
    # equal truth at both ends of a wide cell without being constant): atoms are implicit roots
    roots = dict(roots)
    seen = set()

    def walk(n):
        if id(n) in seen:
            return
        seen.add(id(n))
        if n.op == "fcmp":
            roots["__atom%d" % len(roots)] = n
        for c in n.args:
            walk(c)
    for r in list(roots.values()):
        walk(r)
    N = n_finite(ptype)
    work = [FCell(-(N - 1), -1), FCell(0, N - 1)]
    done = []
    out_special = []
    for sp, xv in (("nan", NAN), ("+inf", INF), ("-inf", NINF)):
        e = FEval(ptype, xv, "NI", class_node)
        res = {k: e.ev(n) for k, n in roots.items()}
        out_special.append((FCell(special=sp), res, res))
    steps = 0
    while work:
        c = work.pop()
        steps += 1
        if steps > max_cells * 4:
            raise AnalysisBroken("floating cell refinement did not converge")
        try:
            elo = FEval(ptype, ord_to_val(c.lo, ptype), c.cls, class_node)
            ehi = FEval(ptype, ord_to_val(c.hi, ptype), c.cls, class_node)
            rlo = {k: elo.ev(n) for k, n in roots.items()}
            rhi = {k: ehi.ev(n) for k, n in roots.items()}
        except Split as s:
            if s.cls:
                work += [FCell(c.lo, c.hi, "I"), FCell(c.lo, c.hi, "NI")]
                continue
            raise
        # decided?
        undec = [k for k in roots if disc(rlo[k]) != disc(rhi[k]) or (k.startswith("__atom") and rlo[k] != rhi[k])]
        if undec and c.lo < c.hi:
            k = undec[0]
            a = disc(rlo[k])
            l, h = c.lo, c.hi
            while h - l > 1:
                m = (l + h) // 2
                em = FEval(ptype, ord_to_val(m, ptype), c.cls, class_node)
                try:
                    raw = em.ev(roots[k])
                    vm = (disc(raw), raw if k.startswith("__atom") else None)
                except Split:
                    vm = None
                if vm == (a, rlo[k] if k.startswith("__atom") else None):
                    l = m
                else:
                    h = m
            work += [FCell(c.lo, l, c.cls), FCell(l + 1, c.hi, c.cls)]
            continue
        done.append((c, rlo, rhi))
    done.sort(key=lambda t: (t[0].lo, t[0].hi, t[0].cls or ""))
    return out_special + done, class_node


def disc(v):
    """Discrete signature of a root value: decided things must agree at both ends of a cell."""
    if isinstance(v, Bad):
        return ("bad", v.kind)
    if isinstance(v, Top):
        return ("top",)
    if isinstance(v, int):
        return ("int",)
    if v in (INF, NINF, NAN):
        return ("special", v)
    return ("finite",)
