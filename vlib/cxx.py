"""Compiler front ends as decision procedures: configurations, invocation, diagnostic parsing."""
import os
import re
import subprocess
from concurrent.futures import ThreadPoolExecutor

from .common import AU_INC, VERIF_INC, NCPU, AnalysisBroken


class Config:
    def __init__(self, cc, std):
        self.cc = cc  # 'clang++' | 'g++'
        self.std = std  # 'c++14' ...

    @property
    def name(self):
        return "%s/%s" % (self.cc, self.std)

    @property
    def is_clang(self):
        return self.cc.startswith("clang")

    def syntax_cmd(self, src, extra=()):
        base = [self.cc, "-std=" + self.std, "-fsyntax-only", "-I" + AU_INC, "-I" + VERIF_INC,
                "-ftemplate-backtrace-limit=0"]
        if self.is_clang:
            base += ["-ferror-limit=0", "-fno-caret-diagnostics", "-fno-color-diagnostics",
                     "-fconstexpr-steps=%d" % CLANG_STEPS, "-fconstexpr-depth=4096",
                     "-Wno-unused-value"]
        else:
            base += ["-fmax-errors=0", "-fno-diagnostics-show-caret", "-fdiagnostics-color=never",
                     "-fmessage-length=0", "-Werror=narrowing", "-fconstexpr-ops-limit=%d" % GCC_OPS,
                     "-fconstexpr-loop-limit=10000000", "-fconstexpr-depth=4096"]
        return base + list(extra) + [src]

    def __repr__(self):
        return self.name


ALL_CONFIGS = [Config(cc, std) for cc in ("clang++", "g++") for std in ("c++14", "c++17", "c++20")]
QUICK_CONFIGS = [Config("clang++", "c++14"), Config("g++", "c++20")]
CLANG14 = Config("clang++", "c++14")
CLANG20 = Config("clang++", "c++20")


def configs_for(tier):
    return ALL_CONFIGS if tier == "thorough" else QUICK_CONFIGS


# budget of the compilers' constant evaluators (a check that evaluates library loops at compile
# time lowers these, so that a loop which no longer terminates is an error and not a 12 GB process)
CLANG_STEPS = 100000000
GCC_OPS = 1000000000
_PRLIMIT = ["prlimit", "--as=%d" % (20 << 30)] if os.path.exists("/usr/bin/prlimit") else []


def run(cmd, timeout=1800, cwd=None, input=None):
    if cmd and os.path.basename(cmd[0]) in ("g++", "clang++", "opt-14", "llvm-link-14"):
        cmd = _PRLIMIT + list(cmd)
    try:
        p = subprocess.run(cmd, stdout=subprocess.PIPE, stderr=subprocess.PIPE, timeout=timeout,
                           cwd=cwd, input=input)
    except subprocess.TimeoutExpired:
        raise AnalysisBroken("timeout running %s" % " ".join(cmd[:6]))
    except FileNotFoundError:
        raise AnalysisBroken("tool not found: %s" % cmd[0])
    return p.returncode, p.stdout.decode("utf-8", "replace"), p.stderr.decode("utf-8", "replace")


_LOC = re.compile(r"^(?P<file>[^\s:][^:\n]*):(?P<line>\d+):(?P<col>\d+): (?P<rest>.*)$")


class Diag:
    """One error with the locations of its whole context chain."""
    __slots__ = ("file", "line", "msg", "chain")

    def __init__(self, file, line, msg):
        self.file = file
        self.line = line
        self.msg = msg
        self.chain = []  # [(file, line)] of every location mentioned in the record, incl. own

    def tu_lines(self, tu):
        return sorted({l for f, l in self.chain if f == tu})

    def where(self):
        return "%s:%d" % (self.file, self.line)


def parse_clang(stderr):
    """clang: error line, then its notes.  Returns [Diag]."""
    out = []
    cur = None
    for ln in stderr.splitlines():
        m = _LOC.match(ln)
        if not m:
            if re.match(r"^(fatal error|error): ", ln):
                cur = Diag("<driver>", 0, ln)
                out.append(cur)
            continue
        rest = m.group("rest")
        f, l = m.group("file"), int(m.group("line"))
        if rest.startswith("error: ") or rest.startswith("fatal error: "):
            cur = Diag(f, l, rest.split(": ", 1)[1])
            cur.chain.append((f, l))
            out.append(cur)
        elif rest.startswith("warning: "):
            cur = None
        elif rest.startswith("note: "):
            if cur is not None:
                cur.chain.append((f, l))
    return out


_GCC_CTX = re.compile(r"^(?P<file>[^\s:][^:\n]*):(?P<line>\d+):(?P<col>\d+):\s+(required|recursively required|in \S{1,3}constexpr\S{1,3} expansion|required by substitution)")


def parse_gcc(stderr):
    """g++ (text): the instantiation context precedes the error and is printed only when it
    changes, so an error without its own context block inherits the previous block."""
    out = []
    ctx = []  # context block in force [(file,line)]
    pending = []  # context lines of the block being printed
    fresh = False  # a block header was seen since the last diagnostic line
    last = None
    for ln in stderr.splitlines():
        m = _LOC.match(ln)
        if not m:
            if re.match(r"^[^\s:][^:\n]*: (In |At global scope)", ln):
                pending = []
                fresh = True
            elif re.match(r"^(cc1plus|g\+\+): (fatal )?error: ", ln):
                out.append(Diag("<driver>", 0, ln))
            continue
        rest = m.group("rest")
        f, l = m.group("file"), int(m.group("line"))
        if _GCC_CTX.match(ln):
            if not fresh:
                pending = []
                fresh = True
            pending.append((f, l))
            continue
        if rest.startswith("error: ") or rest.startswith("fatal error: "):
            if fresh:
                ctx, pending, fresh = pending, [], False
            d = Diag(f, l, rest.split(": ", 1)[1])
            d.chain.append((f, l))
            d.chain.extend(ctx)
            out.append(d)
            last = d
        elif rest.startswith("warning: "):
            if fresh:
                ctx, pending, fresh = pending, [], False
            last = None
        elif rest.startswith("note: "):
            if fresh:
                # a note with its own context (rare): attach both
                if last is not None:
                    last.chain.extend(pending)
                pending, fresh = [], False
            if last is not None:
                last.chain.append((f, l))
    return out


def compile_syntax(cfg, src, extra=(), timeout=1800):
    rc, so, se = run(cfg.syntax_cmd(src, extra), timeout=timeout)
    diags = parse_clang(se) if cfg.is_clang else parse_gcc(se)
    if rc != 0 and not diags:
        raise AnalysisBroken("%s failed (rc=%d) with no parsable error on %s:\n%s"
                             % (cfg.name, rc, src, se[-2000:]))
    if rc == 0 and diags:
        raise AnalysisBroken("%s rc=0 but errors parsed on %s" % (cfg.name, src))
    return rc, diags, se


def pmap(fn, items, workers=NCPU):
    if not items:
        return []
    with ThreadPoolExecutor(max_workers=workers) as ex:
        return list(ex.map(fn, items))
