"""Engine I, part 5: a small relational (linear-inequality) analysis with path partitioning.

For straight-line unsigned arithmetic over SEVERAL parameters (the interval x congruence cells of
cells.py handle one), e.g. add_mod(a, b, n).  Every value is a linear form over the parameters and
a few auxiliary variables (x = 2*h + l for a halving); the analysis walks the expression DAG,
partitions on every select / comparison it meets, keeps the path's constraints as a conjunction of
linear inequalities over the integers, prunes infeasible partitions, and discharges obligations
(no unsigned wrap of any operation that contributes to the selected value, range and exactness of
the result) by entailment: C |= e <= 0 iff C and e >= 1 is infeasible, decided by Fourier-Motzkin
elimination over the rationals (sound for a proof; incomplete in general, complete enough here).
Nothing is executed and no value is enumerated."""
from fractions import Fraction

from . import dag

MAX64 = (1 << 64) - 1


class Lin:
    """sum(coef[v] * v) + c   (Fractions)"""
    __slots__ = ("co", "c")

    def __init__(self, co=None, c=0):
        self.co = {k: Fraction(v) for k, v in (co or {}).items() if v != 0}
        self.c = Fraction(c)

    def __add__(self, o):
        co = dict(self.co)
        for k, v in o.co.items():
            co[k] = co.get(k, 0) + v
        return Lin(co, self.c + o.c)

    def __neg__(self):
        return Lin({k: -v for k, v in self.co.items()}, -self.c)

    def __sub__(self, o):
        return self + (-o)

    def scale(self, k):
        return Lin({a: v * k for a, v in self.co.items()}, self.c * k)

    def is_const(self):
        return not self.co

    def key(self):
        return (tuple(sorted(self.co.items())), self.c)

    def __eq__(self, o):
        return isinstance(o, Lin) and self.key() == o.key()

    def __hash__(self):
        return hash(self.key())

    def __repr__(self):
        t = ["%s*%s" % (v, k) if v != 1 else str(k) for k, v in sorted(self.co.items())]
        if self.c != 0 or not t:
            t.append(str(self.c))
        return " + ".join(t)


def var(name):
    return Lin({name: 1})


def K(c):
    return Lin({}, c)


def feasible(cons):
    """cons: list of Lin meaning  form <= 0.  Rational feasibility by Fourier-Motzkin."""
    cons = list({c.key(): c for c in cons}.values())
    while True:
        for c in cons:
            if c.is_const() and c.c > 0:
                return False
        vs = set()
        for c in cons:
            vs.update(c.co)
        if not vs:
            return True
        # eliminate the variable with the fewest pos*neg products
        best = None
        for v in vs:
            p = sum(1 for c in cons if c.co.get(v, 0) > 0)
            n = sum(1 for c in cons if c.co.get(v, 0) < 0)
            if best is None or p * n < best[0]:
                best = (p * n, v)
        v = best[1]
        pos = [c for c in cons if c.co.get(v, 0) > 0]
        neg = [c for c in cons if c.co.get(v, 0) < 0]
        rest = [c for c in cons if c.co.get(v, 0) == 0]
        new = []
        for p in pos:
            for n in neg:
                new.append(p.scale(1 / p.co[v]) + n.scale(1 / -n.co[v]))
        cons = list({c.key(): c for c in rest + new if not (c.is_const() and c.c <= 0)}.values())
        if len(cons) > 4000:
            raise MemoryError("Fourier-Motzkin blow-up")


def entails_le0(cons, e):
    """cons |= e <= 0 over the integers (forms have integer values): cons and e >= 1 infeasible."""
    return not feasible(cons + [K(1) - e])


def entails_eq0(cons, e):
    return entails_le0(cons, e) and entails_le0(cons, -e)


class Failure(Exception):
    pass


class Walker:
    def __init__(self, pre, bits=64):
        self.pre = list(pre)  # constraints that hold on entry (form <= 0)
        self.aux = {}  # Lin key -> (h, l) variable names
        self.naux = 0
        self.failures = []  # (what, node, path constraints)
        self.obligations = 0
        self.maxv = (1 << bits) - 1

    def halves(self, f, C):
        k = f.key()
        if k not in self.aux:
            self.naux += 1
            h, l = "h%d" % self.naux, "l%d" % self.naux
            self.aux[k] = (h, l)
        h, l = self.aux[k]
        d = f - var(h).scale(2) - var(l)
        C = C + [d, -d, -var(l), var(l) - K(1), -var(h)]
        return C, var(h), var(l)

    def need(self, C, e, what, node):
        """obligation e <= 0 under C"""
        self.obligations += 1
        if not entails_le0(C, e):
            self.failures.append((what, node, list(C)))

    def value(self, n, C):
        """yields (C', Lin) for every feasible partition"""
        op = n.op
        if op == "param":
            yield C, var("p%d" % n.attr)
        elif op == "const":
            yield C, K(n.cval())
        elif op in ("add", "sub"):
            for C1, a in self.value(n.args[0], C):
                for C2, b in self.value(n.args[1], C1):
                    r = a + b if op == "add" else a - b
                    if op == "add":
                        self.need(C2, r - K(self.maxv), "unsigned addition wraps", n)
                    else:
                        self.need(C2, -r, "unsigned subtraction wraps below zero", n)
                    yield C2, r
        elif op == "mul":
            for C1, a in self.value(n.args[0], C):
                for C2, b in self.value(n.args[1], C1):
                    if a.is_const():
                        r = b.scale(a.c)
                    elif b.is_const():
                        r = a.scale(b.c)
                    else:
                        raise Failure("non-linear multiplication")
                    self.need(C2, r - K(self.maxv), "unsigned multiplication wraps", n)
                    yield C2, r
        elif op in ("udiv", "lshr", "urem", "and"):
            by = n.args[1]
            two = by.is_const() and ((op in ("udiv", "urem") and by.cval() == 2) or (op in ("lshr", "and") and by.cval() == 1))
            if not two:
                # the operands are still ordinary values: their own obligations are recorded first
                for a in n.args:
                    for _ in self.value(a, C):
                        pass
                raise Failure("division / remainder other than by two")
            for C1, a in self.value(n.args[0], C):
                C2, h, l = self.halves(a, C1)
                yield C2, (h if op in ("udiv", "lshr") else l)
        elif op == "select":
            for C1, t in self.truth(n.args[0], C):
                yield from self.value(n.args[1] if t else n.args[2], C1)
        elif op in ("zext",):
            yield from self.value(n.args[0], C)
        else:
            raise Failure("unsupported node %s" % op)

    def truth(self, n, C):
        """yields (C', bool) for every feasible outcome of an i1 node"""
        op = n.op
        if op == "const":
            yield C, bool(n.cval())
        elif op == "not":
            for C1, t in self.truth(n.args[0], C):
                yield C1, not t
        elif op in ("and", "or"):
            for C1, t1 in self.truth(n.args[0], C):
                if (op == "and" and not t1) or (op == "or" and t1):
                    yield C1, t1
                else:
                    yield from self.truth(n.args[1], C1)
        elif op == "icmp":
            pred = n.attr
            for C1, a in self.value(n.args[0], C):
                for C2, b in self.value(n.args[1], C1):
                    d = a - b
                    if pred == "ule":
                        yes, no = [d], [K(1) - d]
                    elif pred == "ult":
                        yes, no = [d + K(1)], [-d]
                    elif pred == "eq":
                        yes, no = [d, -d], None
                    elif pred == "ne":
                        yes, no = None, [d, -d]
                    else:
                        raise Failure("signed comparison %s" % pred)
                    if yes is None or no is None:
                        eq = no if yes is None else yes
                        teq = yes is not None
                        if feasible(C2 + eq):
                            yield C2 + eq, teq
                        for strict in ([d + K(1)], [K(1) - d]):
                            if feasible(C2 + strict):
                                yield C2 + strict, not teq
                    else:
                        if feasible(C2 + yes):
                            yield C2 + yes, True
                        if feasible(C2 + no):
                            yield C2 + no, False
        else:
            raise Failure("unsupported condition %s" % op)


def analyse(root, pre, goals):
    """root: dag node (i64).  pre: entry constraints.  goals(C, r) -> list of (what, ok).
    Returns dict(paths, obligations, failures=[(what, detail)])."""
    w = Walker(pre)
    paths = 0
    fails = []
    incomplete = None
    try:
        for C, r in w.value(root, list(pre)):
            paths += 1
            for what, ok in goals(w, C, r):
                w.obligations += 1
                if not ok:
                    fails.append((what, "on the path with result %r" % r))
    except Failure as e:
        # the function left the linear fragment; what was established before that point stands
        incomplete = str(e)
    for what, node, C in w.failures:
        fails.append((what, "at %s" % node.pretty()[:160]))
    return dict(paths=paths, obligations=w.obligations, failures=fails, walker=w, incomplete=incomplete)
