"""Engine I, part 5: a small relational (linear-inequality) analysis with path partitioning.

For straight-line unsigned arithmetic over SEVERAL parameters (the interval x congruence cells of
cells.py handle one), e.g. add_mod(a, b, n).  Every value is a linear form over the parameters and
a few auxiliary variables (x = 2*h + l for a halving); the analysis walks the expression DAG,
partitions on every select / comparison it meets, keeps the path's constraints as a conjunction of
linear inequalities over the integers, prunes infeasible partitions, and discharges obligations
(no unsigned wrap of any operation that contributes to the selected value, range and exactness of
the result) by entailment: C |= e <= 0 iff C and e >= 1 is infeasible, decided by Fourier-Motzkin
elimination over the rationals (sound for a proof; incomplete in general, complete enough here).
Nothing is executed and no value is enumerated.

Beyond the linear fragment (second part): a product of two non-constant forms and a quotient by a
non-constant form become fresh variables ("terms") that are constrained only by axioms which hold
for all non-negative integers, each instantiated when its premise is entailed by the path:
  P = x*y:   P >= 0;   y = 0 -> P = 0;   y >= 1 -> P >= x   (and with x, y swapped)
  P = f*y, P' = f*y' (a shared factor):   y' - y = c -> P' - P = c*f;   y' - y >= 1 -> P + f <= P';
             y' - y >= 0 -> P <= P'   (and mirrored)
  q = x div y (obligation y >= 1), P = q*y:   P <= x <= P + y - 1;   y <= x -> q >= 1;   x < y -> q = 0
  r = x rem y = x - P
A call is replaced by its summary (precondition = obligations on the actual arguments, postcondition
= constraints on a fresh result); for a recursive call that is the induction hypothesis, and the
summary also demands a strictly decreasing measure."""
from fractions import Fraction

from . import dag

MAX64 = (1 << 64) - 1


class Lin:
    """sum(coef[v] * v) + c   (Fractions)"""
    __slots__ = ("co", "c")

    def __init__(self, co=None, c=0):
        self.co = {k: Fraction(v) for k, v in (co or {}).items() if v != 0}
        self.c = Fraction(c)

    def __add__(self, o):
        co = dict(self.co)
        for k, v in o.co.items():
            co[k] = co.get(k, 0) + v
        return Lin(co, self.c + o.c)

    def __neg__(self):
        return Lin({k: -v for k, v in self.co.items()}, -self.c)

    def __sub__(self, o):
        return self + (-o)

    def scale(self, k):
        return Lin({a: v * k for a, v in self.co.items()}, self.c * k)

    def is_const(self):
        return not self.co

    def key(self):
        return (tuple(sorted(self.co.items())), self.c)

    def __eq__(self, o):
        return isinstance(o, Lin) and self.key() == o.key()

    def __hash__(self):
        return hash(self.key())

    def __repr__(self):
        t = ["%s*%s" % (v, k) if v != 1 else str(k) for k, v in sorted(self.co.items())]
        if self.c != 0 or not t:
            t.append(str(self.c))
        return " + ".join(t)


def var(name):
    return Lin({name: 1})


def K(c):
    return Lin({}, c)


def feasible(cons):
    """cons: list of Lin meaning  form <= 0.  Rational feasibility by Fourier-Motzkin."""
    cons = list({c.key(): c for c in cons}.values())
    while True:
        for c in cons:
            if c.is_const() and c.c > 0:
                return False
        vs = set()
        for c in cons:
            vs.update(c.co)
        if not vs:
            return True
        # eliminate the variable with the fewest pos*neg products
        best = None
        for v in vs:
            p = sum(1 for c in cons if c.co.get(v, 0) > 0)
            n = sum(1 for c in cons if c.co.get(v, 0) < 0)
            if best is None or p * n < best[0]:
                best = (p * n, v)
        v = best[1]
        pos = [c for c in cons if c.co.get(v, 0) > 0]
        neg = [c for c in cons if c.co.get(v, 0) < 0]
        rest = [c for c in cons if c.co.get(v, 0) == 0]
        new = []
        for p in pos:
            for n in neg:
                new.append(p.scale(1 / p.co[v]) + n.scale(1 / -n.co[v]))
        cons = list({c.key(): c for c in rest + new if not (c.is_const() and c.c <= 0)}.values())
        if len(cons) > 4000:
            raise MemoryError("Fourier-Motzkin blow-up")


def entails_le0(cons, e):
    """cons |= e <= 0 over the integers (forms have integer values): cons and e >= 1 infeasible."""
    return not feasible(cons + [K(1) - e])


def entails_eq0(cons, e):
    return entails_le0(cons, e) and entails_le0(cons, -e)


class Failure(Exception):
    pass


class Walker:
    def __init__(self, pre, bits=64):
        self.pre = list(pre)  # constraints that hold on entry (form <= 0)
        self.aux = {}  # Lin key -> (h, l) variable names
        self.naux = 0
        self.failures = []  # (what, node, path constraints)
        self.obligations = 0
        self.maxv = (1 << bits) - 1
        self.prods = {}  # sorted (key x, key y) -> (name, x, y)
        self.divs = {}  # (key x, key y) -> (q name)
        self.summaries = {}  # callee -> f(walker, C, [Lin], node) -> (C', Lin)
        self.ncalls = 0
        self.callres = {}

    def halves(self, f, C):
        k = f.key()
        if k not in self.aux:
            self.naux += 1
            h, l = "h%d" % self.naux, "l%d" % self.naux
            self.aux[k] = (h, l)
        h, l = self.aux[k]
        d = f - var(h).scale(2) - var(l)
        C = C + [d, -d, -var(l), var(l) - K(1), -var(h)]
        return C, var(h), var(l)

    def nonneg(self, C, x):
        return x.is_const() and x.c >= 0 or entails_le0(C, -x)

    def prod_axioms(self, C, name):
        """facts about the product term `name` that the path entails (all sound for non-negative integers)"""
        _, x, y = next(v for v in self.prods.values() if v[0] == name)
        P = var(name)
        if not (self.nonneg(C, x) and self.nonneg(C, y)):
            return C
        C = C + [-P]
        for u, v in ((x, y), (y, x)):
            if entails_le0(C, v):  # v == 0
                C = C + [P]
            elif entails_le0(C, K(1) - v):  # v >= 1
                C = C + [u - P]
        for name2, x2, y2 in list(self.prods.values()):
            if name2 == name or not (self.nonneg(C, x2) and self.nonneg(C, y2)):
                continue
            P2 = var(name2)
            for f, o1 in ((x, y), (y, x)):
                for f2, o2 in ((x2, y2), (y2, x2)):
                    if f != f2:
                        continue
                    d = o2 - o1
                    if d.is_const():
                        e = P2 - P - f.scale(d.c)
                        C = C + [e, -e]
                    elif entails_le0(C, K(1) - d):
                        C = C + [P + f - P2]
                    elif entails_le0(C, -d):
                        C = C + [P - P2]
                    elif entails_le0(C, d + K(1)):
                        C = C + [P2 + f - P]
                    elif entails_le0(C, d):
                        C = C + [P2 - P]
        return C

    def product(self, x, y, C):
        k = tuple(sorted([x.key(), y.key()]))
        if k not in self.prods:
            self.naux += 1
            self.prods[k] = ("m%d" % self.naux, x, y)
        name = self.prods[k][0]
        return self.prod_axioms(C, name), var(name)

    def divide(self, x, y, C, node):
        """(C', quotient, remainder) of the unsigned division x / y"""
        self.need(C, K(1) - y, "division by zero", node)
        k = (x.key(), y.key())
        if k not in self.divs:
            self.naux += 1
            self.divs[k] = "q%d" % self.naux
        q = var(self.divs[k])
        C = C + [-q]
        if y.is_const():
            P = q.scale(y.c)
        else:
            C, P = self.product(q, y, C)
        C = C + [P - x, x - P - y + K(1)]
        if entails_le0(C, y - x):
            C = C + [K(1) - q]
        elif entails_le0(C, x - y + K(1)):
            C = C + [q]
        if not y.is_const():
            C = self.prod_axioms(C, P.co and list(P.co)[0])
        return C, q, x - P

    def result_of(self, callee, args):
        """the result variable of a call: one per (callee, actual arguments) - the callees are pure"""
        k = (callee, tuple(a.key() for a in args))
        if k not in self.callres:
            self.naux += 1
            self.callres[k] = "r%d" % self.naux
        return var(self.callres[k])

    def need(self, C, e, what, node):
        """obligation e <= 0 under C"""
        self.obligations += 1
        if not entails_le0(C, e):
            self.failures.append((what, node, list(C)))

    def value(self, n, C):
        """yields (C', Lin) for every feasible partition"""
        op = n.op
        if op == "param":
            yield C, var("p%d" % n.attr)
        elif op == "const":
            yield C, K(n.cval())
        elif op in ("add", "sub"):
            for C1, a in self.value(n.args[0], C):
                for C2, b in self.value(n.args[1], C1):
                    r = a + b if op == "add" else a - b
                    if op == "add":
                        self.need(C2, r - K(self.maxv), "unsigned addition wraps", n)
                    else:
                        self.need(C2, -r, "unsigned subtraction wraps below zero", n)
                    yield C2, r
        elif op == "mul":
            for C1, a in self.value(n.args[0], C):
                for C2, b in self.value(n.args[1], C1):
                    if a.is_const():
                        r = b.scale(a.c)
                    elif b.is_const():
                        r = a.scale(b.c)
                    else:
                        C2, r = self.product(a, b, C2)
                    if n.attr and "nsw" in n.attr:
                        if not (self.nonneg(C2, a) and self.nonneg(C2, b)):
                            raise Failure("signed multiplication of a possibly negative value")
                        self.need(C2, r - K(self.maxv >> 1), "signed multiplication overflows (undefined behaviour)", n)
                    else:
                        self.need(C2, r - K(self.maxv), "unsigned multiplication wraps", n)
                    yield C2, r
        elif op in ("sdiv", "srem"):
            # signed division of values that the path shows to be non-negative is the unsigned one
            for C1, a in self.value(n.args[0], C):
                for C2, b in self.value(n.args[1], C1):
                    if not (self.nonneg(C2, a) and self.nonneg(C2, b)):
                        raise Failure("signed division of a possibly negative value")
                    C3, q, r = self.divide(a, b, C2, n)
                    yield C3, (q if op == "sdiv" else r)
        elif op in ("udiv", "lshr", "urem", "and"):
            by = n.args[1]
            two = by.is_const() and ((op in ("udiv", "urem") and by.cval() == 2) or (op in ("lshr", "and") and by.cval() == 1))
            if not two:
                if op not in ("udiv", "urem"):
                    for a in n.args:
                        for _ in self.value(a, C):
                            pass
                    raise Failure("shift / mask other than by one bit")
                for C1, a in self.value(n.args[0], C):
                    for C2, b in self.value(n.args[1], C1):
                        C3, q, r = self.divide(a, b, C2, n)
                        yield C3, (q if op == "udiv" else r)
                return
            for C1, a in self.value(n.args[0], C):
                C2, h, l = self.halves(a, C1)
                yield C2, (h if op in ("udiv", "lshr") else l)
        elif op == "select":
            for C1, t in self.truth(n.args[0], C):
                yield from self.value(n.args[1] if t else n.args[2], C1)
        elif op in ("zext",):
            yield from self.value(n.args[0], C)
        elif op == "call" and n.attr in self.summaries:
            def args_from(i, C0, acc):
                if i == len(n.args):
                    yield C0, acc
                    return
                for C1, a in self.value(n.args[i], C0):
                    yield from args_from(i + 1, C1, acc + [a])
            for C1, args in args_from(0, C, []):
                self.ncalls += 1
                yield self.summaries[n.attr](self, C1, args, n)
        else:
            raise Failure("unsupported node %s%s" % (op, " " + str(n.attr) if op == "call" else ""))

    def truth(self, n, C):
        """yields (C', bool) for every feasible outcome of an i1 node"""
        op = n.op
        if op == "const":
            yield C, bool(n.cval())
        elif op == "not":
            for C1, t in self.truth(n.args[0], C):
                yield C1, not t
        elif op in ("and", "or"):
            for C1, t1 in self.truth(n.args[0], C):
                if (op == "and" and not t1) or (op == "or" and t1):
                    yield C1, t1
                else:
                    yield from self.truth(n.args[1], C1)
        elif op == "icmp":
            pred = n.attr
            for C1, a in self.value(n.args[0], C):
                for C2, b in self.value(n.args[1], C1):
                    d = a - b
                    if pred == "ule":
                        yes, no = [d], [K(1) - d]
                    elif pred == "ult":
                        yes, no = [d + K(1)], [-d]
                    elif pred == "eq":
                        yes, no = [d, -d], None
                    elif pred == "ne":
                        yes, no = None, [d, -d]
                    elif pred in ("sle", "slt", "sgt", "sge") and self.nonneg(C2, a) and self.nonneg(C2, b) and \
                            entails_le0(C2, a - K(self.maxv >> 1)) and entails_le0(C2, b - K(self.maxv >> 1)):
                        # both operands are non-negative signed values: the signed order is the unsigned one
                        if pred == "sle":
                            yes, no = [d], [K(1) - d]
                        elif pred == "slt":
                            yes, no = [d + K(1)], [-d]
                        elif pred == "sge":
                            yes, no = [-d], [d + K(1)]
                        else:
                            yes, no = [K(1) - d], [d]
                    elif pred in ("uge", "ugt"):
                        yes, no = ([-d], [d + K(1)]) if pred == "uge" else ([K(1) - d], [d])
                    else:
                        raise Failure("signed comparison %s" % pred)
                    if yes is None or no is None:
                        eq = no if yes is None else yes
                        teq = yes is not None
                        if feasible(C2 + eq):
                            yield C2 + eq, teq
                        for strict in ([d + K(1)], [K(1) - d]):
                            if feasible(C2 + strict):
                                yield C2 + strict, not teq
                    else:
                        if feasible(C2 + yes):
                            yield C2 + yes, True
                        if feasible(C2 + no):
                            yield C2 + no, False
        else:
            raise Failure("unsupported condition %s" % op)


class Poly:
    """integer polynomial over atoms (parameters, quotients, call results): {sorted tuple of atoms: coef}"""

    def __init__(self, t=None):
        self.t = {k: Fraction(v) for k, v in (t or {}).items() if v != 0}

    @staticmethod
    def atom(a):
        return Poly({(a,): 1})

    @staticmethod
    def const(c):
        return Poly({(): c})

    def __add__(self, o):
        t = dict(self.t)
        for k, v in o.t.items():
            t[k] = t.get(k, 0) + v
        return Poly(t)

    def scale(self, c):
        return Poly({k: v * c for k, v in self.t.items()})

    def __sub__(self, o):
        return self + o.scale(-1)

    def __mul__(self, o):
        t = {}
        for k1, v1 in self.t.items():
            for k2, v2 in o.t.items():
                k = tuple(sorted(k1 + k2))
                t[k] = t.get(k, 0) + v1 * v2
        return Poly(t)

    def without_multiples_of(self, a):
        """the part that is NOT visibly a multiple of atom a (monomials without a)"""
        return Poly({k: v for k, v in self.t.items() if a not in k})

    def integral(self):
        return all(v.denominator == 1 for v in self.t.values())

    def __repr__(self):
        return " + ".join("%s*%s" % (v, "*".join(k) or "1") for k, v in sorted(self.t.items())) or "0"


def expand(walker, lin, subst=None):
    """The linear form as a polynomial over atoms: product terms are multiplied out; a variable in
    `subst` (e.g. the result of a recursive call under the induction hypothesis) is replaced by the
    given polynomial."""
    prods = {v[0]: (v[1], v[2]) for v in walker.prods.values()}
    subst = subst or {}
    out = Poly.const(lin.c)
    for v, c in lin.co.items():
        if v in subst:
            p = subst[v]
        elif v in prods:
            p = expand(walker, prods[v][0], subst) * expand(walker, prods[v][1], subst)
        else:
            p = Poly.atom(v)
        out = out + p.scale(c)
    return out


def analyse(root, pre, goals):
    """root: dag node (i64).  pre: entry constraints.  goals(C, r) -> list of (what, ok).
    Returns dict(paths, obligations, failures=[(what, detail)])."""
    w = Walker(pre)
    paths = 0
    fails = []
    incomplete = None
    try:
        for C, r in w.value(root, list(pre)):
            paths += 1
            for what, ok in goals(w, C, r):
                w.obligations += 1
                if not ok:
                    fails.append((what, "on the path with result %r" % r))
    except Failure as e:
        # the function left the linear fragment; what was established before that point stands
        incomplete = str(e)
    for what, node, C in w.failures:
        fails.append((what, "at %s" % node.pretty()[:160]))
    return dict(paths=paths, obligations=w.obligations, failures=fails, walker=w, incomplete=incomplete)
