"""Exact reference model (oracle).  Written from the documentation, never parses library headers.

Dimension / magnitude: dict base -> Fraction exponent (no zero entries).
Magnitude bases are primes (int) and 0 for pi.
"""
from fractions import Fraction
from math import gcd

PI_ID = 0

# ---------------------------------------------------------------------------------------------
# exponent maps


def norm(d):
    return {k: Fraction(v) for k, v in d.items() if v != 0}


def mul(a, b):
    out = dict(a)
    for k, v in b.items():
        out[k] = out.get(k, 0) + v
    return norm(out)


def power(a, e):
    e = Fraction(e)
    return norm({k: v * e for k, v in a.items()})


def inv(a):
    return power(a, -1)


def div(a, b):
    return mul(a, inv(b))


def key(a):
    return tuple(sorted(a.items()))


def is_prime(n):
    if n < 2:
        return False
    if n % 2 == 0:
        return n == 2
    # deterministic Miller-Rabin for 64-bit
    d, s = n - 1, 0
    while d % 2 == 0:
        d //= 2
        s += 1
    for a in (2, 3, 5, 7, 11, 13, 17, 19, 23, 29, 31, 37):
        if a % n == 0:
            continue
        x = pow(a, d, n)
        if x in (1, n - 1):
            continue
        for _ in range(s - 1):
            x = x * x % n
            if x == n - 1:
                break
        else:
            return False
    return True


def factor(n):
    """Prime factorisation of a positive integer as magnitude map (trial division + rho)."""
    assert n >= 1
    out = {}
    p = 2
    while p * p <= n and p < 100000:
        while n % p == 0:
            out[p] = out.get(p, 0) + 1
            n //= p
        p += 1 if p == 2 else 2
    if n > 1:
        stack = [n]
        while stack:
            m = stack.pop()
            if m == 1:
                continue
            if is_prime(m):
                out[m] = out.get(m, 0) + 1
                continue
            # Pollard rho
            import random
            rnd = random.Random(m)
            while True:
                c = rnd.randrange(1, m)
                x = y = rnd.randrange(0, m)
                d = 1
                while d == 1:
                    x = (x * x + c) % m
                    y = (y * y + c) % m
                    y = (y * y + c) % m
                    d = gcd(abs(x - y), m)
                if d != m:
                    break
            stack += [d, m // d]
    return norm({k: Fraction(v) for k, v in out.items()})


def mag_from_fraction(fr):
    fr = Fraction(fr)
    assert fr > 0
    return div(factor(fr.numerator), factor(fr.denominator))


def mag_is_rational(m):
    return all(k != PI_ID and v.denominator == 1 for k, v in m.items())


def mag_is_integer(m):
    return all(k != PI_ID and v.denominator == 1 and v > 0 for k, v in m.items())


def mag_to_fraction(m):
    assert mag_is_rational(m)
    out = Fraction(1)
    for k, v in m.items():
        out *= Fraction(k) ** int(v)
    return out


def common_mag(*ms):
    """gcd-style: base-wise minimum exponent, a missing base counting as 0."""
    bases = set()
    for m in ms:
        bases |= set(m)
    out = {}
    for b in bases:
        out[b] = min(m.get(b, Fraction(0)) for m in ms)
    return norm(out)


# ---------------------------------------------------------------------------------------------
# machine arithmetic

INT_TYPES = {
    "int8_t": (8, True), "uint8_t": (8, False), "int16_t": (16, True), "uint16_t": (16, False),
    "int32_t": (32, True), "uint32_t": (32, False), "int64_t": (64, True), "uint64_t": (64, False),
}
FP_TYPES = {"float": (24, -125, 128), "double": (53, -1021, 1024), "long double": (64, -16381, 16384)}
REPS10 = list(INT_TYPES) + ["float", "double"]
REPS11 = REPS10 + ["long double"]
ALIASES = {"int": "int32_t", "unsigned": "uint32_t", "long": "int64_t", "unsigned long": "uint64_t",
           "short": "int16_t", "unsigned short": "uint16_t", "signed char": "int8_t",
           "unsigned char": "uint8_t", "long long": "int64_t", "unsigned long long": "uint64_t",
           "std::int8_t": "int8_t", "std::uint8_t": "uint8_t", "std::int16_t": "int16_t",
           "std::uint16_t": "uint16_t", "std::int32_t": "int32_t", "std::uint32_t": "uint32_t",
           "std::int64_t": "int64_t", "std::uint64_t": "uint64_t"}


def canon(t):
    return ALIASES.get(t, t)


def is_int(t):
    return canon(t) in INT_TYPES


def is_fp(t):
    return canon(t) in FP_TYPES


def int_range(t):
    bits, signed = INT_TYPES[canon(t)]
    if signed:
        return -(1 << (bits - 1)), (1 << (bits - 1)) - 1
    return 0, (1 << bits) - 1


def fp_max(t):
    p, emin, emax = FP_TYPES[canon(t)]
    return (Fraction(2) ** p - 1) * Fraction(2) ** (emax - p)


def type_max(t):
    return Fraction(int_range(t)[1]) if is_int(t) else fp_max(t)


def promote(t):
    """Integer promotion on LP64."""
    t = canon(t)
    if t in INT_TYPES and INT_TYPES[t][0] < 32:
        return "int32_t"
    return t


def common_type(a, b):
    """std::common_type_t for arithmetic types = type of (false ? a : b) = usual arithmetic
    conversions on LP64 (int64_t = long)."""
    a, b = canon(a), canon(b)
    if a == b:
        return a  # no promotion for identical types (conditional operator keeps the type)
    if is_fp(a) or is_fp(b):
        order = ["float", "double", "long double"]
        fa = order.index(a) if a in order else -1
        fb = order.index(b) if b in order else -1
        return order[max(fa, fb)]
    a, b = promote(a), promote(b)
    if a == b:
        return a
    ba, sa = INT_TYPES[a]
    bb, sb = INT_TYPES[b]
    if sa == sb:
        return a if ba >= bb else b
    # different signedness
    (bu, u), (bs, s) = ((ba, a), (bb, b)) if not sa else ((bb, b), (ba, a))
    if bu >= bs:
        return u
    return s  # signed type can represent all values of the unsigned type (wider)


def arith_result(a, b):
    """Type of `a op b` for raw arithmetic operands (always promotes)."""
    a, b = canon(a), canon(b)
    if is_fp(a) or is_fp(b):
        return common_type(a, b)
    return common_type(promote(a), promote(b))


# ---------------------------------------------------------------------------------------------
# conversion policy (docs/discussion/concepts/overflow.md, reference/quantity.md)

OVERFLOW_THRESHOLD = 2147


def implicit_ok(ratio_mag, r1, r2, same_dim=True):
    """Documented predicate for Quantity<U1,R1> -> Quantity<U2,R2>, ratio_mag = U1/U2."""
    if not same_dim:
        return False
    if is_fp(r2):
        return True
    # integral target
    if not is_int(r1):
        return False
    if not ratio_mag:  # k == 1 between integral reps
        return True
    if not mag_is_integer(ratio_mag):
        return False
    k = mag_to_fraction(ratio_mag)
    return OVERFLOW_THRESHOLD * k <= type_max(r2)
