"""Lowering lists of wrapper blocks to IR with attribution of compile errors to blocks."""
from . import ir, cxx
from .common import AnalysisBroken


def build_blocks(ctx, prelude, blocks, tag, only=None, std="c++14", max_attempts=5):
    """blocks: [(key, text)].  Returns (module or None, alive keys, {dropped key: first error}).
    A block whose text does not compile is dropped (with its error) and the rest is rebuilt."""
    alive = list(range(len(blocks)))
    dropped = {}
    for attempt in range(max_attempts):
        lines = prelude.rstrip("\n").split("\n")
        ranges = []
        for i in alive:
            start = len(lines) + 1
            lines.extend(blocks[i][1].rstrip("\n").split("\n"))
            ranges.append((start, len(lines)))
        if not alive:
            return None, [], dropped
        path, se = ir.build_ir(ctx, "\n".join(lines) + "\n", "%s_a%d" % (tag, attempt), std=std)
        if path is not None:
            return ir.parse_module(path, only=only), [blocks[i][0] for i in alive], dropped
        diags = cxx.parse_clang(se)
        bad = {}
        for d in diags:
            for f, l in d.chain:
                if f.endswith(".cc"):
                    for j, (a, b) in enumerate(ranges):
                        if a <= l <= b and j not in bad:
                            bad[j] = "%s: %s" % (d.where(), d.msg[:200])
        if not bad:
            raise AnalysisBroken("IR build failed with unattributable errors (%s): %s" % (tag, se[-800:]))
        for j, msg in bad.items():
            dropped[blocks[alive[j]][0]] = msg
        alive = [i for j, i in enumerate(alive) if j not in bad]
    # an error inside a SHARED instantiation is reported once, for the first block that needs it, so
    # the loop above peels one block per round: judge every remaining block on its own, then rebuild
    import os
    wd = ctx.sub("SOLO_" + tag)

    def solo(i):
        pth = os.path.join(wd, "s%d.cc" % i)
        with open(pth, "w") as f:
            f.write(prelude.rstrip("\n") + "\n" + blocks[i][1].rstrip("\n") + "\n")
        rc, so, se = cxx.run(["clang++", "-std=" + std, "-fsyntax-only", "-w", "-I" + ir.AU_INC, "-I" + ir.VERIF_INC, pth])
        if rc == 0:
            return i, None
        d = cxx.parse_clang(se)
        return i, ("%s: %s" % (d[0].where(), d[0].msg[:200])) if d else se[-200:]
    keep = []
    for i, err in cxx.pmap(solo, alive):
        if err is None:
            keep.append(i)
        else:
            dropped[blocks[i][0]] = err
    keep.sort()
    if not keep:
        return None, [], dropped
    lines = prelude.rstrip("\n").split("\n")
    for i in keep:
        lines.extend(blocks[i][1].rstrip("\n").split("\n"))
    path, se = ir.build_ir(ctx, "\n".join(lines) + "\n", "%s_final" % tag, std=std)
    if path is None:
        raise AnalysisBroken("IR build did not converge for %s: %s" % (tag, se[-400:]))
    return ir.parse_module(path, only=only), [blocks[i][0] for i in keep], dropped
