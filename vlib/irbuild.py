"""Lowering lists of wrapper blocks to IR with attribution of compile errors to blocks."""
from . import ir, cxx
from .common import AnalysisBroken


def build_blocks(ctx, prelude, blocks, tag, only=None, std="c++14", max_attempts=5):
    """blocks: [(key, text)].  Returns (module or None, alive keys, {dropped key: first error}).
    A block whose text does not compile is dropped (with its error) and the rest is rebuilt."""
    alive = list(range(len(blocks)))
    dropped = {}
    for attempt in range(max_attempts):
        lines = prelude.rstrip("\n").split("\n")
        ranges = []
        for i in alive:
            start = len(lines) + 1
            lines.extend(blocks[i][1].rstrip("\n").split("\n"))
            ranges.append((start, len(lines)))
        if not alive:
            return None, [], dropped
        path, se = ir.build_ir(ctx, "\n".join(lines) + "\n", "%s_a%d" % (tag, attempt), std=std)
        if path is not None:
            return ir.parse_module(path, only=only), [blocks[i][0] for i in alive], dropped
        diags = cxx.parse_clang(se)
        bad = {}
        for d in diags:
            for f, l in d.chain:
                if f.endswith(".cc"):
                    for j, (a, b) in enumerate(ranges):
                        if a <= l <= b and j not in bad:
                            bad[j] = "%s: %s" % (d.where(), d.msg[:200])
        if not bad:
            raise AnalysisBroken("IR build failed with unattributable errors (%s): %s" % (tag, se[-800:]))
        for j, msg in bad.items():
            dropped[blocks[alive[j]][0]] = msg
        alive = [i for j, i in enumerate(alive) if j not in bad]
    raise AnalysisBroken("IR build did not converge for %s" % tag)
