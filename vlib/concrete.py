"""Concrete evaluation of DAG nodes on bit patterns.  Used ONLY by the engine self-test
(selftest/), to validate the abstract domains against brute force on 8-bit types.  No registered
check imports this module."""
from . import dag

POISON = "poison"


def ev(n, args, memo=None):
    memo = {} if memo is None else memo
    k = id(n)
    if k in memo:
        return memo[k]
    r = _ev(n, args, memo)
    memo[k] = r
    return r


def _ev(n, args, memo):
    op = n.op
    if op == "param":
        return dag.wrap_int(args[n.attr], n.ty)
    if op == "const":
        return n.cval()
    vals = None
    if op == "select":
        c = ev(n.args[0], args, memo)
        if c == POISON:
            return POISON
        return ev(n.args[1] if c else n.args[2], args, memo)
    if op in ("and", "or") and n.ty == "i1":
        a = ev(n.args[0], args, memo)
        b = ev(n.args[1], args, memo)
        # logical forms came from selects: short-circuit hides poison of the unevaluated side
        if op == "and":
            if a == 0 or b == 0:
                return 0
        else:
            if a == 1 or b == 1:
                return 1
        if POISON in (a, b):
            return POISON
        return (a & b) if op == "and" else (a | b)
    vals = [ev(a, args, memo) for a in n.args]
    if POISON in vals:
        return POISON
    if op == "not":
        return 1 - vals[0]
    bits = dag.INT_BITS.get(n.ty)
    if op in ("sext", "zext", "trunc"):
        sb = n.args[0].ty
        v = vals[0]
        if op == "sext":
            v = dag.as_signed(v, sb)
        return dag.wrap_int(v, n.ty)
    if op in ("add", "sub", "mul"):
        a, b = vals
        if n.attr and "nsw" in n.attr:
            a, b = dag.as_signed(a, n.ty), dag.as_signed(b, n.ty)
            r = {"add": a + b, "sub": a - b, "mul": a * b}[op]
            if not (-(1 << (bits - 1)) <= r < (1 << (bits - 1))):
                return POISON
            return dag.wrap_int(r, n.ty)
        r = {"add": a + b, "sub": a - b, "mul": a * b}[op]
        if not (0 <= r < (1 << bits)):
            return POISON  # the property forbids unsigned wrap as well
        return r
    if op in ("sdiv", "srem"):
        a, b = dag.as_signed(vals[0], n.ty), dag.as_signed(vals[1], n.ty)
        if b == 0 or (b == -1 and a == -(1 << (bits - 1))):
            return POISON
        q = abs(a) // abs(b)
        q = q if (a >= 0) == (b > 0) else -q
        return dag.wrap_int(q if op == "sdiv" else a - q * b, n.ty)
    if op in ("udiv", "urem"):
        a, b = vals
        if b == 0:
            return POISON
        return a // b if op == "udiv" else a % b
    if op in ("ashr", "lshr"):
        a, b = vals
        if not (0 <= b < bits):
            return POISON
        if op == "ashr":
            return dag.wrap_int(dag.as_signed(a, n.ty) >> b, n.ty)
        return a >> b
    if op == "icmp":
        a, b = vals
        ty = n.args[0].ty
        p = n.attr
        if p[0] == "s":
            a, b = dag.as_signed(a, ty), dag.as_signed(b, ty)
        return int({"eq": a == b, "ne": a != b, "slt": a < b, "sle": a <= b, "ult": a < b, "ule": a <= b}[p])
    raise NotImplementedError(op)
