"""Engine S: structural rules over the tree; clang-query runner with positive controls."""
import os
import re

from . import cxx, atoms
from .common import AU_INC, AU_DIR, VERIF_INC, AnalysisBroken


def all_headers_tu(ctx, extra_includes=()):
    """A TU that includes every public, non-test header of the library."""
    hs = []
    for root, dirs, files in os.walk(AU_DIR):
        dirs[:] = [d for d in dirs if d != "test"]
        for f in sorted(files):
            if f.endswith(".hh") and not f.endswith("_test.hh") and "test" not in f.split("_"):
                rel = os.path.relpath(os.path.join(root, f), AU_INC)
                hs.append(rel)
    hs.sort()
    return hs


def clang_query(ctx, tu_text, matchers, std="c++14", tag="q"):
    """matchers: [(name, matcher text)].  Returns {name: [(file, line)]} of root bindings.
    Raises AnalysisBroken if any matcher fails to parse (count of result lines mismatch)."""
    wd = ctx.sub("S")
    src = os.path.join(wd, tag + ".cc")
    with open(src, "w") as f:
        f.write(tu_text)
    cmd = ["clang-query-14", "-c", "set output diag", "-c", "set bind-root true"]
    for name, m in matchers:
        cmd += ["-c", "match " + m]
    cmd += [src, "--", "-std=" + std, "-I" + AU_INC, "-I" + VERIF_INC, "-w"]
    rc, so, se = cxx.run(cmd)
    text = so + "\n" + se
    if re.search(r"\berror: ", se) and "matches." not in so and "match." not in so:
        raise AnalysisBroken("clang-query failed: %s" % se[-600:])
    # split output per command: each ends with "N match(es)."
    results = []
    cur = []
    for ln in so.splitlines():
        m = re.match(r"^(\d+) match(es)?\.$", ln.strip())
        if m:
            results.append((int(m.group(1)), cur))
            cur = []
            continue
        lm = re.match(r'^(\S+?):(\d+):(\d+): note: "root" binds here', ln)
        if lm:
            cur.append((lm.group(1), int(lm.group(2))))
    if len(results) != len(matchers):
        raise AnalysisBroken("clang-query: %d result blocks for %d matchers (a matcher failed to parse?):\n%s"
                             % (len(results), len(matchers), text[-800:]))
    out = {}
    for (name, m), (n, locs) in zip(matchers, results):
        if n != len(locs):
            # bindings other than root may be absent; trust the count, keep what we have
            pass
        out[name] = (n, locs)
    return out
