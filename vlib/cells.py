"""Engine I, part 3: exact partition ("cell") analysis of single-integer-parameter functions.

The input range of the parameter is partitioned into cells = interval x (optional) congruence
class.  Within one cell every guard of the DAG is decided and every integer value is a monotone
quasi-affine form of x:   (p*x + q)/d  exactly,  or  trunc((p*x + q)/d).
Cells are refined (split) until that is true; there is no enumeration of values.  Interval end
points are attained because every form is monotone in x, so range facts are exact, not merely
sound.  Anything the domain cannot express becomes Top; if a Top is needed for a verdict the
function is unanalysable (AnalysisBroken).
"""
from fractions import Fraction
from math import gcd

from . import dag
from .common import AnalysisBroken

MAX_CELLS = 20000


def tdiv(a, b):
    """C++ integer division (truncation toward zero)."""
    q = abs(a) // abs(b)
    return q if (a >= 0) == (b > 0) else -q


class Cell:
    __slots__ = ("lo", "hi", "cls")

    def __init__(self, lo, hi, cls=None):
        self.lo = lo
        self.hi = hi
        self.cls = cls  # None or (M, r, member)

    def first(self):
        return self._snap(self.lo, +1)

    def last(self):
        return self._snap(self.hi, -1)

    def _snap(self, x, step):
        if self.cls is None:
            return x if self.lo <= x <= self.hi else None
        M, r, member = self.cls
        if member:
            if step > 0:
                x2 = x + ((r - x) % M)
            else:
                x2 = x - ((x - r) % M)
        else:
            if M == 1:
                return None
            x2 = x if (x - r) % M != 0 else x + step
        return x2 if self.lo <= x2 <= self.hi else None

    def empty(self):
        return self.lo > self.hi or self.first() is None

    def example(self):
        """A member, preferring one of small magnitude."""
        if self.lo <= 0 <= self.hi:
            for c in (self._snap(0, +1), self._snap(0, -1)):
                if c is not None:
                    return c
        return self.first() if abs(self.lo) <= abs(self.hi) else self.last()

    def count(self):
        if self.empty():
            return 0
        n = self.hi - self.lo + 1
        if self.cls is None:
            return n
        M, r, member = self.cls
        f, l = Cell(self.lo, self.hi, (M, r, True)).first(), Cell(self.lo, self.hi, (M, r, True)).last()
        mem = 0 if f is None else (l - f) // M + 1
        return mem if member else n - mem

    def __repr__(self):
        c = ""
        if self.cls:
            c = " x%s%d(mod %d)" % ("==" if self.cls[2] else "!=", self.cls[1], self.cls[0])
        return "[%d, %d]%s" % (self.lo, self.hi, c)


class Split(Exception):
    def __init__(self, at=None, cls=None, classes=None):
        self.at = at  # cut between at and at+1
        self.cls = cls  # (M, r): members / non-members of one class
        self.classes = classes  # M: every residue class modulo M (combined with the cell's own class)


# abstract integer values -------------------------------------------------------------------------


class Form:
    """(p*x+q)/d exact (kind 'aff') or trunc((p*x+q)/d) (kind 'tr'); d > 0.  Math integers."""
    __slots__ = ("kind", "p", "q", "d")

    def __init__(self, kind, p, q, d):
        if d < 0:
            p, q, d = -p, -q, -d
        g = gcd(gcd(abs(p), abs(q)), d)
        if g > 1:
            p, q, d = p // g, q // g, d // g
        self.kind, self.p, self.q, self.d = kind, p, q, d

    def at(self, x):
        n = self.p * x + self.q
        if self.kind == "aff":
            return Fraction(n, self.d)
        return tdiv(n, self.d)

    def is_const(self):
        return self.p == 0

    def __repr__(self):
        s = "%d*x%+d" % (self.p, self.q) if self.q else "%d*x" % self.p
        if self.d != 1:
            s = "(%s)/%d" % (s, self.d)
        return s if self.kind == "aff" else "trunc(%s)" % s


class Bad:
    """Undefined / wrapped result for every member of the cell; `node` is the first offender.
    (kind 'remainder-narrowed': for the member `example` of the cell, see `detail`.)"""
    __slots__ = ("kind", "node", "example", "detail")

    def __init__(self, kind, node, example=None, detail=""):
        self.kind = kind
        self.node = node
        self.example = example
        self.detail = detail

    def __repr__(self):
        return "Bad(%s)" % self.kind


class NonZero:
    """Some value known only to be non-zero (remainder of a non-divisible class): |value| <= bound;
    it is (p*x + q) rem D where known."""

    def __init__(self, bound=None, p=None, q=None, D=None):
        self.bound, self.p, self.q, self.D = bound, p, q, D

    def __repr__(self):
        return "NonZero"


class Top:
    def __init__(self, why=""):
        self.why = why

    def __repr__(self):
        return "Top(%s)" % self.why


NONZERO = NonZero()


def K(c):
    return Form("aff", 0, c, 1)


def srange(bits):
    return -(1 << (bits - 1)), (1 << (bits - 1)) - 1


def urange(bits):
    return 0, (1 << bits) - 1


class Evaluator:
    def __init__(self, cell, param_index=0, wrap_trunc=False):
        self.cell = cell
        self.memo = {}
        self.pi = param_index
        self.wrap_trunc = wrap_trunc  # model narrowing casts modulo 2^bits instead of as value loss
        self.wrapped = False

    # -- helpers --------------------------------------------------------------------------------
    def ends(self, f):
        a, b = self.cell.first(), self.cell.last()
        va, vb = f.at(a), f.at(b)
        return (va, vb) if va <= vb else (vb, va)

    def boundary(self, f, limit, above):
        """Largest member-agnostic cut t such that the predicate `f(x) > limit` (above) or
        `f(x) < limit` (not above) changes between t and t+1.  f monotone on the cell."""
        lo, hi = self.cell.lo, self.cell.hi
        pred = (lambda x: f.at(x) > limit) if above else (lambda x: f.at(x) < limit)
        a, b = pred(lo), pred(hi)
        if a == b:
            # monotone: constant over the whole interval (members are a subset)
            return None
        # bisection: find t with pred(t) == a and pred(t+1) == b
        l, h = lo, hi
        while h - l > 1:
            m = (l + h) // 2
            if pred(m) == a:
                l = m
            else:
                h = m
        return l

    def exactify(self, f):
        """A truncated form as an exact affine form: on one residue class of x modulo d/gcd(p,d), and
        with the sign of the dividend fixed, trunc((p x + q)/d) == (p x + q - rho)/d for a constant
        rho.  Splits the cell until that holds (a second rounding further down then sees exact
        integers, which is what makes double truncation decidable)."""
        if f.kind == "aff":
            return f
        if f.is_const() or self.cell.first() == self.cell.last():
            return K(int(f.at(self.cell.first())))
        dq = f.d // gcd(abs(f.p), f.d)
        c = self.cell.cls
        if dq > 1:
            if c is not None and not c[2]:
                return Top("exact form needed inside a non-member class")
            if c is None or c[0] % dq != 0:
                if dq > 5000:
                    return Top("too many residue classes (%d)" % dq)
                raise Split(classes=dq)
        num = Form("aff", f.p, f.q, 1)
        mn, mx = self.ends(num)
        if mn < 0 < mx:
            t = self.boundary(num, Fraction(-1, 2), True)
            if t is None:
                return Top("sign split failed")
            raise Split(at=t)
        x0 = self.cell.first()
        rho = (f.p * x0 + f.q) % f.d
        if rho == 0:
            return Form("aff", f.p, f.q, f.d)
        if mn >= 0:
            return Form("aff", f.p, f.q - rho, f.d)
        return Form("aff", f.p, f.q + f.d - rho, f.d)

    def in_range(self, f, lo, hi, node, kind):
        """Ensures f within [lo,hi] on the whole cell, splitting if needed.  Returns f or Bad."""
        mn, mx = self.ends(f)
        if mn >= lo and mx <= hi:
            return f
        if mn > hi or mx < lo:
            return Bad(kind, node)
        t = self.boundary(f, hi, True) if mx > hi else None
        if t is None:
            t = self.boundary(f, lo, False)
        if t is None:
            # members inside, but non-member end points outside: snap handled by ends(); cannot happen
            raise AnalysisBroken("range split failed for %r on %r" % (f, self.cell))
        raise Split(at=t)

    def view(self, v, bits, signed, node):
        """Reinterpret the bit pattern of v (math int M, pattern M mod 2^bits) as signed/unsigned."""
        if not isinstance(v, Form):
            return v
        lo, hi = srange(bits) if signed else urange(bits)
        mn, mx = self.ends(v)
        if mn >= lo and mx <= hi:
            return v
        # pattern must be in [-(2^(bits-1)), 2^bits - 1] by construction
        span = 1 << bits
        if signed:
            # values >= 2^(bits-1) denote M - 2^bits
            if mn > hi:
                return Form(v.kind, v.p, v.q - span * v.d, v.d)
            t = self.boundary(v, hi, True)
        else:
            if mx < lo:
                return Form(v.kind, v.p, v.q + span * v.d, v.d)
            t = self.boundary(v, lo, False)
        if t is None:
            raise AnalysisBroken("view split failed for %r on %r" % (v, self.cell))
        raise Split(at=t)

    # -- evaluation -----------------------------------------------------------------------------
    def ev(self, n):
        k = id(n)
        if k in self.memo:
            return self.memo[k]
        r = self._ev(n)
        self.memo[k] = r
        return r

    def _ev(self, n):
        op = n.op
        if op == "param":
            if n.attr != self.pi:
                return Top("other parameter")
            return Form("aff", 1, 0, 1)
        if op == "ub_const":
            return Bad("signed-overflow", n)
        if op == "const":
            if n.ty not in dag.INT_BITS:
                return Top("fp const")
            return K(n.cval())  # unsigned pattern; view() converts on demand
        if op in ("and", "or", "not") and n.ty == "i1":
            vals = [self.ev(a) for a in n.args]
            # logical and/or stem from branches / selects: a decided operand short-circuits
            for v in vals:
                if isinstance(v, Form) and v.is_const() and op in ("and", "or"):
                    if op == "and" and v.q == 0:
                        return K(0)
                    if op == "or" and v.q == 1:
                        return K(1)
            for v in vals:
                if isinstance(v, Bad):
                    return v
            bs = []
            for v in vals:
                if not (isinstance(v, Form) and v.is_const() and v.q in (0, 1)):
                    return Top("undecided bool")
                bs.append(v.q)
            if op == "and":
                return K(1 if all(bs) else 0)
            if op == "or":
                return K(1 if any(bs) else 0)
            return K(1 - bs[0])
        if op == "select":
            c = self.ev(n.args[0])
            if isinstance(c, Bad):
                return c
            if not (isinstance(c, Form) and c.is_const()):
                return Top("undecided select condition")
            return self.ev(n.args[1] if c.q else n.args[2])
        if n.ty not in dag.INT_BITS:
            return Top("non-integer node %s" % op)
        bits = dag.INT_BITS[n.ty]
        if op in ("sext", "zext", "trunc"):
            a = self.ev(n.args[0])
            if isinstance(a, NonZero) and op == "trunc":
                # a non-zero remainder survives a narrowing only if it cannot be a multiple of 2^bits
                if a.bound is not None and a.bound < (1 << bits):
                    return a
                c = self.cell.cls
                if a.D is not None and a.p is not None and abs(a.p) == 1 and (c is None or not c[2]):
                    # is there a member of the cell whose remainder is a NON-ZERO multiple of 2^bits
                    # (read as zero after the cast)?  With p = +-1 the residues of p*x + q over the
                    # cell are one or two runs of consecutive values.
                    span, D = 1 << bits, a.D
                    lo, hi = self.cell.lo, self.cell.hi
                    wit = None
                    if hi - lo + 1 >= D:
                        want = span % D
                        start = max(lo, 0) if hi >= 0 else lo
                        x0 = ((want - a.q) * a.p) % D
                        wit = start + ((x0 - start) % D)
                    else:
                        e1, e2 = (a.p * lo + a.q) % D, (a.p * hi + a.q) % D
                        if a.p < 0:
                            e1, e2 = e2, e1
                        runs = [(e1, e2)] if e1 <= e2 else [(e1, D - 1), (0, e2)]
                        for (ra, rb) in runs:
                            m = max(span, -(-ra // span) * span)
                            if m <= rb:
                                x0 = ((m - a.q) * a.p) % D
                                wit = lo + ((x0 - lo) % D)
                                break
                    if wit is None:
                        return a  # no member's remainder is a non-zero multiple of 2^bits
                    if wit <= hi:
                        return Bad("remainder-narrowed", n, example=wit,
                                   detail="the remainder by %d is narrowed to %d bits before it is tested: for x = %d it is a non-zero multiple of 2^%d, read as 0" % (D, bits, wit, bits))
                return Top("non-zero remainder narrowed to %d bits" % bits)
            if not isinstance(a, Form):
                return a
            sb = dag.INT_BITS[n.args[0].ty]
            if op == "sext":
                return self.view(a, sb, True, n)
            if op == "zext":
                return self.view(a, sb, False, n)
            # trunc: keep M when its pattern survives (fits signed or unsigned view of the target)
            mn, mx = self.ends(a)
            if mn >= srange(bits)[0] and mx <= urange(bits)[1]:
                return a
            if not self.wrap_trunc:
                if mn > urange(bits)[1] or mx < srange(bits)[0]:
                    return Bad("trunc-loses-value", n)
                t = self.boundary(a, urange(bits)[1], True) if mx > urange(bits)[1] else self.boundary(a, srange(bits)[0], False)
                raise Split(at=t)
            # exact modular semantics (a checker may legitimately look at a wrapped value): on a
            # cell where floor(M / 2^bits) is constant the result is M - k*2^bits, else split there
            span = 1 << bits
            import math
            k1, k2 = math.floor(mn / span), math.floor(mx / span)
            if k1 == k2:
                self.wrapped = True
                return Form(a.kind, a.p, a.q - k1 * span * a.d, a.d)
            lim = (k1 + 1) * span - 1 if a.p >= 0 else None
            if a.p >= 0:
                t = self.boundary(a, (k1 + 1) * span - Fraction(1, 2), True)
            else:
                t = self.boundary(a, (k2) * span - Fraction(1, 2), True)
            if t is None:
                return Top("wrap split failed")
            raise Split(at=t)
        if op in ("add", "sub", "mul"):
            signed = n.attr is not None and "nsw" in n.attr
            a = self.ev(n.args[0])
            b = self.ev(n.args[1])
            for v in (a, b):
                if isinstance(v, (Bad, Top)):
                    return v
            if not (isinstance(a, Form) and isinstance(b, Form)):
                return Top("arith on non-form")
            a = self.view(a, bits, signed, n)
            b = self.view(b, bits, signed, n)
            if op == "mul":
                if a.is_const() and a.kind == "aff":
                    k, f = a.at(0), b
                elif b.is_const() and b.kind == "aff":
                    k, f = b.at(0), a
                else:
                    return Top("non-linear mul")
                if f.kind != "aff" and not f.is_const() and k.denominator == 1:
                    f = self.exactify(f)
                    if not isinstance(f, Form):
                        return f
                if f.kind != "aff" or k.denominator != 1:
                    if f.is_const():
                        r = K(int(f.at(0) * k))
                    else:
                        return Top("mul of truncated form")
                else:
                    r = Form("aff", f.p * int(k), f.q * int(k), f.d)
            else:
                if (a.kind != "aff" or b.kind != "aff") and not (a.is_const() and b.is_const()):
                    a, b = self.exactify(a), self.exactify(b)
                    for v in (a, b):
                        if not isinstance(v, Form):
                            return v
                if a.kind != "aff" or b.kind != "aff":
                    if a.is_const() and b.is_const():
                        va, vb = a.at(0), b.at(0)
                        r = K(int(va + vb if op == "add" else va - vb))
                    elif b.is_const() and a.kind == "tr" and False:
                        r = None
                    else:
                        return Top("add/sub of truncated form")
                else:
                    s = 1 if op == "add" else -1
                    r = Form("aff", a.p * b.d + s * b.p * a.d, a.q * b.d + s * b.q * a.d, a.d * b.d)
            lo, hi = srange(bits) if signed else urange(bits)
            return self.in_range(r, lo, hi, n, "signed-overflow" if signed else "unsigned-wrap")
        if op in ("sdiv", "udiv"):
            signed = op == "sdiv"
            a = self.ev(n.args[0])
            b = self.ev(n.args[1])
            for v in (a, b):
                if isinstance(v, (Bad, Top)):
                    return v
            a = self.view(a, bits, signed, n)
            b = self.view(b, bits, signed, n)
            if not (isinstance(b, Form) and b.is_const()):
                return Top("division by non-constant")
            D = int(b.at(0))
            if D == 0:
                return Bad("division-by-zero", n)
            if not isinstance(a, Form):
                return Top("div of non-form")
            if a.is_const():
                return K(tdiv(int(a.at(0)), D)) if a.kind == "tr" or a.at(0).denominator == 1 else Top("fractional const")
            if D == -1 and signed:
                mn, mx = self.ends(a)
                if mn <= srange(bits)[0]:
                    return Top("INT_MIN / -1 possible")
            nd = a.d * abs(D)
            p, q = (a.p, a.q) if D > 0 else (-a.p, -a.q)
            if a.kind == "aff" and self.divisible(p, q, nd):
                return Form("aff", p, q, nd)
            if a.kind == "tr" and not signed:
                return Form("tr", p, q, nd)
            if a.kind == "tr":
                return Form("tr", p, q, nd)  # trunc(trunc(a/d)/D) == trunc(a/(d*D)) for d, D > 0
            return Form("tr", p, q, nd)
        if op in ("ashr", "lshr"):
            # a right shift by a constant of a value that the cell shows to be non-negative is the
            # truncating division by 2^k; for a value of either sign the cell is split at zero; a
            # negative value under `ashr` rounds toward minus infinity, which the forms do not express
            a = self.ev(n.args[0])
            b = self.ev(n.args[1])
            for v in (a, b):
                if isinstance(v, (Bad, Top)):
                    return v
            if not (isinstance(b, Form) and b.is_const() and isinstance(a, Form)):
                return Top("shift by a non-constant")
            k = int(b.at(0))
            if not (0 <= k < bits):
                return Bad("signed-overflow", n)  # shift count out of range: undefined
            a = self.view(a, bits, op == "ashr", n)
            if a.is_const():
                v = int(a.at(0))
                return K(v >> k) if a.at(0).denominator == 1 else Top("fractional const")
            mn, mx = self.ends(a)
            if mn >= 0:
                return Form("tr", a.p, a.q, a.d * (1 << k))
            if mx < 0:
                return Top("arithmetic right shift of a negative value")
            t = self.boundary(a, -1, True)
            if t is None:
                return Top("shift split failed")
            raise Split(at=t)
        if op in ("srem", "urem"):
            signed = op == "srem"
            a = self.ev(n.args[0])
            b = self.ev(n.args[1])
            for v in (a, b):
                if isinstance(v, (Bad, Top)):
                    return v
            a = self.view(a, bits, signed, n)
            b = self.view(b, bits, signed, n)
            if not (isinstance(b, Form) and b.is_const()):
                return Top("remainder by non-constant")
            D = abs(int(b.at(0)))
            if D == 0:
                return Bad("division-by-zero", n)
            if not isinstance(a, Form) or a.kind != "aff" or a.d != 1:
                return Top("remainder of non-affine form")
            if a.is_const():
                v = int(a.at(0))
                return K(abs(v) % D * (1 if v >= 0 else -1))
            if D == 1:
                return K(0)
            # (p x + q) == 0 (mod D)  <=>  x == r (mod M)
            g = gcd(a.p, D)
            if a.q % g != 0:
                return NonZero(D - 1, a.p, a.q, D)
            M = D // g
            if M == 1:
                return K(0)
            r = (-(a.q // g) * pow(a.p // g, -1, M)) % M
            c = self.cell.cls
            if c is None:
                raise Split(cls=(M, r))
            if (c[0], c[1]) == (M, r):
                return K(0) if c[2] else NonZero(D - 1, a.p, a.q, D)
            if c[2] and c[0] % M == 0 and c[1] % M == r:
                return K(0)  # member of a finer class
            if c[2] and c[0] % M == 0 and c[1] % M != r:
                return NonZero(D - 1, a.p, a.q, D)  # member of a finer class that misses the divisible one
            return Top("second congruence class (mod %d) inside cell with class mod %d" % (M, c[0]))
        if op == "icmp":
            pred = n.attr
            a = self.ev(n.args[0])
            b = self.ev(n.args[1])
            for v in (a, b):
                if isinstance(v, (Bad, Top)):
                    return v
            sb = dag.INT_BITS[n.args[0].ty]
            if pred in ("eq", "ne"):
                if isinstance(a, NonZero) or isinstance(b, NonZero):
                    other = b if isinstance(a, NonZero) else a
                    if isinstance(other, Form) and other.is_const() and int(other.at(0)) % (1 << sb) == 0:
                        return K(1 if pred == "ne" else 0)
                    return Top("NonZero compared with non-zero")
                signed = True
            else:
                signed = pred[0] == "s"
            if not (isinstance(a, Form) and isinstance(b, Form)):
                return Top("compare of non-forms")
            if pred in ("eq", "ne"):
                # compare in one common view: try signed, else unsigned
                try:
                    a2, b2 = self.view(a, sb, True, n), self.view(b, sb, True, n)
                except Split:
                    raise
                a, b = a2, b2
            else:
                a = self.view(a, sb, signed, n)
                b = self.view(b, sb, signed, n)
            # reduce to sign of a monotone difference
            if a.is_const() and b.is_const():
                va, vb = a.at(0), b.at(0)
                res = {"eq": va == vb, "ne": va != vb, "slt": va < vb, "sle": va <= vb,
                       "ult": va < vb, "ule": va <= vb}[pred]
                return K(1 if res else 0)
            if b.is_const():
                f, c, flip = a, b.at(0), False
            elif a.is_const():
                f, c, flip = b, a.at(0), True
            elif a.kind == "aff" and b.kind == "aff":
                f = Form("aff", a.p * b.d - b.p * a.d, a.q * b.d - b.q * a.d, a.d * b.d)
                c, flip = Fraction(0), False
            else:
                return Top("compare of two truncated forms")
            # truth of (f ? c) with ? in lt/le/eq/ne (after possible flip)
            mn, mx = self.ends(f)
            base = pred[1:] if pred not in ("eq", "ne") else pred
            if flip and base in ("lt", "le"):
                # c < f  <=>  f > c ;  c <= f <=> f >= c
                want = "gt" if base == "lt" else "ge"
            else:
                want = base

            def truth(v):
                return {"lt": v < c, "le": v <= c, "gt": v > c, "ge": v >= c, "eq": v == c, "ne": v != c}[want]

            ta, tb = truth(mn), truth(mx)
            if want in ("eq", "ne"):
                inside = mn <= c <= mx
                if not inside:
                    return K(1 if want == "ne" else 0)
                if mn == mx == c:
                    return K(1 if want == "eq" else 0)
                # isolate the sub-interval where f == c
                t = self.boundary(f, c, True) if mx > c else None
                if t is None:
                    t = self.boundary(f, c, False)
                raise Split(at=t)
            if ta == tb:
                return K(1 if ta else 0)
            # find the cut
            strict_above = want in ("gt", "le")  # predicate changes where f crosses above c
            t = self.boundary(f, c, True) if strict_above else self.boundary(f, c, False)
            if t is None:
                # the change happens only between non-members; evaluate on members => constant
                return K(1 if ta else 0)
            raise Split(at=t)
        return Top("unsupported op %s" % op)

    def divisible(self, p, q, nd):
        """(p*x+q) divisible by nd for every member of the cell?"""
        if nd == 1:
            return True
        c = self.cell.cls
        if self.cell.first() == self.cell.last():
            return (p * self.cell.first() + q) % nd == 0
        if c is None or not c[2]:
            return p % nd == 0 and q % nd == 0
        M, r, _ = c
        return (p * M) % nd == 0 and (p * r + q) % nd == 0


def analyse(roots, lo, hi, param_index=0, pre_classes=(), ret_views=None, arith=None, wrap_roots=None):
    """roots: {name: dag.Node}.  Returns [(Cell, {name: abstract value})] partitioning [lo,hi].
    ret_views: {name: (bits, signed)} - C++ type of the value; a root whose bit pattern has to be
    re-interpreted to be read in that type becomes Bad('narrowing-changes-value').
    arith: {name: [(guard, node)]} - every arithmetic / cast instruction of a function (dead ones
    included: the inliner may fold their uses away but never deletes them); the first one that is
    Bad on a cell where its guard holds is reported as res['!'+name].
    wrap_roots: names of roots (checkers) in which a narrowing cast is modelled with its exact
    modular semantics instead of as a loss of value."""
    work = [Cell(lo, hi)]
    for (M, r) in pre_classes:
        nxt = []
        for c in work:
            nxt += [Cell(c.lo, c.hi, (M, r, True)), Cell(c.lo, c.hi, (M, r, False))]
        work = nxt
    done = []
    steps = 0
    while work:
        cell = work.pop()
        if cell.empty():
            continue
        steps += 1
        if steps > MAX_CELLS:
            raise AnalysisBroken("cell refinement did not converge (%d cells)" % steps)
        e = Evaluator(cell, param_index)
        ew = Evaluator(cell, param_index, wrap_trunc=True)
        try:
            res = {k: (ew if k in (wrap_roots or ()) else e).ev(n) for k, n in roots.items()}
            for k, (bits, signed) in (ret_views or {}).items():
                v = res.get(k)
                if isinstance(v, Form):
                    v2 = e.view(v, bits, signed, roots[k])
                    if (v2.kind, v2.p, v2.q, v2.d) != (v.kind, v.p, v.q, v.d):
                        res[k] = Bad("narrowing-changes-value", roots[k])
            for k, lst in (arith or {}).items():
                first_bad = None
                ea = ew if k in (wrap_roots or ()) else e
                for g, node in lst:
                    gv = ea.ev(g)
                    if isinstance(gv, Bad):
                        continue  # guard itself depends on an undefined value: reported via its source
                    gb = as_bool(gv)
                    if gb is None:
                        if k in (wrap_roots or ()):
                            continue  # a checker's dead instruction under a guard this domain cannot decide
                        raise AnalysisBroken("guard of %s undecided on %r: %r" % (node.pretty()[:80], cell, gv))
                    if not gb:
                        continue
                    v = ea.ev(node)
                    if isinstance(v, Bad) and first_bad is None:
                        first_bad = v
                res["!" + k] = first_bad
        except Split as s:
            if s.classes is not None:
                M2 = s.classes
                if cell.cls is None:
                    new = [Cell(cell.lo, cell.hi, (M2, r, True)) for r in range(M2)]
                elif cell.cls[2]:
                    M1, r1, _ = cell.cls
                    L = M1 * M2 // gcd(M1, M2)
                    new = [Cell(cell.lo, cell.hi, (L, r1 + M1 * j, True)) for j in range(L // M1)]
                else:
                    raise AnalysisBroken("residue split inside non-member class on %r" % cell)
                if len(new) > 5000:
                    raise AnalysisBroken("residue split into %d classes on %r" % (len(new), cell))
                work += new
            elif s.cls is not None:
                M, r = s.cls
                if cell.cls is not None:
                    raise AnalysisBroken("nested congruence split on %r" % cell)
                work += [Cell(cell.lo, cell.hi, (M, r, True)), Cell(cell.lo, cell.hi, (M, r, False))]
            else:
                t = s.at
                if t is None or not (cell.lo <= t < cell.hi):
                    raise AnalysisBroken("bad split point %r for %r" % (t, cell))
                work += [Cell(cell.lo, t, cell.cls), Cell(t + 1, cell.hi, cell.cls)]
            continue
        done.append((cell, res))
    done.sort(key=lambda cr: (cr[0].lo, cr[0].hi, repr(cr[0].cls)))
    return done


def as_bool(v):
    if isinstance(v, Form) and v.is_const() and v.kind == "aff" and v.at(0) in (0, 1):
        return bool(v.at(0))
    return None
