"""Discovery of the library's named units / constants from the current tree (engine S, textual),
and read-out of their dimension / magnitude / label through constant extraction (engine W)."""
import glob
import os
import re
from fractions import Fraction

from .common import AU_DIR, AnalysisBroken
from . import extract

PREFIXES_SI = ["Quetta", "Ronna", "Yotta", "Zetta", "Exa", "Peta", "Tera", "Giga", "Mega", "Kilo",
               "Hecto", "Deka", "Deci", "Centi", "Milli", "Micro", "Nano", "Pico", "Femto", "Atto",
               "Zepto", "Yocto", "Ronto", "Quecto"]
PREFIXES_BIN = ["Kibi", "Mebi", "Gibi", "Tebi", "Pebi", "Exbi", "Zebi", "Yobi"]


class UnitAtom:
    def __init__(self, name, header):
        self.name = name  # C++ type name in namespace au
        self.header = header  # "au/units/feet.hh"
        self.maker = None  # quantity maker name
        self.pt_maker = None
        self.singular = None
        self.symbols = []
        self.declared = []  # (kind, qualified name) of every spelling object in the unit's header
        self.dim = None  # {base_index: Fraction}
        self.mag = None  # {prime or 0 for pi: Fraction}
        self.label = None
        self.has_origin = False

    def __repr__(self):
        return "UnitAtom(%s)" % self.name


def strip_comments(text):
    text = re.sub(r"/\*.*?\*/", " ", text, flags=re.S)
    text = re.sub(r"//[^\n]*", "", text)
    return text


def discover_units(ctx, floor=57):
    units = []
    udir = os.path.join(AU_DIR, "units")
    for fwd in sorted(glob.glob(os.path.join(udir, "*_fwd.hh"))):
        base = os.path.basename(fwd)[:-len("_fwd.hh")]
        main = os.path.join(udir, base + ".hh")
        if not os.path.exists(main):
            raise AnalysisBroken("unit forward header without main header: %s" % fwd)
        ftxt = strip_comments(open(fwd).read())
        names = re.findall(r"^\s*struct\s+([A-Z]\w*)\s*;", ftxt, flags=re.M)
        mtxt = strip_comments(open(main).read())
        for n in names:
            if not re.search(r"\bstruct\s+%s\b\s*(:|\{)" % n, mtxt):
                continue  # declared in fwd but defined elsewhere; C20 handles agreement
            u = UnitAtom(n, "au/units/%s.hh" % base)
            m = re.findall(r"constexpr\s+auto\s+(\w+)\s*=\s*QuantityMaker<%s>\{\}" % n, mtxt)
            # skip deprecated aliases: take the first maker not preceded by [[deprecated
            for mk in m:
                pos = mtxt.find("constexpr auto %s = QuantityMaker<%s>" % (mk, n))
                before = mtxt[max(0, pos - 400):pos]
                last_stmt = before.rsplit(";", 1)[-1]
                if "deprecated" in last_stmt:
                    continue
                u.maker = mk
                break
            m = re.findall(r"constexpr\s+auto\s+(\w+)\s*=\s*QuantityPointMaker<%s>\{\}" % n, mtxt)
            if m:
                u.pt_maker = m[0]
            m = re.findall(r"constexpr\s+auto\s+(\w+)\s*=\s*SingularNameFor<%s>\{\}" % n, mtxt)
            if m:
                u.singular = m[0]
            u.symbols = re.findall(r"constexpr\s+auto\s+(\w+)\s*=\s*SymbolFor<%s>\{\}" % n, mtxt)
            # every spelling object the header declares, whatever unit its template argument names
            # (a header that defines ONE unit promises that all of them denote that unit)
            u.declared = []
            defined = [x for x in re.findall(r"\bstruct\s+([A-Z]\w*)\s*(?::|\{)", mtxt) if not x.endswith("Label")]
            if defined == [n]:
                for mm in re.finditer(r"constexpr\s+auto\s+(\w+)\s*=\s*(QuantityMaker|QuantityPointMaker|SingularNameFor|SymbolFor)<\s*(\w+)\s*>\s*\{\}", mtxt):
                    ns = "au::symbols::" if mm.group(2) == "SymbolFor" and re.search(r"namespace\s+symbols", mtxt[:mm.start()]) else "au::"
                    u.declared.append((mm.group(2), ns + mm.group(1)))
            units.append(u)
    if len(units) < floor:
        raise AnalysisBroken("only %d library units discovered (floor %d)" % (len(units), floor))
    return units


def unit_includes(units):
    return "".join('#include "%s"\n' % h for h in sorted({u.header for u in units}))


def readout_units(ctx, units, prelude):
    """Fill dim / mag / label of each atom from the compiler's constant evaluator."""
    ex = extract.Extractor(ctx, prelude=prelude, tag="atoms")
    for u in units:
        ex.add("d_%s" % u.name, "auv::Flat", "auv::flat(auv::dim_of<au::%s>())" % u.name)
        ex.add("m_%s" % u.name, "auv::Flat", "auv::flat(auv::mag_of<au::%s>())" % u.name)
        ex.add("l_%s" % u.name, "auv::Text", "auv::text(au::unit_label(au::%s{}))" % u.name)
        ex.add("o_%s" % u.name, "bool",
               "au::stdx::experimental::is_detected<au::detail::OriginMemberType, au::%s>::value" % u.name)
    vals = ex.run()
    for u in units:
        for k in ("d_", "m_", "l_", "o_"):
            if vals[k + u.name][0] == "error":
                raise AnalysisBroken("read-out of library unit %s failed: %s" % (u.name, vals[k + u.name][1]))
        u.dim = dict(extract.flat_to_pack(vals["d_" + u.name], signed_ids=True))
        u.mag = dict(extract.flat_to_pack(vals["m_" + u.name]))
        size, raw = extract.text_of(vals["l_" + u.name])
        u.label = raw[:-1].decode("latin-1")
        u.has_origin = bool(vals["o_" + u.name][2])
    # Named units of identical dimension and magnitude, none with an origin: is there ANY criterion
    # left that orders them (the documented limitation says there need not be)?  Asked of the
    # compiler pair by pair - whatever mechanism the library uses - and recorded as a class id:
    # two units with equal (dim, mag, has_origin, tiebreak) cannot share a pack.
    from . import model
    groups = {}
    for u in units:
        u.tiebreak = 0
        if not u.has_origin:
            groups.setdefault((model.key(u.dim), model.key(u.mag)), []).append(u)
    ex = extract.Extractor(ctx, prelude=prelude, tag="atoms_ties")
    pairs = []
    for g in groups.values():
        for i, a in enumerate(g):
            for b in g[i + 1:]:
                pairs.append((a, b))
                ex.add("tie_%s_%s" % (a.name, b.name), "bool",
                       "(au::InOrderFor<au::UnitProduct, au::%s, au::%s>::value != au::InOrderFor<au::UnitProduct, au::%s, au::%s>::value)" % (a.name, b.name, b.name, a.name),
                       group=len(pairs))
    if pairs:
        vals = ex.run()
        parent = {}

        def find(x):
            while parent.get(x, x) != x:
                x = parent[x]
            return x
        for a, b in pairs:
            v = vals["tie_%s_%s" % (a.name, b.name)]
            if v[0] == "error" or not v[2]:
                parent[find(b.name)] = find(a.name)
        for g in groups.values():
            classes = sorted({find(u.name) for u in g})
            for u in g:
                u.tiebreak = classes.index(find(u.name))
    return units


def discover_constants(ctx, floor=9):
    out = []
    cdir = os.path.join(AU_DIR, "constants")
    for h in sorted(glob.glob(os.path.join(cdir, "*.hh"))):
        txt = strip_comments(open(h).read())
        for m in re.finditer(r"constexpr\s+auto\s+(\w+)\s*=\s*make_constant\(", txt):
            out.append((m.group(1), "au/constants/" + os.path.basename(h)))
    if len(out) < floor:
        raise AnalysisBroken("only %d library constants discovered (floor %d)" % (len(out), floor))
    return out


def dim_key(dim):
    return tuple(sorted((k, v) for k, v in dim.items()))


def mag_key(mag):
    return tuple(sorted((k, v) for k, v in mag.items()))


BASE_UNIT_DIMENSIONS = [("Meters", "Length"), ("Grams", "Mass"), ("Seconds", "Time"), ("Amperes", "Current"), ("Kelvins", "Temperature"),
                        ("Radians", "Angle"), ("Bits", "Information"), ("Moles", "AmountOfSubstance"), ("Candelas", "LuminousIntensity")]


def anchor_code(units):
    """static_asserts that tie the dimensions read out of the tree to something OUTSIDE it: the nine
    public dimension aliases are the nine base dimensions (pairwise different), and each base unit
    has the dimension its definition in the SI (resp. radians, bits) gives it.  Every other
    dimension the checks use is read out of the types relative to these."""
    names = {u.name for u in units}
    ls = []
    dims = [d for _, d in BASE_UNIT_DIMENSIONS]
    for d in dims:
        ls.append('static_assert(std::is_same<au::%s, au::Dimension<au::base_dim::%s>>::value, "au::%s is the base dimension of that name");' % (d, d, d))
    for i, a in enumerate(dims):
        for b in dims[i + 1:]:
            ls.append('static_assert(!std::is_same<au::%s, au::%s>::value, "%s and %s are different dimensions");' % (a, b, a, b))
    for u, d in BASE_UNIT_DIMENSIONS:
        if u in names:
            ls.append('static_assert(std::is_same<au::detail::DimT<au::%s>, au::%s>::value, "%s measures %s");' % (u, d, u, d))
    return "\n".join(ls)


def spelling_code(u):
    """Every spelling object declared in the unit's own header denotes that unit."""
    ls = []
    for kind, qn in u.declared:
        trait = "au::AssociatedUnitForPointsT" if kind == "QuantityPointMaker" else "au::AssociatedUnitT"
        ls.append('static_assert(std::is_same<%s<std::decay_t<decltype(%s)>>, au::%s>::value, "%s (declared in %s) denotes %s");'
                  % (trait, qn, u.name, qn, u.header, u.name))
    return "\n".join(ls)
