"""Engine I, part 1: producing and parsing the LLVM IR of wrapper functions.

IR is produced by clang (front-end IR, no LLVM optimisation passes except SROA / inlining /
SimplifyCFG, so every arithmetic operation of the source is still present with its nsw flag).
The parser accepts exactly the fragment listed in DESIGN.md 2.3; anything else makes the function
*unanalysable* (AnalysisBroken), never a pass and never a violation.
"""
import os
import re
import struct
from fractions import Fraction

from . import cxx
from .common import AU_INC, VERIF_INC, AnalysisBroken

OPT_PASSES = "function(sroa),cgscc(inline),function(sroa,simplifycfg)"


def build_ir(ctx, src_text, name, std="c++14", extra=()):
    """Returns path of the optimised .ll (debug info kept)."""
    wd = ctx.sub("IR")
    cc = os.path.join(wd, name + ".cc")
    raw = os.path.join(wd, name + ".raw.ll")
    out = os.path.join(wd, name + ".ll")
    with open(cc, "w") as f:
        f.write(src_text)
    cmd = ["clang++", "-std=" + std, "-g", "-I" + AU_INC, "-I" + VERIF_INC, "-O1", "-Xclang",
           "-disable-llvm-passes", "-S", "-emit-llvm",
           "-ferror-limit=0", "-fno-caret-diagnostics", "-fno-color-diagnostics", "-w",
           "-fconstexpr-steps=100000000"] + list(extra) + [cc, "-o", raw]
    rc, so, se = cxx.run(cmd)
    if rc != 0:
        return None, se
    rc, so, se2 = cxx.run(["opt-14", "-S", "-inline-threshold=1000000", "-passes=" + OPT_PASSES, raw, "-o", out])
    if rc != 0:
        raise AnalysisBroken("opt-14 failed on %s: %s" % (raw, se2[-500:]))
    os.unlink(raw)
    return out, se


# -------------------------------------------------------------------------------------------------
# data model


class Val:
    """Operand: ('v', name) SSA value / ('c', int) / ('f', Fraction|'nan'|'inf'|'-inf') / ('u',) undef"""
    __slots__ = ("kind", "v", "ty")

    def __init__(self, kind, v, ty):
        self.kind = kind
        self.v = v
        self.ty = ty

    def __repr__(self):
        return "%s:%s" % (self.v, self.ty) if self.kind != "v" else "%%%s" % self.v


class Instr:
    __slots__ = ("res", "op", "ty", "args", "flags", "pred", "callee", "dbg", "raw", "src_ty", "targets", "incoming")

    def __init__(self):
        self.res = None
        self.op = None
        self.ty = None
        self.args = []
        self.flags = set()
        self.pred = None
        self.callee = None
        self.dbg = None
        self.raw = ""
        self.src_ty = None
        self.targets = []
        self.incoming = []

    def __repr__(self):
        return self.raw.strip()


class Func:
    def __init__(self, name):
        self.name = name
        self.params = []  # [(ty, name, attrs)]
        self.ret_ty = None
        self.blocks = {}  # label -> [Instr]
        self.order = []
        self.entry = None

    def instrs(self):
        for l in self.order:
            for i in self.blocks[l]:
                yield l, i


class Module:
    def __init__(self):
        self.funcs = {}
        self.meta = {}
        self.path = None
        self.globals = {}  # name -> bytes of a c"..." initialiser (string constants only)
        self.undefined = set()  # globals this unit only DECLARES (external / available_externally): some other unit must define them

    def loc_chain(self, dbg):
        """-> [(file, line)] from innermost to outermost (inlinedAt chain)."""
        out = []
        seen = 0
        while dbg is not None and seen < 50:
            seen += 1
            txt = self.meta.get(dbg)
            if txt is None:
                break
            m = re.search(r"DILocation\(line: (\d+)(?:, column: \d+)?, scope: !(\d+)(?:, inlinedAt: !(\d+))?", txt)
            if not m:
                break
            out.append((self._file_of_scope(m.group(2)), int(m.group(1))))
            dbg = m.group(3)
        return out

    def _file_of_scope(self, sid):
        for _ in range(30):
            txt = self.meta.get(sid, "")
            m = re.search(r"file: !(\d+)", txt)
            if m:
                ftxt = self.meta.get(m.group(1), "")
                fm = re.search(r'filename: "([^"]*)"', ftxt)
                if fm:
                    return fm.group(1)
            m = re.search(r"scope: !(\d+)", txt)
            if not m:
                return "?"
            sid = m.group(1)
        return "?"

    def where(self, dbg):
        """Innermost location inside the Au headers, formatted."""
        ch = self.loc_chain(dbg)
        for f, l in ch:
            if "/au/code/au/" in f:
                return "%s:%d" % (f.split("/au/code/", 1)[1], l)
        return "%s:%d" % ch[0] if ch else "?"


# -------------------------------------------------------------------------------------------------
# parsing

_TY = r"(?:i\d+|float|double|x86_fp80|half|void)"
_INT_BIN = {"add", "sub", "mul", "sdiv", "udiv", "srem", "urem", "shl", "lshr", "ashr", "and", "or", "xor"}
_FP_BIN = {"fadd", "fsub", "fmul", "fdiv", "frem"}
_CASTS = {"zext", "sext", "trunc", "sitofp", "uitofp", "fptosi", "fptoui", "fpext", "fptrunc", "bitcast"}


def parse_float_tok(tok, ty):
    if ty == "x86_fp80":
        raw = int(tok[3:], 16)
        sign = (raw >> 79) & 1
        exp = (raw >> 64) & 0x7FFF
        mant = raw & ((1 << 64) - 1)
        if exp == 0x7FFF:
            if (mant << 1) & ((1 << 64) - 1) == 0:
                return "-inf" if sign else "inf"
            return "nan"
        v = Fraction(mant) * Fraction(2) ** ((exp if exp else 1) - 16383 - 63)
        return -v if sign else v
    if tok.startswith("0x"):
        d = struct.unpack(">d", int(tok[2:], 16).to_bytes(8, "big"))[0]
    else:
        d = float(tok)
    if d != d:
        return "nan"
    if d == float("inf"):
        return "inf"
    if d == float("-inf"):
        return "-inf"
    if d == 0 and str(d).startswith("-"):
        return "-0"
    return Fraction(d)


def _operand(tok, ty):
    tok = tok.strip()
    if tok.startswith("%"):
        return Val("v", tok[1:].strip('"'), ty)
    if tok in ("true", "false"):
        return Val("c", 1 if tok == "true" else 0, ty)
    if tok in ("undef", "poison"):
        return Val("u", None, ty)
    if ty in ("float", "double", "x86_fp80", "half"):
        return Val("f", parse_float_tok(tok, ty), ty)
    if re.match(r"^-?\d+$", tok):
        return Val("c", int(tok), ty)
    if tok == "zeroinitializer":
        return Val("c", 0, ty)
    raise AnalysisBroken("unparsable operand %r of type %s" % (tok, ty))


def _strip_meta(line):
    dbg = None
    m = re.search(r", !dbg !(\d+)", line)
    if m:
        dbg = m.group(1)
    line = re.sub(r", ![A-Za-z_.]+ !\d+", "", line)
    line = re.sub(r"\s+#\d+\s*$", "", line)
    return line.rstrip(), dbg


def parse_module(path, only=None):
    mod = Module()
    mod.path = path
    cur = None
    curblock = None
    with open(path) as f:
        lines = f.read().split("\n")
    for ln in lines:
        if ln.startswith("!"):
            m = re.match(r"^!(\d+) = (.*)$", ln)
            if m:
                mod.meta[m.group(1)] = m.group(2)
            continue
        if ln.startswith("@"):
            um = re.match(r'^@("?[\w.$]+"?) = (?:external|available_externally) ', ln)
            if um:
                mod.undefined.add(um.group(1).strip('"'))
            gm = re.match(r'^@("?[\w.$]+"?) = .*? c"((?:[^"\\]|\\[0-9A-Fa-f]{2})*)"', ln)
            if gm:
                raw = gm.group(2)
                out = bytearray()
                i = 0
                while i < len(raw):
                    if raw[i] == "\\":
                        out.append(int(raw[i + 1:i + 3], 16))
                        i += 3
                    else:
                        out.append(ord(raw[i]))
                        i += 1
                mod.globals[gm.group(1).strip('"')] = bytes(out)
            continue
        if ln.startswith("define "):
            m = re.match(r"^define .*?(%s|%%[\w.\":]+\*?|\{[^}]*\}) @([\w.$]+)\(" % _TY, ln)
            if not m or not ln.rstrip().endswith("{"):
                cur = None
                continue
            # balanced scan for the parameter list (attributes such as dereferenceable(8) nest)
            depth, j = 1, m.end()
            while j < len(ln) and depth:
                depth += {"(": 1, ")": -1}.get(ln[j], 0)
                j += 1
            plist = ln[m.end():j - 1]
            name = m.group(2)
            if only is not None and not only(name):
                cur = None
                continue
            cur = Func(name)
            cur.ret_ty = m.group(1)
            ps = plist.strip()
            if ps:
                for p in _split_top(ps):
                    pm = re.match(r"^(%s)\s+(.*?)%%([\w.]+)$" % _TY, p.strip())
                    if not pm:
                        cur.params.append((p.strip(), None, ""))
                        continue
                    cur.params.append((pm.group(1), pm.group(3), pm.group(2)))
            n_unnamed = sum(1 for p in cur.params if p[1] is not None and p[1].isdigit())
            cur.entry = str(n_unnamed) if all((p[1] or "0").isdigit() for p in cur.params) else "entry"
            # entry label printed by LLVM is the next unnamed number
            cur.entry = str(len(cur.params)) if all(p[1] is not None and p[1].isdigit() for p in cur.params) else cur.entry
            curblock = cur.entry
            cur.blocks[curblock] = []
            cur.order.append(curblock)
            mod.funcs[name] = cur
            continue
        if cur is None:
            continue
        if ln.startswith("}"):
            cur = None
            continue
        s = ln.strip()
        if not s or s.startswith(";"):
            continue
        m = re.match(r'^("?[\w.$-]+"?):\s*(;.*)?$', s)
        if m and not s.startswith("%"):
            newlabel = m.group(1).strip('"')
            if curblock == cur.entry and not cur.blocks[curblock] and len(cur.order) == 1:
                # explicitly labelled entry block
                del cur.blocks[curblock]
                cur.order = []
                cur.entry = newlabel
            curblock = newlabel
            cur.blocks[curblock] = []
            cur.order.append(curblock)
            continue
        try:
            ins = _parse_instr(s)
        except AnalysisBroken as e:
            ins = Instr()
            ins.raw = s
            ins.op = "unsupported"
            ins.args = [str(e)]
            m2 = re.match(r'^%("?[\w.$-]+"?) = ', s)
            if m2:
                ins.res = m2.group(1).strip('"')
            if re.match(r"^(br|ret|switch|unreachable|invoke|resume)\b", s):
                raise
        cur.blocks[curblock].append(ins)
    return mod


def _split_top(s):
    out, depth, cur = [], 0, ""
    for ch in s:
        if ch in "([{<":
            depth += 1
        elif ch in ")]}>":
            depth -= 1
        if ch == "," and depth == 0:
            out.append(cur)
            cur = ""
        else:
            cur += ch
    if cur.strip():
        out.append(cur)
    return out


def _parse_instr(s):
    ins = Instr()
    ins.raw = s
    body, ins.dbg = _strip_meta(s)
    m = re.match(r'^%("?[\w.$-]+"?) = (.*)$', body)
    if m:
        ins.res = m.group(1).strip('"')
        body = m.group(2)
    toks = body.split(None, 1)
    op = toks[0]
    rest = toks[1] if len(toks) > 1 else ""
    if op in ("tail", "musttail", "notail"):
        toks = rest.split(None, 1)
        op, rest = toks[0], toks[1]
    ins.op = op
    if op in _INT_BIN or op in _FP_BIN:
        while True:
            m = re.match(r"^(nsw|nuw|exact|fast|nnan|ninf|nsz|arcp|contract|afn|reassoc)\s+(.*)$", rest)
            if not m:
                break
            ins.flags.add(m.group(1))
            rest = m.group(2)
        m = re.match(r"^(%s)\s+(.*)$" % _TY, rest)
        if not m:
            raise AnalysisBroken("unsupported operand type in: %s" % s)
        ins.ty = m.group(1)
        a, b = _split_top(m.group(2))
        ins.args = [_operand(a, ins.ty), _operand(b, ins.ty)]
    elif op == "fneg":
        m = re.match(r"^(?:(?:fast|nnan|ninf|nsz)\s+)*(%s)\s+(.*)$" % _TY, rest)
        ins.ty = m.group(1)
        ins.args = [_operand(m.group(2), ins.ty)]
    elif op in ("icmp", "fcmp"):
        m = re.match(r"^(?:(?:fast|nnan|ninf|nsz)\s+)*(\w+)\s+(%s)\s+(.*)$" % _TY, rest)
        if not m:
            raise AnalysisBroken("unsupported compare: %s" % s)
        ins.pred = m.group(1)
        ins.src_ty = m.group(2)
        ins.ty = "i1"
        a, b = _split_top(m.group(3))
        ins.args = [_operand(a, ins.src_ty), _operand(b, ins.src_ty)]
    elif op == "select":
        parts = _split_top(rest)
        vals = []
        for p in parts:
            pm = re.match(r"^\s*(?:(?:fast|nnan|ninf|nsz)\s+)*(%s)\s+(.*)$" % _TY, p)
            if not pm:
                raise AnalysisBroken("unsupported select: %s" % s)
            vals.append(_operand(pm.group(2), pm.group(1)))
        ins.args = vals
        ins.ty = vals[1].ty
    elif op in _CASTS:
        m = re.match(r"^(\S+(?:\s*\*)?)\s+(.*?)\s+to\s+(\S+)$", rest)
        if not m:
            raise AnalysisBroken("unsupported cast: %s" % s)
        ins.src_ty = m.group(1)
        ins.ty = m.group(3)
        if op == "bitcast":
            ins.args = [m.group(2)]
        else:
            ins.args = [_operand(m.group(2), ins.src_ty)]
    elif op == "phi":
        m = re.match(r"^(%s)\s+(.*)$" % _TY, rest)
        if not m:
            raise AnalysisBroken("unsupported phi: %s" % s)
        ins.ty = m.group(1)
        for pm in re.finditer(r"\[\s*([^,\]]+),\s*%([^\]\s]+)\s*\]", m.group(2)):
            ins.incoming.append((_operand(pm.group(1), ins.ty), pm.group(2).strip('"')))
    elif op == "br":
        m = re.match(r"^i1\s+(\S+),\s*label\s+%(\S+),\s*label\s+%(\S+)$", rest)
        if m:
            ins.args = [_operand(m.group(1), "i1")]
            ins.targets = [m.group(2).strip('"'), m.group(3).strip('"')]
        else:
            m = re.match(r"^label\s+%(\S+)$", rest)
            ins.targets = [m.group(1).strip('"')]
    elif op == "ret":
        if rest.strip() == "void":
            ins.ty = "void"
        else:
            m = re.match(r"^(%s)\s+(.*)$" % _TY, rest)
            if not m:
                # an aggregate is returned: the function can be scanned, not turned into a DAG
                ins.ty = "aggregate"
                ins.args = []
            else:
                ins.ty = m.group(1)
                ins.args = [_operand(m.group(2), ins.ty)]
    elif op == "call" or op == "invoke":
        m = re.match(r"^(?:(?:fast|nnan|ninf|nsz|arcp|contract|afn|reassoc|noundef|signext|zeroext)\s+)*(.+?)\s+@([\w.$]+)\((.*)\)", rest)
        if not m:
            raise AnalysisBroken("unsupported call: %s" % s)
        ins.ty = m.group(1).strip()
        ins.callee = m.group(2)
        argtxt = m.group(3).strip()
        ins.args = []
        if argtxt:
            for a in _split_top(argtxt):
                a = a.strip()
                am = re.match(r"^(%s)\s+(?:(?:noundef|signext|zeroext|nonnull|immarg)\s+)*(\S+)$" % _TY, a)
                if am:
                    ins.args.append(_operand(am.group(2), am.group(1)))
                else:
                    ins.args.append(a)  # pointer or metadata operand: kept as text
    elif op in ("alloca", "store", "load", "getelementptr", "unreachable", "switch", "freeze", "extractvalue", "insertvalue"):
        ins.args = [rest]
        if op == "load":
            m = re.match(r"^(\S+),", rest)
            ins.ty = m.group(1) if m else None
    else:
        raise AnalysisBroken("unsupported instruction: %s" % s)
    return ins
