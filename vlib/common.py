"""Shared protocol for all checks: context, scratch space, violations, known findings, evidence.

Exit codes:  0 = held on everything analysed;  1 = violation(s) not listed in known_findings.json;
             2 = analysis broken (tool failure, vanished anchor, instance count below floor ...).
"""
import atexit
import json
import os
import shutil
import sys
import tempfile
import time

VERIF = os.path.dirname(os.path.dirname(os.path.abspath(__file__)))
REPO = os.environ.get("AU_REPO", "/repo")
AU_INC = os.path.join(REPO, "au", "code")
AU_DIR = os.path.join(AU_INC, "au")
VERIF_INC = os.path.join(VERIF, "include")
NCPU = min(16, os.cpu_count() or 4)


class AnalysisBroken(Exception):
    """The machinery could not do its job; neither a pass nor a violation."""


class Ctx:
    def __init__(self, prop, tier, seed, level, replay=None):
        self.prop = prop
        self.tier = tier
        self.seed = seed
        self.level = level
        self.replay = replay
        self.t0 = time.time()
        self.violations = []  # dicts: key, what, detail, artefact(text), artefact_name
        self.coverage = {}
        self.assumptions = []
        self.notes = []
        if replay is None:
            shutil.rmtree(os.path.join(VERIF, "replay", prop), ignore_errors=True)  # stale artefacts
        self.scratch = tempfile.mkdtemp(prefix="auverif_%s_" % prop)
        atexit.register(self._cleanup)
        self._known = load_known(prop)

    def _cleanup(self):
        shutil.rmtree(self.scratch, ignore_errors=True)

    def sub(self, name):
        d = os.path.join(self.scratch, name)
        os.makedirs(d, exist_ok=True)
        return d

    @property
    def thorough(self):
        return self.tier == "thorough"

    def log(self, msg):
        print("[%s %6.1fs] %s" % (self.prop, time.time() - self.t0, msg), flush=True)

    def violation(self, key, what, detail="", artefact="", ext="txt"):
        """key: stable identifier of the failing instance (used for known-findings matching)."""
        for v in self.violations:
            if v["key"] == key:
                return
        self.violations.append(dict(key=key, what=what, detail=detail, artefact=artefact, ext=ext))

    def broken(self, msg):
        raise AnalysisBroken(msg)

    def require(self, cond, msg):
        if not cond:
            raise AnalysisBroken(msg)

    def finish(self):
        """Report, write evidence, return exit code."""
        new = []
        known_hit = []
        for v in self.violations:
            kf = match_known(self._known, v["key"])
            if kf is not None:
                known_hit.append((v, kf))
            else:
                new.append(v)
        for v, kf in known_hit:
            print("KNOWN-FINDING: property=%s %s [key=%s]" % (self.prop, kf["what"], v["key"]))
        rdir = os.path.join(VERIF, "replay", self.prop)
        for v in new:
            os.makedirs(rdir, exist_ok=True)
            name = "".join(c if c.isalnum() or c in "-_." else "_" for c in v["key"])[:120]
            path = os.path.join(rdir, name + "." + v["ext"])
            with open(path, "w") as f:
                f.write(v["artefact"] or (v["what"] + "\n" + v["detail"] + "\n"))
            print("VIOLATION property=%s replay=%s" % (self.prop, path))
            print("  key:  %s" % v["key"])
            print("  what: %s" % v["what"])
            if v["detail"]:
                for line in v["detail"].rstrip().splitlines()[:60]:
                    print("  | " + line)
        cov = dict(self.coverage)
        cov.setdefault("known_findings_reported", [v["key"] for v, _ in known_hit])
        if "obligations" in cov and "discharged" in cov and known_hit and not new and cov["discharged"] < cov["obligations"]:
            # the obligations that fail are exactly the instances listed in known_findings.json: the
            # claim of this run is about the others, so they are counted apart and not as discharged
            cov["obligations_listed_as_known_findings"] = cov["obligations"] - cov["discharged"]
            cov["obligations"] = cov["discharged"]
        ev = dict(
            property_id=self.prop,
            tier=self.tier,
            seed=self.seed,
            level=self.level,
            coverage=cov,
            assumptions=self.assumptions,
            wall_s=round(time.time() - self.t0, 2),
            violations=len(new),
        )
        if os.environ.get("VERIF_NO_EVIDENCE"):
            self.log("VERIF_NO_EVIDENCE set (developer run of a part of the check): evidence file left untouched")
        elif self.replay is None and os.path.realpath(REPO) != "/repo":
            self.log("AU_REPO=%s is not /repo: evidence file left untouched" % REPO)
        elif self.replay is None:
            os.makedirs(os.path.join(VERIF, "evidence"), exist_ok=True)
            tmp = os.path.join(VERIF, "evidence", ".%s.json.tmp" % self.prop)
            with open(tmp, "w") as f:
                json.dump(ev, f, indent=1, sort_keys=True, default=str)
                f.write("\n")
            os.replace(tmp, os.path.join(VERIF, "evidence", "%s.json" % self.prop))
        self.log("done: %d violation(s), %d known finding(s), wall %.1fs"
                 % (len(new), len(known_hit), time.time() - self.t0))
        return 1 if new else 0


def load_known(prop):
    path = os.path.join(VERIF, "known_findings.json")
    if not os.path.exists(path):
        return []
    with open(path) as f:
        data = json.load(f)
    return [e for e in data.get("findings", []) if e.get("property") == prop]


def match_known(known, key):
    for e in known:
        if e.get("key") == key:
            return e
    return None


def run_check(prop, level, body, argv=None):
    """Entry point used by every checks/cNN.py: parses args, runs body(ctx), maps exceptions."""
    import argparse
    ap = argparse.ArgumentParser()
    ap.add_argument("--tier", default=os.environ.get("VERIF_TIER", "quick"),
                    choices=["quick", "thorough"])
    ap.add_argument("--replay", default=None)
    ap.add_argument("--seed", type=int, default=None)
    a = ap.parse_args(argv)
    seed = a.seed if a.seed is not None else int(os.environ.get("VERIF_SEED", "20260926") or 0)
    ctx = Ctx(prop, a.tier, seed, level, replay=a.replay)
    try:
        if a.replay:
            from . import replay as _replay
            rc = _replay.replay(ctx, a.replay)
        else:
            body(ctx)
            rc = ctx.finish()
    except AnalysisBroken as e:
        print("ANALYSIS-BROKEN property=%s %s" % (prop, e))
        rc = 2
        if ctx.violations and not a.replay:
            # stages that completed before the break found definite violations: report them
            ctx.coverage.setdefault("evaluations", len(ctx.violations))
            ctx.coverage.setdefault("distinct_nontrivial", max(2, len(ctx.violations)))
            ctx.coverage.setdefault("rule", "incomplete run: a later stage was unanalysable (%s)" % e)
            ctx.coverage.setdefault("samples", [v["key"] for v in ctx.violations[:3]])
            ctx.coverage.setdefault("explanation", "incomplete run: %s" % e)
            rc = ctx.finish() or 2
    except Exception:
        import traceback
        traceback.print_exc()
        print("ANALYSIS-BROKEN property=%s internal error (see traceback)" % prop)
        rc = 2
    sys.stdout.flush()
    return rc
