"""Engine I, part 6: cutting ONE natural loop of an IR function into loop-free variants, so that an
inductive invariant over the header's phi values can be checked with the DAG / relational engines.

For a function with exactly one loop (one header, any number of latches that all enter the header):
  entry_value(i)   the function up to the loop, returning what the i-th header phi receives on entry
  step_value(i)    one iteration: the header's phis are extra PARAMETERS (an arbitrary iteration);
                   returns what the i-th phi receives over the back edge
  after_loop()     the header's phis are extra parameters; returns what the function returns
Nothing is unrolled and nothing is executed: the invariant check is the usual three obligations
(established on entry, preserved by an arbitrary iteration, strong enough after the loop)."""
import copy

from . import ir
from .common import AnalysisBroken


def _succ(func):
    out = {}
    for l in func.order:
        t = func.blocks[l][-1]
        out[l] = list(t.targets) if t.op == "br" else []
    return out


def find_loop(func):
    """-> (header label, [latch labels]).  Raises AnalysisBroken unless there is exactly one header."""
    succ = _succ(func)
    state = {}
    back = []

    def dfs(b):
        state[b] = 1
        for s in succ[b]:
            if state.get(s) == 1:
                back.append((b, s))
            elif s not in state:
                dfs(s)
        state[b] = 2

    dfs(func.entry)
    heads = sorted({h for _, h in back})
    if len(heads) != 1:
        raise AnalysisBroken("%s: expected exactly one loop, found headers %s" % (func.name, heads))
    return heads[0], sorted(l for l, _ in back)


EXIT_MARK = "__left_the_loop__"


def _mk(op, ty=None, args=(), raw=""):
    i = ir.Instr()
    i.op = op
    i.ty = ty
    i.args = list(args)
    i.raw = raw
    return i


class CutLoop:
    def __init__(self, func):
        self.func = func
        self.header, self.latches = find_loop(func)
        self.phis = [i for i in func.blocks[self.header] if i.op == "phi"]
        if not self.phis:
            raise AnalysisBroken("%s: loop header %s has no phi" % (func.name, self.header))
        self.nparams = len(func.params)

    def phi_param_index(self, i):
        return self.nparams + i

    def _clone(self, with_phi_params):
        f = copy.copy(self.func)
        f.blocks = {l: list(b) for l, b in self.func.blocks.items()}
        f.params = list(self.func.params)
        if with_phi_params:
            f.blocks[self.header] = [i for i in f.blocks[self.header] if i.op != "phi"]
            for p in self.phis:
                f.params.append((p.ty, p.res, None))
        return f

    def entry_value(self, i):
        """function that returns the entry incoming value of phi i (one variant per entering edge)"""
        out = []
        for (o, pred) in self.phis[i].incoming:
            if pred in self.latches:
                continue
            f = self._clone(False)
            blk = f.blocks[pred]
            if blk[-1].op != "br" or len(blk[-1].targets) != 1:
                raise AnalysisBroken("%s: the loop is entered over a conditional edge (%s): not supported" % (self.func.name, pred))
            f.blocks[pred] = blk[:-1] + [_mk("ret", self.phis[i].ty, [o], "ret (entry value of %%%s)" % self.phis[i].res)]
            f.ret_ty = self.phis[i].ty
            out.append(f)
        return out

    def step_value(self, i):
        out = []
        for (o, pred) in self.phis[i].incoming:
            if pred not in self.latches:
                continue
            f = self._clone(True)
            for l in f.order:
                t = f.blocks[l][-1]
                if t.op == "ret":
                    # what happens after the loop is not part of "one iteration": such a path hands
                    # back the marker parameter (so that the path conditions of the OTHER paths,
                    # those that reach the back edge, are kept by the DAG builder)
                    f.blocks[l] = [_mk("ret", self.phis[i].ty, [ir.Val("v", EXIT_MARK, self.phis[i].ty)], "ret (left the loop)")]
            f.params.append((self.phis[i].ty, EXIT_MARK, None))
            for lt in self.latches:
                blk = f.blocks[lt]
                if blk[-1].op != "br" or len(blk[-1].targets) != 1:
                    raise AnalysisBroken("%s: conditional back edge from %s: not supported" % (self.func.name, lt))
                if lt == pred:
                    f.blocks[lt] = blk[:-1] + [_mk("ret", self.phis[i].ty, [o], "ret (next value of %%%s)" % self.phis[i].res)]
                else:
                    f.blocks[lt] = blk[:-1] + [_mk("ret", self.phis[i].ty, [ir.Val("v", EXIT_MARK, self.phis[i].ty)], "ret (another back edge)")]
            f.ret_ty = self.phis[i].ty
            out.append(f)
        return out

    def exit_mark_index(self):
        return self.nparams + len(self.phis)

    def after_loop(self):
        f = self._clone(True)
        for lt in self.latches:
            blk = f.blocks[lt]
            f.blocks[lt] = blk[:-1] + [_mk("unreachable", raw="unreachable (cut)")]
        return f


def check_loop(func, mod, pre, candidates, summaries=None, result_goal=None):
    """Inductive-invariant inference and checking for the single loop of `func` (vlib/linrel.py).

    pre            entry constraints over the parameters p0, p1, ... (list of Lin <= 0)
    candidates     [(label, f)]: f(v) -> Lin that must be <= 0, instantiated for every loop-carried value v
    summaries      {callee: summary} for calls (see linrel.Walker.summaries)
    result_goal    g(C, r) -> bool for the function's result after the loop (or None)
    The candidate set is pruned (those not established on entry, then those not preserved by an
    arbitrary iteration under the remaining ones) until it is inductive; then every operation of
    the entry code, of one arbitrary iteration and of the code after the loop is walked under the
    invariant, and its obligations (no wrap, no division by zero, call preconditions) collected.
    Returns dict(invariant=[(phi name, label)], obligations, failures=[(what, node)], paths, phis)."""
    from . import dag, linrel
    from .linrel import var, K, entails_le0
    cut = CutLoop(func)
    maxv = (1 << 64) - 1
    phi_vars = [var("p%d" % cut.phi_param_index(i)) for i in range(len(cut.phis))]
    cand = {(i, j) for i in range(len(cut.phis)) for j in range(len(candidates))}
    mark = var("p%d" % cut.exit_mark_index())

    def inv(S):
        out = []
        for i in range(len(cut.phis)):
            out += [-phi_vars[i], phi_vars[i] - K(maxv)]
        for (i, j) in sorted(S):
            out.append(candidates[j][1](phi_vars[i]))
        return out

    def run(fn, C0, goal):
        dd = dag.build(fn, mod)
        ww = linrel.Walker(C0)
        ww.summaries.update(summaries or {})
        ok = True
        n = 0
        for C, r in ww.value(dd.ret, list(C0)):
            n += 1
            if goal is not None and not goal(C, r):
                ok = False
        return ok, ww, n

    for (i, j) in sorted(cand):
        for fn in cut.entry_value(i):
            ok, _, _ = run(fn, pre, lambda C, r, j=j: entails_le0(C, candidates[j][1](r)))
            if not ok:
                cand.discard((i, j))
    changed = True
    while changed:
        changed = False
        for (i, j) in sorted(cand):
            for fn in cut.step_value(i):
                ok, _, _ = run(fn, pre + inv(cand), lambda C, r, j=j: r == mark or entails_le0(C, candidates[j][1](r)))
                if not ok:
                    cand.discard((i, j))
                    changed = True
    fails, nob, paths = [], 0, 0
    for i in range(len(cut.phis)):
        for fn in cut.entry_value(i):
            _, ww, n = run(fn, pre, None)
            nob += ww.obligations
            paths += n
            fails += [(w, node) for w, node, _ in ww.failures]
        for fn in cut.step_value(i):
            _, ww, n = run(fn, pre + inv(cand), None)
            nob += ww.obligations
            paths += n
            fails += [(w, node) for w, node, _ in ww.failures]
    after_ok = None
    if result_goal is not None:
        after_ok, ww, n = run(cut.after_loop(), pre + inv(cand), result_goal)
        nob += ww.obligations + 1
        paths += n
        fails += [(w, node) for w, node, _ in ww.failures]
    return dict(invariant=[(cut.phis[i].res, candidates[j][0]) for (i, j) in sorted(cand)], obligations=nob, failures=fails,
                paths=paths, phis=len(cut.phis), after_ok=after_ok)
