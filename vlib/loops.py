"""Engine I, part 6: cutting ONE natural loop of an IR function into loop-free variants, so that an
inductive invariant over the header's phi values can be checked with the DAG / relational engines.

For a function with exactly one loop (one header, any number of latches that all enter the header):
  entry_value(i)   the function up to the loop, returning what the i-th header phi receives on entry
  step_value(i)    one iteration: the header's phis are extra PARAMETERS (an arbitrary iteration);
                   returns what the i-th phi receives over the back edge
  after_loop()     the header's phis are extra parameters; returns what the function returns
Nothing is unrolled and nothing is executed: the invariant check is the usual three obligations
(established on entry, preserved by an arbitrary iteration, strong enough after the loop)."""
import copy

from . import ir
from .common import AnalysisBroken


def _succ(func):
    out = {}
    for l in func.order:
        t = func.blocks[l][-1]
        out[l] = list(t.targets) if t.op == "br" else []
    return out


def find_loop(func):
    """-> (header label, [latch labels]).  Raises AnalysisBroken unless there is exactly one header."""
    succ = _succ(func)
    state = {}
    back = []

    def dfs(b):
        state[b] = 1
        for s in succ[b]:
            if state.get(s) == 1:
                back.append((b, s))
            elif s not in state:
                dfs(s)
        state[b] = 2

    dfs(func.entry)
    heads = sorted({h for _, h in back})
    if len(heads) != 1:
        raise AnalysisBroken("%s: expected exactly one loop, found headers %s" % (func.name, heads))
    return heads[0], sorted(l for l, _ in back)


def _mk(op, ty=None, args=(), raw=""):
    i = ir.Instr()
    i.op = op
    i.ty = ty
    i.args = list(args)
    i.raw = raw
    return i


class CutLoop:
    def __init__(self, func):
        self.func = func
        self.header, self.latches = find_loop(func)
        self.phis = [i for i in func.blocks[self.header] if i.op == "phi"]
        if not self.phis:
            raise AnalysisBroken("%s: loop header %s has no phi" % (func.name, self.header))
        self.nparams = len(func.params)

    def phi_param_index(self, i):
        return self.nparams + i

    def _clone(self, with_phi_params):
        f = copy.copy(self.func)
        f.blocks = {l: list(b) for l, b in self.func.blocks.items()}
        f.params = list(self.func.params)
        if with_phi_params:
            f.blocks[self.header] = [i for i in f.blocks[self.header] if i.op != "phi"]
            for p in self.phis:
                f.params.append((p.ty, p.res, None))
        return f

    def entry_value(self, i):
        """function that returns the entry incoming value of phi i (one variant per entering edge)"""
        out = []
        for (o, pred) in self.phis[i].incoming:
            if pred in self.latches:
                continue
            f = self._clone(False)
            blk = f.blocks[pred]
            if blk[-1].op != "br" or len(blk[-1].targets) != 1:
                raise AnalysisBroken("%s: the loop is entered over a conditional edge (%s): not supported" % (self.func.name, pred))
            f.blocks[pred] = blk[:-1] + [_mk("ret", self.phis[i].ty, [o], "ret (entry value of %%%s)" % self.phis[i].res)]
            f.ret_ty = self.phis[i].ty
            out.append(f)
        return out

    def step_value(self, i):
        out = []
        for (o, pred) in self.phis[i].incoming:
            if pred not in self.latches:
                continue
            f = self._clone(True)
            for l in f.order:
                t = f.blocks[l][-1]
                if t.op == "ret":
                    f.blocks[l] = f.blocks[l][:-1] + [_mk("unreachable", raw="unreachable (cut)")]
            for lt in self.latches:
                blk = f.blocks[lt]
                if blk[-1].op != "br" or len(blk[-1].targets) != 1:
                    raise AnalysisBroken("%s: conditional back edge from %s: not supported" % (self.func.name, lt))
                if lt == pred:
                    f.blocks[lt] = blk[:-1] + [_mk("ret", self.phis[i].ty, [o], "ret (next value of %%%s)" % self.phis[i].res)]
                else:
                    f.blocks[lt] = blk[:-1] + [_mk("unreachable", raw="unreachable (cut)")]
            f.ret_ty = self.phis[i].ty
            out.append(f)
        return out

    def after_loop(self):
        f = self._clone(True)
        for lt in self.latches:
            blk = f.blocks[lt]
            f.blocks[lt] = blk[:-1] + [_mk("unreachable", raw="unreachable (cut)")]
        return f
