"""Replays a saved violation artefact against the current tree."""
import re

from . import cxx


def replay(ctx, path):
    if path.endswith(".cc"):
        txt = open(path).read()
        m = re.search(r"^// expected: (accept|reject)", txt, flags=re.M)
        expect = m.group(1) if m else None
        bad = 0
        for cfg in cxx.ALL_CONFIGS:
            rc, diags, se = cxx.compile_syntax(cfg, path)
            verdict = "reject" if rc != 0 else "accept"
            mark = "" if expect is None or verdict == expect else "   <-- differs from expectation"
            if mark:
                bad += 1
            print("%-16s %s%s" % (cfg.name, verdict, mark))
            for d in diags[:2]:
                print("      %s: %s" % (d.where(), d.msg[:160]))
        if bad:
            print("VIOLATION property=%s replay=%s" % (ctx.prop, path))
            return 1
        print("replay: verdicts now match the expectation (%s) in all configurations" % expect)
        return 0
    if path.endswith(".json") or path.endswith(".txt") or path.endswith(".ll"):
        print(open(path).read())
        print("replay: artefact printed; re-run `bin/check %s` to re-analyse the current tree" % ctx.prop)
        return 0
    print("replay: unknown artefact type")
    return 2
