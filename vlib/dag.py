"""Engine I, part 2: expression DAG of a loop-free IR function (value-numbering normal form).

Each SSA value becomes a hash-consed Node over the function parameters.  Control flow (acyclic
only) is folded into `select` nodes guarded by block conditions.  Normalisation rules are the few
listed in DESIGN.md 2.3 (commutative operand order, comparison direction, bool round trips through
i8, constant folding of constant-only operations).  No rule uses nsw/poison to delete or merge an
arithmetic operation.
"""
from fractions import Fraction

from .common import AnalysisBroken

INT_BITS = {"i1": 1, "i8": 8, "i16": 16, "i32": 32, "i64": 64, "i128": 128}
COMMUTATIVE = {"add", "mul", "and", "or", "xor", "fadd", "fmul"}
ICMP_SWAP = {"sgt": "slt", "sge": "sle", "ugt": "ult", "uge": "ule"}
ICMP_NEG = {"eq": "ne", "ne": "eq", "slt": "sge", "sle": "sgt", "sgt": "sle", "sge": "slt",
            "ult": "uge", "ule": "ugt", "ugt": "ule", "uge": "ult"}
FCMP_SWAP = {"ogt": "olt", "oge": "ole", "ugt": "ult", "uge": "ule"}
FCMP_NEG = {"oeq": "une", "une": "oeq", "olt": "uge", "ole": "ugt", "ogt": "ule", "oge": "ult",
            "ult": "oge", "ule": "ogt", "ugt": "ole", "uge": "olt", "one": "ueq", "ueq": "one",
            "ord": "uno", "uno": "ord"}

IGNORED_CALLS = ("llvm.lifetime.", "llvm.dbg.", "llvm.memcpy.", "llvm.assume", "llvm.experimental.noalias")
PURE_INTRINSICS = ("llvm.trunc.", "llvm.round.", "llvm.floor.", "llvm.ceil.", "llvm.fabs.",
                   "llvm.copysign.", "llvm.sqrt.", "llvm.rint.", "llvm.nearbyint.", "llvm.fma.",
                   "llvm.fmuladd.", "llvm.minnum.", "llvm.maxnum.", "llvm.abs.", "llvm.smax.",
                   "llvm.smin.", "llvm.umax.", "llvm.umin.", "llvm.is.fpclass", "llvm.pow.",
                   "llvm.sin.", "llvm.cos.")
LIBM = {"sin", "cos", "tan", "asin", "acos", "atan", "atan2", "sqrt", "cbrt", "hypot", "fmod",
        "remainder", "round", "floor", "ceil", "trunc", "fabs", "copysign", "exp", "log", "pow",
        "lround", "llround"}
LIBM_ALL = set()
for _n in LIBM:
    LIBM_ALL |= {_n, _n + "f", _n + "l"}


class Node:
    __slots__ = ("op", "ty", "args", "attr", "key", "dbg", "_hash")

    def __init__(self, op, ty, args=(), attr=None, dbg=None):
        self.op = op
        self.ty = ty
        self.args = tuple(args)
        self.attr = attr
        self.dbg = dbg
        self.key = (op, ty, attr, tuple(a.key for a in self.args))
        self._hash = hash(self.key)

    def __eq__(self, o):
        return isinstance(o, Node) and self.key == o.key

    def __hash__(self):
        return self._hash

    def is_const(self):
        return self.op == "const"

    def cval(self):
        return self.attr

    def pretty(self, depth=0):
        if self.op == "param":
            return "p%d" % self.attr
        if self.op == "const":
            return "%s" % (self.attr,)
        a = ", ".join(x.pretty(depth + 1) for x in self.args)
        at = "" if self.attr is None else "[%s]" % (self.attr,)
        return "%s%s<%s>(%s)" % (self.op, at, self.ty, a)


def const(ty, v):
    return Node("const", ty, (), v)


TRUE = const("i1", 1)
FALSE = const("i1", 0)


def wrap_int(v, ty):
    bits = INT_BITS[ty]
    return v & ((1 << bits) - 1)


def as_signed(v, ty):
    bits = INT_BITS[ty]
    v &= (1 << bits) - 1
    return v - (1 << bits) if v >= 1 << (bits - 1) else v


def mk_not(a):
    if a.is_const():
        return FALSE if a.cval() else TRUE
    if a.op == "not":
        return a.args[0]
    if a.op == "icmp":
        return mk_icmp(ICMP_NEG[a.attr], a.args[0], a.args[1], a.dbg)
    if a.op == "fcmp":
        return mk_fcmp(FCMP_NEG[a.attr], a.args[0], a.args[1], a.dbg)
    return Node("not", "i1", (a,))


def mk_and(a, b):
    if a.is_const():
        return b if a.cval() else FALSE
    if b.is_const():
        return a if b.cval() else FALSE
    if a == b:
        return a
    x, y = sorted((a, b), key=lambda n: repr(n.key))
    return Node("and", "i1", (x, y))


def mk_or(a, b):
    if a.is_const():
        return TRUE if a.cval() else b
    if b.is_const():
        return TRUE if b.cval() else a
    if a == b:
        return a
    x, y = sorted((a, b), key=lambda n: repr(n.key))
    return Node("or", "i1", (x, y))


def mk_icmp(pred, a, b, dbg=None):
    if pred in ICMP_SWAP:
        pred, a, b = ICMP_SWAP[pred], b, a
    if pred in ("eq", "ne"):
        a, b = sorted((a, b), key=lambda n: repr(n.key))
        # bool round trip: icmp ne (zext i1 x), 0  ->  x
        for p, q in ((a, b), (b, a)):
            if q.is_const() and q.cval() == 0 and p.op == "zext" and p.args[0].ty == "i1":
                return p.args[0] if pred == "ne" else mk_not(p.args[0])
    if a.is_const() and b.is_const():
        x, y = a.cval(), b.cval()
        ty = a.ty
        if pred[0] == "s":
            x, y = as_signed(x, ty), as_signed(y, ty)
        else:
            x, y = wrap_int(x, ty), wrap_int(y, ty)
        r = {"eq": x == y, "ne": x != y, "slt": x < y, "sle": x <= y, "ult": x < y, "ule": x <= y}[pred]
        return TRUE if r else FALSE
    return Node("icmp", "i1", (a, b), pred, dbg)


def mk_fcmp(pred, a, b, dbg=None):
    if pred in FCMP_SWAP:
        pred, a, b = FCMP_SWAP[pred], b, a
    if pred in ("oeq", "une", "one", "ueq", "ord", "uno"):
        a, b = sorted((a, b), key=lambda n: repr(n.key))
    return Node("fcmp", "i1", (a, b), pred, dbg)


def mk_select(c, a, b, ty):
    if c.is_const():
        return a if c.cval() else b
    if a == b:
        return a
    if ty == "i1":
        if a.is_const() and a.cval() == 1:
            return mk_or(c, b)
        if b.is_const() and b.cval() == 0:
            return mk_and(c, a)
        if a.is_const() and a.cval() == 0:
            return mk_and(mk_not(c), b)
        if b.is_const() and b.cval() == 1:
            return mk_or(mk_not(c), a)
    return Node("select", ty, (c, a, b))


def _is_used(func, name):
    import re as _re
    pat = _re.compile(r"%" + _re.escape(name) + r"(?![\w.])")
    for l, i in func.instrs():
        if i.res == name or (i.op == "call" and i.callee and i.callee.startswith("llvm.dbg.")):
            continue
        body = i.raw.split(" = ", 1)[-1] if i.res is not None else i.raw
        if pat.search(body):
            return True
    return False


class DagFunc:
    def __init__(self, func):
        self.func = func
        self.params = []
        self.env = {}
        self.ret = None
        self.effects = []  # calls with possible side effects, in order, each (guard, Node)
        self.arith = []  # (guard, Node) of every arithmetic / cast node, for premise generation


def build(func, mod=None, lenient=False, bind=None, unfold=0):
    """IR function -> DagFunc.  Raises AnalysisBroken for anything outside the accepted fragment.
    lenient=True: instructions outside the fragment become opaque nodes; only the list of calls
    (`effects`) may then be used, never values.
    bind: {parameter index: Node} - actual arguments standing in for parameters (used when a call is
    unfolded).  unfold=N: calls to functions DEFINED in `mod` (the inliner leaves recursive helpers
    alone) are replaced by the callee's DAG on the actual arguments, to nesting depth N; with
    constant arguments the callee's branches fold, so a recursion on a constant terminates."""
    d = DagFunc(func)
    for i, (ty, name, attrs) in enumerate(func.params):
        if bind is not None and i in bind:
            n = bind[i]
        elif name is None or ty not in INT_BITS and ty not in ("float", "double", "x86_fp80"):
            # pointer parameters (e.g. std::ostream&) are opaque handles
            n = Node("param", ty, (), i)
        else:
            n = Node("param", ty, (), i)
        d.params.append(n)
        if name is not None:
            d.env[name] = n

    # CFG
    succ = {}
    for l in func.order:
        blk = func.blocks[l]
        if not blk:
            raise AnalysisBroken("%s: empty block %s" % (func.name, l))
        t = blk[-1]
        if t.op == "br":
            succ[l] = list(t.targets)
        elif t.op in ("ret", "unreachable"):
            succ[l] = []
        else:
            raise AnalysisBroken("%s: block %s ends in unsupported terminator: %s" % (func.name, l, t.raw))
    # topological order / loop detection
    state = {}
    topo = []

    def dfs(b):
        state[b] = 1
        for s in succ[b]:
            if s not in func.blocks:
                raise AnalysisBroken("%s: branch to unknown block %s" % (func.name, s))
            if state.get(s) == 1:
                raise AnalysisBroken("%s: loop in CFG (back edge %s -> %s): unanalysable" % (func.name, b, s))
            if s not in state:
                dfs(s)
        state[b] = 2
        topo.append(b)

    dfs(func.entry)
    topo.reverse()
    cond = {func.entry: TRUE}
    edge = {}
    dead_allocas = set()
    ptr_alias = {}
    rets = []

    def val(o):
        if not hasattr(o, "kind"):
            raise AnalysisBroken("%s: non-scalar operand %r" % (func.name, o))
        if o.kind == "v":
            if o.v not in d.env:
                if lenient:
                    return Node("opaque", o.ty, (), "%" + o.v)
                raise AnalysisBroken("%s: use of unknown value %%%s" % (func.name, o.v))
            return d.env[o.v]
        if o.kind == "c":
            return const(o.ty, wrap_int(o.v, o.ty) if o.ty in INT_BITS else o.v)
        if o.kind == "f":
            return const(o.ty, o.v)
        return Node("undef", o.ty)

    for b in topo:
        g = cond.get(b, FALSE)
        for ins in func.blocks[b]:
            op = ins.op
            if op in ("add", "sub", "mul", "sdiv", "udiv", "srem", "urem", "shl", "lshr", "ashr",
                      "and", "or", "xor", "fadd", "fsub", "fmul", "fdiv", "frem"):
                a, c = val(ins.args[0]), val(ins.args[1])
                flags = tuple(sorted(f for f in ins.flags if f in ("nsw", "nuw", "exact")))
                if ins.ty == "i1" and op in ("and", "or", "xor"):
                    if op == "and":
                        n = mk_and(a, c)
                    elif op == "or":
                        n = mk_or(a, c)
                    else:
                        if c.is_const() and c.cval() == 1:
                            n = mk_not(a)
                        elif a.is_const() and a.cval() == 1:
                            n = mk_not(c)
                        else:
                            n = Node("xor", "i1", sorted((a, c), key=lambda x: repr(x.key)))
                else:
                    if a.is_const() and c.is_const() and ins.ty in INT_BITS and op in ("sdiv", "srem") and as_signed(c.cval(), ins.ty) not in (0, -1):
                        x, y = as_signed(a.cval(), ins.ty), as_signed(c.cval(), ins.ty)
                        q = abs(x) // abs(y) * (1 if (x >= 0) == (y > 0) else -1)
                        n = const(ins.ty, wrap_int(q if op == "sdiv" else x - q * y, ins.ty))
                    elif a.is_const() and c.is_const() and ins.ty in INT_BITS and op in ("add", "sub", "mul"):
                        x, y = as_signed(a.cval(), ins.ty), as_signed(c.cval(), ins.ty)
                        r = {"add": x + y, "sub": x - y, "mul": x * y}[op]
                        lo, hi = -(1 << (INT_BITS[ins.ty] - 1)), (1 << (INT_BITS[ins.ty] - 1)) - 1
                        if "nsw" in flags and not (lo <= r <= hi):
                            # constant-only signed overflow: undefined for every input
                            n = Node("ub_const", ins.ty, (), "signed-overflow: %d %s %d" % (x, op, y), ins.dbg)
                            d.arith.append((g, n))
                        else:
                            n = const(ins.ty, wrap_int(r, ins.ty))
                    else:
                        if op in COMMUTATIVE:
                            a, c = sorted((a, c), key=lambda x: repr(x.key))
                        n = None
                        if ins.ty in INT_BITS:
                            # integer identities that hold for every bit pattern and can never
                            # overflow: x+0, 0+x, x-0, x*1, 1*x  (no floating counterpart: -0.0 + 0.0)
                            zero = lambda v: v.is_const() and v.cval() == 0
                            one = lambda v: v.is_const() and v.cval() == 1
                            if op == "add" and zero(a):
                                n = c
                            elif op in ("add", "sub") and zero(c):
                                n = a
                            elif op == "mul" and one(a):
                                n = c
                            elif op == "mul" and one(c):
                                n = a
                        if n is None:
                            n = Node(op, ins.ty, (a, c), flags or None, ins.dbg)
                            d.arith.append((g, n))
                d.env[ins.res] = n
            elif op == "fneg":
                n = Node("fneg", ins.ty, (val(ins.args[0]),), None, ins.dbg)
                d.env[ins.res] = n
            elif op == "icmp":
                d.env[ins.res] = mk_icmp(ins.pred, val(ins.args[0]), val(ins.args[1]), ins.dbg)
            elif op == "fcmp":
                d.env[ins.res] = mk_fcmp(ins.pred, val(ins.args[0]), val(ins.args[1]), ins.dbg)
            elif op == "select":
                c, a, bb = (val(x) for x in ins.args)
                d.env[ins.res] = mk_select(c, a, bb, ins.ty)
            elif op in ("zext", "sext", "trunc", "sitofp", "uitofp", "fptosi", "fptoui", "fpext", "fptrunc"):
                a = val(ins.args[0])
                if a.is_const() and op in ("zext", "sext", "trunc") and a.ty in INT_BITS:
                    v = a.cval()
                    if op == "sext":
                        v = as_signed(v, a.ty)
                    n = const(ins.ty, wrap_int(v, ins.ty))
                elif op == "trunc" and a.op in ("zext", "sext") and a.args[0].ty == ins.ty:
                    n = a.args[0]  # narrow -> wide -> narrow round trip: identity on every bit pattern
                else:
                    n = Node(op, ins.ty, (a,), None, ins.dbg)
                    d.arith.append((g, n))
                d.env[ins.res] = n
            elif op == "bitcast":
                src = ins.args[0]
                if isinstance(src, str) and src.startswith("%"):
                    ptr_alias[ins.res] = src[1:]
                else:
                    ptr_alias[ins.res] = None
            elif op == "alloca":
                dead_allocas.add(ins.res)
            elif op == "phi":
                n = None
                items = []
                for (o, pred_label) in ins.incoming:
                    ec = edge.get((pred_label, b))
                    if ec is None:
                        continue  # edge from unreachable / unvisited block
                    items.append((ec, val(o)))
                if not items:
                    raise AnalysisBroken("%s: phi without reachable incoming edge: %s" % (func.name, ins.raw))
                n = items[-1][1]
                for ec, v in reversed(items[:-1]):
                    n = mk_select(ec, v, n, ins.ty)
                d.env[ins.res] = n
            elif op == "call":
                cal = ins.callee
                if any(cal.startswith(p) for p in IGNORED_CALLS):
                    continue
                args = []
                for a in ins.args:
                    if hasattr(a, "kind"):
                        args.append(val(a))
                    else:
                        args.append(Node("opaque", "ptr", (), str(a)))
                if unfold > 0 and mod is not None and cal in mod.funcs and getattr(mod.funcs[cal], "blocks", None):
                    if g.is_const() and not g.cval():
                        # a call on a path that is not taken (its guard folded to false)
                        if ins.res is not None:
                            d.env[ins.res] = Node("undef", ins.ty)
                        continue
                    sub = build(mod.funcs[cal], mod, lenient, bind=dict(enumerate(args)), unfold=unfold - 1)
                    d.arith += [(mk_and(g, g2), n2) for g2, n2 in sub.arith]
                    d.effects += [(mk_and(g, g2), n2) for g2, n2 in sub.effects]
                    if ins.res is not None:
                        d.env[ins.res] = sub.ret
                    continue
                n = Node("call", ins.ty, args, cal, ins.dbg)
                pure = any(cal.startswith(p) for p in PURE_INTRINSICS) or cal in LIBM_ALL
                if not pure:
                    d.effects.append((g, n))
                if ins.res is not None:
                    d.env[ins.res] = n
            elif op == "br":
                if len(ins.targets) == 2:
                    c = val(ins.args[0])
                    for t, cc in ((ins.targets[0], c), (ins.targets[1], mk_not(c))):
                        e = mk_and(g, cc)
                        edge[(b, t)] = mk_or(edge.get((b, t), FALSE), e)
                        cond[t] = mk_or(cond.get(t, FALSE), e)
                else:
                    t = ins.targets[0]
                    edge[(b, t)] = g
                    cond[t] = mk_or(cond.get(t, FALSE), g)
            elif op == "ret":
                if ins.ty == "aggregate":
                    raise AnalysisBroken("%s: returns an aggregate: %s" % (func.name, ins.raw))
                if ins.ty != "void":
                    rets.append((g, val(ins.args[0])))
                else:
                    rets.append((g, None))
            elif op == "unreachable":
                pass
            elif op == "load" and ins.res is not None and not _is_used(func, ins.res):
                continue  # dead load (e.g. the padding byte of an empty constexpr object)
            elif lenient and op in ("store", "load", "getelementptr", "freeze", "extractvalue", "insertvalue", "unsupported"):
                if ins.res is not None:
                    d.env[ins.res] = Node("opaque", "ptr", (), ins.raw[:120])
            elif op == "unsupported":
                raise AnalysisBroken("%s: %s" % (func.name, ins.args[0]))
            elif op in ("store", "load", "getelementptr", "switch", "freeze", "extractvalue", "insertvalue"):
                raise AnalysisBroken("%s: memory / aggregate instruction outside the accepted fragment: %s"
                                     % (func.name, ins.raw))
            else:
                raise AnalysisBroken("%s: unsupported instruction %s" % (func.name, ins.raw))
    if not rets:
        raise AnalysisBroken("%s: no reachable ret" % func.name)
    r = rets[-1][1]
    for gcond, v in reversed(rets[:-1]):
        r = mk_select(gcond, v, r, func.ret_ty) if v is not None else r
    d.ret = r
    return d


# -------------------------------------------------------------------------------------------------
# affine forms over parameters (mathematical integers), with recorded no-wrap premises


class Affine:
    """value = sum(coef[i] * p_i) + c   (Fractions), exact under `premises`;
    or, when div is not None: value = trunc(inner / div) for the inner affine form."""

    def __init__(self, coef, c, premises=(), div=None, inner=None):
        self.coef = {k: Fraction(v) for k, v in coef.items() if v != 0}
        self.c = Fraction(c)
        self.premises = list(premises)
        self.div = div
        self.inner = inner

    def same(self, coef, c):
        return self.div is None and self.coef == {k: Fraction(v) for k, v in coef.items() if v != 0} and self.c == Fraction(c)

    def __repr__(self):
        if self.div is not None:
            return "trunc((%r) / %s)" % (self.inner, self.div)
        terms = ["%s*p%d" % (v, k) for k, v in sorted(self.coef.items())]
        if self.c != 0 or not terms:
            terms.append(str(self.c))
        return " + ".join(terms)


def affine(node, uns=False):
    """Affine form of an integer-valued node in the mathematical integers, or None.
    Every nsw/unsigned op and every trunc on the way is recorded as a premise node (must not wrap
    / must be value preserving)."""
    op = node.op
    if op == "param":
        return Affine({node.attr: 1}, 0)
    if op == "const":
        if node.ty not in INT_BITS:
            return None
        return Affine({}, wrap_int(node.cval(), node.ty) if uns else as_signed(node.cval(), node.ty))
    if op in ("sext", "zext", "trunc"):
        a = affine(node.args[0], uns)
        if a is None:
            return None
        r = Affine(a.coef, a.c, a.premises + [node], a.div, a.inner)
        return r
    if op in ("add", "sub"):
        a, b = affine(node.args[0], uns), affine(node.args[1], uns)
        if a is None or b is None or a.div is not None or b.div is not None:
            return None
        sgn = 1 if op == "add" else -1
        coef = dict(a.coef)
        for k, v in b.coef.items():
            coef[k] = coef.get(k, 0) + sgn * v
        return Affine(coef, a.c + sgn * b.c, a.premises + b.premises + [node])
    if op == "mul":
        a, b = affine(node.args[0], uns), affine(node.args[1], uns)
        if a is None or b is None or a.div is not None or b.div is not None:
            return None
        if not a.coef:
            k, f = a.c, b
        elif not b.coef:
            k, f = b.c, a
        else:
            return None
        return Affine({i: v * k for i, v in f.coef.items()}, f.c * k, a.premises + b.premises + [node])
    if op in ("sdiv", "udiv"):
        a, b = affine(node.args[0], uns), affine(node.args[1], uns)
        if a is None or b is None or b.coef or a.div is not None or b.c == 0:
            return None
        return Affine({}, 0, a.premises + [node], div=b.c, inner=a)
    return None


def fp_affine(node, uns=False):
    """Affine form over the REALS of a floating node (every IEEE operation read as the exact
    operation): ({param: Fraction}, const Fraction, [operation nodes]) or None.  Used to check that a
    floating conversion is the model map up to the rounding of its constants and operations."""
    op = node.op
    if op == "param":
        return ({node.attr: Fraction(1)}, Fraction(0), [])
    if op == "const":
        if isinstance(node.cval(), Fraction):
            return ({}, node.cval(), [])
        if node.cval() == "-0":
            return ({}, Fraction(0), [])
        if node.ty in INT_BITS:
            return ({}, Fraction(wrap_int(node.cval(), node.ty) if uns else as_signed(node.cval(), node.ty)), [])
        return None
    if op in ("fpext", "fptrunc", "sitofp", "uitofp", "sext", "zext"):
        # the conversion instruction itself fixes how an integer operand is read
        r = fp_affine(node.args[0], False if op in ("sitofp", "sext") else True if op in ("uitofp", "zext") else uns)
        if r is None:
            return None
        return (r[0], r[1], r[2] + [node])
    if op in ("fadd", "fsub", "add", "sub"):
        a, b = fp_affine(node.args[0], uns), fp_affine(node.args[1], uns)
        if a is None or b is None:
            return None
        s = 1 if op in ("fadd", "add") else -1
        coef = dict(a[0])
        for k, v in b[0].items():
            coef[k] = coef.get(k, 0) + s * v
        return ({k: v for k, v in coef.items() if v != 0}, a[1] + s * b[1], a[2] + b[2] + [node])
    if op in ("fmul", "mul"):
        a, b = fp_affine(node.args[0], uns), fp_affine(node.args[1], uns)
        if a is None or b is None:
            return None
        if not a[0]:
            k, f = a[1], b
        elif not b[0]:
            k, f = b[1], a
        else:
            return None
        return ({i: v * k for i, v in f[0].items()}, f[1] * k, a[2] + b[2] + [node])
    if op == "fdiv":
        a, b = fp_affine(node.args[0], uns), fp_affine(node.args[1], uns)
        if a is None or b is None or b[0] or b[1] == 0:
            return None
        return ({i: v / b[1] for i, v in a[0].items()}, a[1] / b[1], a[2] + b[2] + [node])
    if op == "fneg":
        a = fp_affine(node.args[0], uns)
        if a is None:
            return None
        return ({i: -v for i, v in a[0].items()}, -a[1], a[2] + [node])
    return None
