"""Constant extraction: read values computed by clang's constant evaluator out of LLVM IR global
initialisers.  Nothing is executed: the TU is lowered with -S -emit-llvm -O0 and the text of the
initialisers is parsed."""
import os
import re
import struct
from fractions import Fraction

from . import cxx
from .common import AU_INC, VERIF_INC, AnalysisBroken
from .witness import DEFAULT_PRELUDE


def _ir_cmd(src, std="c++14", extra=()):
    return ["clang++", "-std=" + std, "-I" + AU_INC, "-I" + VERIF_INC, "-O0", "-S", "-emit-llvm",
            "-fconstexpr-steps=100000000", "-fconstexpr-depth=4096", "-ferror-limit=0",
            "-fno-caret-diagnostics", "-fno-color-diagnostics", "-w", "-o", "-"] + list(extra) + [src]


def hexfloat_to_fraction(tok, ty):
    """LLVM prints float/double as decimal when exact, else as 0x<16 hex> (IEEE double bits);
    x86_fp80 as 0xK<20 hex>."""
    if ty == "x86_fp80":
        assert tok.startswith("0xK"), tok
        raw = int(tok[3:], 16)
        sign = (raw >> 79) & 1
        exp = (raw >> 64) & 0x7FFF
        mant = raw & ((1 << 64) - 1)
        if exp == 0x7FFF:
            if mant << 1 & ((1 << 64) - 1) == 0:
                return "-inf" if sign else "inf"
            return "nan"
        if exp == 0:
            v = Fraction(mant, 1) * Fraction(2) ** (-16382 - 63)
        else:
            v = Fraction(mant, 1) * Fraction(2) ** (exp - 16383 - 63)
        return -v if sign else v
    if tok.startswith("0x"):
        bits = int(tok[2:], 16)
        d = struct.unpack(">d", bits.to_bytes(8, "big"))[0]
    else:
        d = float(tok)
    if d != d:
        return "nan"
    if d in (float("inf"), float("-inf")):
        return "inf" if d > 0 else "-inf"
    return Fraction(d)


_GLOBAL = re.compile(r'^@(?P<name>[A-Za-z_][\w.]*) = (?:dso_local )?(?:local_unnamed_addr )?(?:constant|global) (?P<rest>.*)$')


def _parse_cstring(s):
    out = bytearray()
    i = 0
    while i < len(s):
        c = s[i]
        if c == "\\":
            out.append(int(s[i + 1:i + 3], 16))
            i += 3
        else:
            out.append(ord(c))
            i += 1
    return bytes(out)


def parse_initialiser(rest):
    """Returns a python value for the forms we generate."""
    rest = rest.strip()
    rest = re.sub(r", align \d+.*$", "", rest)
    m = re.match(r"^(i\d+) (-?\d+|true|false)$", rest)
    if m:
        bits = int(m.group(1)[1:])
        tok = m.group(2)
        if tok in ("true", "false"):
            return ("int", bits, 1 if tok == "true" else 0)
        return ("int", bits, int(tok))
    m = re.match(r"^(float|double|x86_fp80) (\S+)$", rest)
    if m:
        return ("fp", m.group(1), hexfloat_to_fraction(m.group(2), m.group(1)))
    if rest.endswith("zeroinitializer"):
        return ("zero", None, None)
    # aggregates: collect scalars in order
    ints = []
    strs = []
    fps = []
    for m in re.finditer(r'c"((?:[^"\\]|\\[0-9A-Fa-f]{2})*)"', rest):
        strs.append(_parse_cstring(m.group(1)))
    rest_wo = re.sub(r'c"((?:[^"\\]|\\[0-9A-Fa-f]{2})*)"', "", rest)
    for m in re.finditer(r"\b(i\d+|float|double|x86_fp80) (-?\d+|true|false|0x[0-9A-FK]+|-?\d\.\d+e[+-]\d+)(?=[,\]\} ])", rest_wo + " "):
        ty, tok = m.group(1), m.group(2)
        if ty.startswith("i"):
            ints.append(1 if tok == "true" else 0 if tok == "false" else int(tok))
        else:
            fps.append((ty, hexfloat_to_fraction(tok, ty)))
    return ("agg", dict(ints=ints, strs=strs, fps=fps, raw=rest), None)


class Extractor:
    """Collects `extern "C" const T name = expr;` definitions, compiles in batches, returns values.
    If a batch fails to compile, items are retried alone so that one ill-formed expression (which is
    a result in itself) does not hide the others."""

    def __init__(self, ctx, prelude=DEFAULT_PRELUDE, std="c++14", tag="x"):
        self.ctx = ctx
        self.prelude = prelude
        self.std = std
        self.tag = tag
        self.items = []  # (name, ctype, expr, pre)
        self.groups = {}

    def add(self, name, ctype, expr, pre="", group=None):
        """group: items of one group are retried together when their batch fails to compile."""
        self.items.append((name, ctype, expr, pre))
        self.groups[name] = group if group is not None else name

    def _text(self, items):
        lines = [self.prelude]
        for name, ctype, expr, pre in items:
            if pre:
                lines.append(pre)
            lines.append('extern "C" const %s %s = %s;' % (ctype, name, expr))
        return "\n".join(lines) + "\n"

    def _run(self, items, idx):
        wd = self.ctx.sub("X_" + self.tag)
        path = os.path.join(wd, "%s_%s.cc" % (self.tag, idx))
        with open(path, "w") as f:
            f.write(self._text(items))
        rc, so, se = cxx.run(_ir_cmd(path, self.std))
        if rc != 0:
            return None, se
        vals = {}
        for ln in so.splitlines():
            m = _GLOBAL.match(ln)
            if m:
                vals[m.group("name")] = parse_initialiser(m.group("rest"))
        return vals, se

    def run(self, batch=200):
        """Returns {name: value or ('error', first error text)}."""
        out = {}
        chunks = [self.items[i:i + batch] for i in range(0, len(self.items), batch)]

        def do(arg):
            i, ch = arg
            vals, se = self._run(ch, "b%d" % i)
            res = {}
            if vals is None:
                # retry group by group (a group = the items that belong to one instance)
                order = []
                bygroup = {}
                for it in ch:
                    g = self.groups[it[0]]
                    if g not in bygroup:
                        bygroup[g] = []
                        order.append(g)
                    bygroup[g].append(it)
                for j, g in enumerate(order):
                    v1, se1 = self._run(bygroup[g], "b%d_%d" % (i, j))
                    for it in bygroup[g]:
                        if v1 is None:
                            errs = [d for d in cxx.parse_clang(se1)]
                            res[it[0]] = ("error", errs[0].where() + ": " + errs[0].msg if errs else se1[-300:], None)
                        else:
                            res[it[0]] = v1.get(it[0], ("missing", None, None))
            else:
                for it in ch:
                    res[it[0]] = vals.get(it[0], ("missing", None, None))
            return res

        for res in cxx.pmap(do, list(enumerate(chunks))):
            out.update(res)
        missing = [k for k, v in out.items() if v[0] == "missing"]
        if missing:
            raise AnalysisBroken("constant extraction: globals missing from IR: %s" % missing[:5])
        return out


def flat_to_pack(val, signed_ids=False):
    """Decode auv::Flat -> list of (id, Fraction exp)."""
    if val[0] == "zero":
        return []
    if val[0] != "agg":
        raise AnalysisBroken("unexpected Flat initialiser %r" % (val,))
    ints = val[1]["ints"]
    n = ints[0]
    out = []
    for i in range(n):
        bid = ints[1 + 3 * i] & ((1 << 64) - 1)
        if signed_ids and bid >= 1 << 63:
            bid -= 1 << 64
        num = ints[2 + 3 * i]
        den = ints[3 + 3 * i]
        out.append((bid, Fraction(num, den)))
    return out


def text_of(val):
    """Decode auv::Text -> (size, bytes up to size)."""
    if val[0] != "agg":
        raise AnalysisBroken("unexpected Text initialiser %r" % (val,))
    size = val[1]["ints"][0]
    if val[1]["strs"]:
        raw = val[1]["strs"][0]
    else:
        raw = bytes((c & 0xFF) for c in val[1]["ints"][1:])
    raw = raw + b"\0" * 256
    return size, raw[:size]
