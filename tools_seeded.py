#!/usr/bin/env python3
"""Developer helper for seeded changes (not a registered check).

  tools_seeded.py tests  <dir>            apply <dir>/patch.diff in the scratch worktree, build, run the repo's test-suite
  tools_seeded.py demo   <dir>            run the demonstration (meta.json "demo" commands) against the patched scratch
                                          worktree (must fail) and against /repo (must pass)
  tools_seeded.py checks <dir> [ids...]   apply the patch in the scratch worktree and run the given (default: all) quick checks
                                          against it (AU_REPO=scratch: /repo and the evidence files are not touched)
  tools_seeded.py table                   print the catch matrix from seeded/*/results.json

Every mode merges what it observed into <dir>/results.json.
The scratch worktree is /tmp/mut1 (git worktree of /repo, with its own _build); create it with
  git -C /repo worktree add --detach /tmp/mut1 && cmake -G Ninja -S /tmp/mut1 -B /tmp/mut1/_build \
      -DFETCHCONTENT_SOURCE_DIR_GOOGLETEST=/usr/src/googletest -DCMAKE_BUILD_TYPE=RelWithDebInfo
"""
import glob
import json
import os
import shutil
import subprocess
import sys
import tempfile

SCRATCH = os.environ.get("AU_SCRATCH", "/tmp/mut1")
VERIF = os.path.dirname(os.path.abspath(__file__))


def sh(cmd, **kw):
    return subprocess.run(cmd, shell=True, stdout=subprocess.PIPE, stderr=subprocess.STDOUT, universal_newlines=True, **kw)


def prepare(d):
    head = sh("git -C /repo rev-parse HEAD").stdout.strip()
    r = sh("git -C %s checkout -q -- . && git -C %s checkout -q --detach %s && git -C %s apply %s" % (SCRATCH, SCRATCH, head, SCRATCH, os.path.join(d, "patch.diff")))
    if r.returncode != 0:
        print("patch does not apply to /repo HEAD %s:\n%s" % (head[:8], r.stdout))
        sys.exit(2)
    return head


def restore():
    sh("git -C %s checkout -q -- ." % SCRATCH)


def merge(d, **kw):
    p = os.path.join(d, "results.json")
    cur = json.load(open(p)) if os.path.exists(p) else {}
    for k, v in kw.items():
        if isinstance(v, dict) and isinstance(cur.get(k), dict):
            cur[k].update(v)
        else:
            cur[k] = v
    json.dump(cur, open(p, "w"), indent=1, sort_keys=True)


def run_demo(d, inc):
    meta = json.load(open(os.path.join(d, "meta.json")))
    out = tempfile.mkdtemp(prefix="seeddemo_")
    try:
        work = os.path.join(out, "demo")
        shutil.copytree(d, work)
        rcs = []
        for c in meta["demo"]:
            r = sh(c.format(INC=inc, DIR=work, OUT=out), cwd=work)
            rcs.append(r.returncode)
        return rcs
    finally:
        shutil.rmtree(out, ignore_errors=True)


def table():
    rows = []
    for p in sorted(glob.glob(os.path.join(VERIF, "seeded", "*", "results.json"))):
        d = os.path.dirname(p)
        r = json.load(open(p))
        m = json.load(open(os.path.join(d, "meta.json")))
        caught = sorted(k for k, v in r.get("checks", {}).items() if v["rc"] == 1)
        missed = sorted(k for k, v in r.get("checks", {}).items() if v["rc"] == 0)
        broken = sorted(k for k, v in r.get("checks", {}).items() if v["rc"] not in (0, 1))
        rows.append((os.path.basename(d), m["property"], r.get("tests", "?"), r.get("demo", {}), caught, missed, broken))
    for row in rows:
        print("%-5s prop=%s tests=%s demo=%s caught_by=%s silent=%s broken=%s" % row)


def main():
    if sys.argv[1] == "table":
        return table()
    mode, d = sys.argv[1], os.path.abspath(sys.argv[2])
    head = prepare(d)
    try:
        if mode == "tests":
            r = sh("cmake --build %s/_build -j16 2>&1 | tail -2 && ctest --test-dir %s/_build -j8 --timeout 900 2>&1 | grep -E 'tests passed|tests failed|Failed'" % (SCRATCH, SCRATCH))
            print(r.stdout)
            line = [l for l in r.stdout.splitlines() if "tests passed" in l]
            merge(d, base=head, tests=line[0].strip() if line else "FAILED: " + r.stdout[-300:])
        elif mode == "demo":
            w = run_demo(d, SCRATCH + "/au/code")
            wo = run_demo(d, "/repo/au/code")
            ok = any(x != 0 for x in w) and all(x == 0 for x in wo)
            print("%s demo exit codes with change %s, without %s -> %s" % (os.path.basename(d), w, wo, "CONFIRMED" if ok else "NOT CONFIRMED"))
            merge(d, base=head, demo=dict(with_change=w, without_change=wo, confirmed=ok))
        elif mode == "checks":
            ids = sys.argv[3:] or [c["property_id"] for c in json.load(open(os.path.join(VERIF, "MANIFEST.json")))["checks"]]
            out = {}
            for i in ids:
                r = sh("cd %s && AU_REPO=%s bin/check %s --tier quick" % (VERIF, SCRATCH, i))
                viol = [l for l in r.stdout.splitlines() if l.startswith("VIOLATION")]
                what = [l.strip() for l in r.stdout.splitlines() if l.strip().startswith("what:")]
                out[i] = dict(rc=r.returncode, violations=len(viol), first=(what[0][:300] if what else ""),
                              broken=[l for l in r.stdout.splitlines() if l.startswith("ANALYSIS-BROKEN")][:1])
                print("%s rc=%d violations=%d %s %s" % (i, r.returncode, len(viol), out[i]["first"], out[i]["broken"]))
            merge(d, base=head, checks=out)
    finally:
        restore()


if __name__ == "__main__":
    main()
