#!/bin/bash
# Developer helper: run every quick check against every seeded change (scratch worktree $AU_SCRATCH).
cd "$(dirname "$0")"
for d in seeded/C*; do
  echo "=== $d"
  python3 tools_seeded.py checks $d "$@" 2>&1 | cut -c1-260
done
python3 tools_seeded.py table
