#!/usr/bin/env python3
"""Engine self-test: abstract cell analysis vs brute force over ALL values of 8/16-bit types.
Not a registered check (it evaluates DAGs concretely); it validates the domains of vlib/cells.py."""
import re
import os, sys, random
from fractions import Fraction
sys.path.insert(0, os.path.dirname(os.path.dirname(os.path.abspath(__file__))))
from vlib import common, ir, dag, cells, concrete, model
from checks import conv_int

def main():
    rnd = random.Random(int(os.environ.get("VERIF_SEED", "7")))
    ctx = common.Ctx("SELFTEST", "quick", 0, "other")
    insts = []
    for T in ("int8_t", "uint8_t", "int16_t", "uint16_t"):
        for (n, d) in [(3, 128), (7, 5), (5, 7), (2, 1), (1, 2), (127, 1), (1, 127), (128, 3), (255, 2), (2, 255), (256, 255),
                       (1000, 3), (3, 1000), (32767, 2), (2, 32767), (65535, 7), (32768, 5), (5, 32768), (2147483647, 2), (46341, 46340)]:
            insts.append(conv_int.Inst(T, n, d))
        for _ in range(25):
            insts.append(conv_int.Inst(T, rnd.randrange(1, 400), rnd.randrange(1, 400)))
    insts = [i for i in insts if not (i.N == 1 and i.D == 1)]
    nvals = ncell = 0
    for c0 in range(0, len(insts), 30):
        chunk = insts[c0:c0 + 30]
        mod, cur, wc, dropped = conv_int.build_module(ctx, chunk, "", "st%d" % c0)
        for k, inst in enumerate(cur):
            if not wc[k]:
                continue
            bits, signed = model.INT_TYPES[inst.T]
            lo, hi = model.int_range(inst.T)
            dags = {nm: dag.build(mod.funcs["%s_%d" % (nm, k)], mod) for nm in ("conv", "lossy", "ovf", "trunc")}
            roots = {nm: d.ret for nm, d in dags.items()}
            part = cells.analyse(roots, lo, hi, ret_views={"conv": (bits, signed)}, arith={"conv": dags["conv"].arith})
            seen = 0
            for cell, res in part:
                ncell += 1
                x = cell.first()
                while x is not None:
                    seen += 1
                    nvals += 1
                    for nm in ("lossy", "ovf", "trunc"):
                        cv = concrete.ev(roots[nm], [x])
                        av = cells.as_bool(res[nm])
                        assert cv == int(av), (inst.key, nm, x, cv, res[nm], cell)
                    memo = {}
                    cr = concrete.ev(roots["conv"], [x], memo)
                    poisoned = cr == concrete.POISON
                    for g, node in dags["conv"].arith:
                        gv = concrete.ev(g, [x], memo)
                        if gv == 1 and concrete.ev(node, [x], memo) == concrete.POISON:
                            poisoned = True
                    av = res["conv"]
                    if res.get("!conv") is not None and not isinstance(av, cells.Bad):
                        av = res["!conv"]
                    if isinstance(av, cells.Form):
                        assert not poisoned, (inst.key, x, av, cell)
                        cval = dag.as_signed(cr, "i%d" % bits) if signed else cr
                        assert Fraction(cval) == Fraction(av.at(x)) or av.kind == "tr" and cval == av.at(x), (inst.key, x, cval, av, cell)
                    else:
                        assert isinstance(av, cells.Bad), (inst.key, x, av)
                        exact = Fraction(x * inst.N, inst.D)
                        cval = None if poisoned else (dag.as_signed(cr, "i%d" % bits) if signed else cr)
                        big = abs(x * inst.N) >= 1 << 31  # product leaves the promoted type
                        assert poisoned or big or Fraction(cval) != exact or av.kind.startswith(("trunc", "narrowing")) and True, (inst.key, x, av, cval)
                        if av.kind in ("signed-overflow", "unsigned-wrap", "division-by-zero"):
                            assert poisoned, (inst.key, x, av)
                    nx = cells.Cell(x + 1, cell.hi, cell.cls)
                    x = None if nx.empty() else nx.first()
            assert seen == hi - lo + 1, (inst.key, seen)
    print("selftest cells: OK  (%d instances, %d cells, %d concrete values compared)" % (len(insts), ncell, nvals))
    nested(ctx, rnd)


def nested(ctx, rnd):
    """Nested truncation (cells.exactify: residue-class splits) and modular narrowing inside checker
    roots (wrap_roots), against brute force over all values of 8/16-bit parameters."""
    funcs = []
    fixed = [(9, 5, 20, -9193, 20), (7, 3, 4, 11, 6), (100, 9, 9, -2731, 100), (1, 4, 3, -5, 2), (5, 9, 9, 160, 5), (3, 7, 7, 0, 3)]
    for T in ("int16_t", "int8_t", "uint8_t", "uint16_t"):
        for (a, b, c, e, g) in fixed + [(rnd.randrange(1, 40), rnd.randrange(2, 40), rnd.randrange(1, 30), rnd.randrange(-500, 500), rnd.randrange(2, 40)) for _ in range(10)]:
            k = len(funcs)
            funcs.append((k, T, "n", 'extern "C" int f_%d(%s x) { return ((x * %d / %d) * %d + (%d)) / %d; }' % (k, T, a, b, c, e, g)))
        for (a, c, op) in [(12, 5, ">"), (3, -7, "<"), (100, 44, "=="), (255, 1, "!="), (7, 0, ">="), (129, 100, "<=")] + \
                          [(rnd.randrange(2, 300), rnd.randrange(-100, 200), rnd.choice([">", "<", "==", "<="])) for _ in range(6)]:
            k = len(funcs)
            # (narrowing a 16-bit parameter times a to 8 bits has one cell per wrap: keep the target as wide as the parameter)
            N = ("int8_t" if rnd.random() < 0.5 else "uint8_t") if "8" in T else ("int16_t" if rnd.random() < 0.5 else "uint16_t")
            funcs.append((k, T, "w", 'extern "C" bool f_%d(%s x) { return static_cast<%s>(x * %d) %s %d; }' % (k, T, N, a, op, c)))
    # right shifts by constants (kind "n": value forms; negative operands of >> are outside the forms)
    for T in ("uint16_t", "uint8_t"):
        for (a, sh, c) in [(1, 3, 0), (5, 2, 7), (3, 1, 1), (1, 7, 0)]:
            k = len(funcs)
            funcs.append((k, T, "n", 'extern "C" int f_%d(%s x) { return ((x * %d + %d) >> %d) * 3; }' % (k, T, a, c, sh)))
    # a remainder narrowed before it is tested (kind "r"): where the abstract value is Bad
    # ('remainder-narrowed') its witness must really be a value for which the function says false
    # although the remainder is not zero; where it is a boolean it must agree with every value
    for T, N, Ds in (("int16_t", "int8_t", (300, 1000, 257, 100, 256, 512)), ("uint16_t", "uint8_t", (300, 1000, 4097, 255, 256)), ("int16_t", "uint8_t", (700, 129))):
        for D in Ds:
            k = len(funcs)
            funcs.append((k, T, "r", 'extern "C" bool f_%d(%s x) { return static_cast<%s>(x %% %d) != 0; }' % (k, T, N, D)))
    src = "#include <cstdint>\n" + "\n".join(f[3] for f in funcs) + "\n"
    ll, err = ir.build_ir(ctx, src, "st_nested")
    assert ll, err
    mod = ir.parse_module(ll, only=lambda n: n.startswith("f_"))
    nv = nc = 0
    for k, T, kind, _ in funcs:
        d = dag.build(mod.funcs["f_%d" % k], mod)
        lo, hi = model.int_range(T)
        part = cells.analyse({"v": d.ret}, lo, hi, wrap_roots=("v",) if kind in ("w", "r") else None)
        seen = 0
        for cell, res in part:
            nc += 1
            if kind == "r" and isinstance(res["v"], cells.Bad):
                w = res["v"].example
                D = int(re.search(r"x % (\d+)\)", [f for f in funcs if f[0] == k][0][3]).group(1))
                assert res["v"].kind == "remainder-narrowed" and cell.lo <= w <= cell.hi, (k, res["v"], cell)
                assert concrete.ev(d.ret, [w]) == 0 and w % D != 0, (k, w, D)
                # every value of this cell: count them as seen, the verdict is about the witness
                x = cell.first()
                while x is not None:
                    seen += 1
                    nx = cells.Cell(x + 1, cell.hi, cell.cls)
                    x = None if nx.empty() else nx.first()
                continue
            x = cell.first()
            while x is not None:
                seen += 1
                nv += 1
                cv = concrete.ev(d.ret, [x])
                av = res["v"]
                if kind in ("w", "r"):
                    assert cells.as_bool(av) is not None and int(cells.as_bool(av)) == cv, (k, x, cv, av, cell)
                else:
                    assert isinstance(av, cells.Form), (k, x, av, cell)
                    assert dag.as_signed(cv, "i32") == av.at(x), (k, x, cv, av, cell)
                nx = cells.Cell(x + 1, cell.hi, cell.cls)
                x = None if nx.empty() else nx.first()
        assert seen == hi - lo + 1, (k, seen)
    print("selftest nested truncation / modular narrowing: OK  (%d functions, %d cells, %d concrete values compared)" % (len(funcs), nc, nv))

if __name__ == "__main__":
    main()
